// reader_sched.h - PeriodicExportingMetricReader under generated schedules (engine E-SCHED), for the
// reader clauses of C02 (ForceFlush complete / no Export after Shutdown / termination) and C03
// (one Export at a time).  periodic_exporting_metric_reader.{h,cc} and metric_reader.{h,cc} are
// compiled from token-renamed copies against the scheduler shim; the MetricProducer is a stub that
// stamps every collection with the number of measurements recorded so far.
#pragma once

#include <algorithm>
#include <chrono>
#include <memory>
#include <string>
#include <vector>

#include "opentelemetry/sdk/metrics/export/metric_producer.h"
#include "opentelemetry/sdk/metrics/export/periodic_exporting_metric_reader.h"
#include "opentelemetry/sdk/metrics/export/periodic_exporting_metric_reader_options.h"
#include "opentelemetry/sdk/metrics/push_metric_exporter.h"
#include "sched_harness.h"
#include "vh.h"

namespace rs
{
namespace otel = opentelemetry;
namespace sdkm = opentelemetry::sdk::metrics;

struct Op
{
  enum Kind
  {
    SLEEP,
    RECORD,
    FLUSH,
    SHUTDOWN
  } kind;
  int64_t arg;
};

struct Cfg
{
  int interval_ms = 100, timeout_ms = 5;
  int64_t export_latency_us = 0;
  int export_fail_every     = 0;
  int64_t xflush_latency_us = 0;
  bool xflush_result        = true;
  std::vector<std::vector<Op>> threads;
  std::vector<Op> tail;
  // "acknowledged right at the deadline": the exporter's latency equals a finite ForceFlush timeout of the scenario
  // and the scheduler wakes timers that expire within 30 us of each other together (vsched::Options::timer_slack_ns),
  // so the worker's acknowledgement and the caller's time-out race.  (Seeded C02-m11.)
  bool aligned = false;
};

struct ExportRec
{
  uint64_t entry, exit;
  long snapshot;
};
struct CtlRec
{
  bool is_flush;
  int64_t timeout_us;
  bool result;
  uint64_t call, ret;
  long recorded_at_call;
};
struct XCall
{
  uint64_t entry, exit;
};
struct History
{
  std::vector<ExportRec> exports;
  std::vector<CtlRec> ctl;
  std::vector<XCall> xflush, xshutdown;
  long recorded    = 0;
  int in_flight = 0, max_in_flight = 0;
  vsched::RunStats rs;
};

inline std::string show_us(int64_t us)
{
  return us < 0 ? "max" : std::to_string(us) + "us";
}

inline std::string describe(const Cfg &c)
{
  std::string s = "reader interval=" + std::to_string(c.interval_ms) + "ms timeout=" + std::to_string(c.timeout_ms) +
                  "ms export{lat=" + show_us(c.export_latency_us) + ",fail_every=" +
                  std::to_string(c.export_fail_every) + "} xflush{lat=" + show_us(c.xflush_latency_us) + ",res=" +
                  (c.xflush_result ? "1" : "0") + "}" + (c.aligned ? " aligned" : "") + "\n";
  auto prog = [](const std::vector<Op> &p) {
    std::string o;
    for (auto &op : p)
      switch (op.kind)
      {
        case Op::SLEEP:
          o += "sleep(" + show_us(op.arg) + ") ";
          break;
        case Op::RECORD:
          o += "record ";
          break;
        case Op::FLUSH:
          o += "flush(" + show_us(op.arg) + ") ";
          break;
        case Op::SHUTDOWN:
          o += "shutdown(" + show_us(op.arg) + ") ";
          break;
      }
    return o;
  };
  for (size_t i = 0; i < c.threads.size(); ++i)
    s += " T" + std::to_string(i) + ": " + prog(c.threads[i]) + "\n";
  s += " main-tail: " + prog(c.tail) + "\n";
  return s;
}

inline Cfg gen_cfg(vh::Reader &rd)
{
  Cfg c;
  static const int iv[] = {20, 100, 1000};
  c.interval_ms         = iv[rd.below(3)];
  c.timeout_ms          = rd.coin() ? 5 : 15;
  static const int64_t lat[] = {0, 1000, 8000, 60000};
  c.export_latency_us        = lat[rd.weighted({4, 3, 3, 2})];
  c.export_fail_every        = rd.chance(20) ? 1 + static_cast<int>(rd.below(3)) : 0;
  c.xflush_latency_us        = rd.chance(25) ? 2000 : 0;
  c.xflush_result            = !rd.chance(20);
  static const int64_t to[]  = {-1, 0, 300, 5000, 50000, 2000000};
  static const int64_t sl[]  = {0, 500, 5000, 30000, 150000};
  auto gen_prog = [&](unsigned maxn, bool allow_shutdown) {
    std::vector<Op> p;
    unsigned n = 1 + rd.below(maxn);
    for (unsigned i = 0; i < n; ++i)
    {
      switch (rd.weighted({3, 4, 4, allow_shutdown ? 1u : 0u}))
      {
        case 0:
          p.push_back(Op{Op::SLEEP, sl[rd.weighted({2, 3, 3, 2, 1})]});
          break;
        case 1:
          p.push_back(Op{Op::RECORD, 0});
          break;
        case 2:
          p.push_back(Op{Op::FLUSH, to[rd.weighted({4, 2, 2, 3, 2, 1})]});
          break;
        default:
          p.push_back(Op{Op::SHUTDOWN, to[rd.weighted({4, 2, 2, 3, 2, 1})]});
          break;
      }
    }
    return p;
  };
  unsigned nt = 1 + rd.below(3);
  for (unsigned t = 0; t < nt; ++t)
    c.threads.push_back(gen_prog(5, true));
  if (rd.coin())
    c.tail = gen_prog(4, true);
  // decided from what was drawn, no further stream byte is read
  if (c.xflush_latency_us == 2000)
  {
    int64_t finite = 0;
    for (auto &t : c.threads)
      for (auto &op : t)
        if (op.kind == Op::FLUSH && op.arg > 0 && op.arg <= 50000 && !finite)
          finite = op.arg;
    if (finite)
    {
      c.aligned           = true;
      c.export_latency_us = finite;
      c.xflush_latency_us = 0;
    }
  }
  return c;
}

class StubProducer final : public sdkm::MetricProducer
{
public:
  explicit StubProducer(History &h) : h_(h) {}
  Result Produce() noexcept override
  {
    vsched::point();
    Result r;
    r.status_ = Status::kSuccess;
    r.points_.scope_metric_data_.resize(static_cast<size_t>(h_.recorded));
    return r;
  }

private:
  History &h_;
};

class SchedMetricExporter final : public sdkm::PushMetricExporter
{
public:
  SchedMetricExporter(const Cfg &cfg, History &h, vsched::Scheduler &s) : cfg_(cfg), h_(h), s_(s) {}
  otel::sdk::common::ExportResult Export(const sdkm::ResourceMetrics &data) noexcept override
  {
    ExportRec r;
    r.entry    = s_.stamp();
    r.snapshot = static_cast<long>(data.scope_metric_data_.size());
    if (++h_.in_flight > h_.max_in_flight)
      h_.max_in_flight = h_.in_flight;
    ++calls_;
    vsched::point();
    if (cfg_.export_latency_us > 0)
      vsched::this_thread::sleep_for(std::chrono::microseconds(cfg_.export_latency_us));
    else
      vsched::this_thread::yield();
    --h_.in_flight;
    r.exit = s_.stamp();
    h_.exports.push_back(r);
    bool fail = cfg_.export_fail_every > 0 && (calls_ % cfg_.export_fail_every) == 0;
    if (!fail)
      return otel::sdk::common::ExportResult::kSuccess;
    // every kind of failure is generated: the kind follows from the call number, so no extra stream byte is read
    // (saved replays keep their meaning) and one scenario sees several kinds
    static const otel::sdk::common::ExportResult kinds[3] = {otel::sdk::common::ExportResult::kFailure,
                                                             otel::sdk::common::ExportResult::kFailureFull,
                                                             otel::sdk::common::ExportResult::kFailureInvalidArgument};
    return kinds[(static_cast<size_t>(calls_) / static_cast<size_t>(cfg_.export_fail_every)) % 3];
  }
  sdkm::AggregationTemporality GetAggregationTemporality(sdkm::InstrumentType) const noexcept override
  {
    return sdkm::AggregationTemporality::kCumulative;
  }
  bool ForceFlush(std::chrono::microseconds) noexcept override
  {
    XCall x;
    x.entry = s_.stamp();
    vsched::point();
    if (cfg_.xflush_latency_us > 0)
      vsched::this_thread::sleep_for(std::chrono::microseconds(cfg_.xflush_latency_us));
    x.exit = s_.stamp();
    h_.xflush.push_back(x);
    return cfg_.xflush_result;
  }
  bool Shutdown(std::chrono::microseconds) noexcept override
  {
    XCall x;
    x.entry = s_.stamp();
    vsched::point();
    x.exit = s_.stamp();
    h_.xshutdown.push_back(x);
    return true;
  }

private:
  const Cfg &cfg_;
  History &h_;
  vsched::Scheduler &s_;
  int calls_ = 0;
};

inline void run_scenario(vh::Case &c, const Cfg &cfg, History &h)
{
  vsh::ByteSource src(c.rd, 40);
  vsched::Options opt;
  opt.step_budget = 2000000;
  if (cfg.aligned)
  {
    opt.timer_slack_ns = 30000;
    c.tag("export-latency-equals-a-flush-timeout");
  }
  c.note(std::string(" schedule-mode=") + src.mode_name() + (cfg.aligned ? " timer-slack=30us" : "") + "\n");
  h.rs = vsched::run(&src, opt, vsh::fatal, [&](vsched::Scheduler &s) {
    StubProducer producer(h);
    sdkm::PeriodicExportingMetricReaderOptions o;
    o.export_interval_millis = std::chrono::milliseconds(cfg.interval_ms);
    o.export_timeout_millis  = std::chrono::milliseconds(cfg.timeout_ms);
    std::unique_ptr<sdkm::PushMetricExporter> ex(new SchedMetricExporter(cfg, h, s));
    auto reader = std::make_shared<sdkm::PeriodicExportingMetricReader>(std::move(ex), o);
    reader->SetMetricProducer(&producer);  // starts the worker
    bool shut = false;
    // The reader's owner (MeterContext) serialises Shutdown with a latch; two DIRECT concurrent
    // MetricReader::Shutdown calls would both join the worker thread (not a supported use), so a
    // Shutdown that would overlap another one is skipped.  Sequential repeats are generated.
    int shutdown_in_progress = 0;
    auto run_prog = [&](const std::vector<Op> &prog) {
      for (auto &op : prog)
      {
        switch (op.kind)
        {
          case Op::SLEEP:
            vsched::this_thread::sleep_for(std::chrono::microseconds(op.arg));
            break;
          case Op::RECORD:
            vsched::point();
            h.recorded++;
            break;
          default:
          {
            if (op.kind == Op::SHUTDOWN && shutdown_in_progress > 0)
              break;
            CtlRec r;
            r.is_flush   = op.kind == Op::FLUSH;
            r.timeout_us = op.arg;
            auto to      = op.arg < 0 ? (std::chrono::microseconds::max)() : std::chrono::microseconds(op.arg);
            r.recorded_at_call = h.recorded;
            r.call             = s.stamp();
            if (r.is_flush)
              r.result = reader->ForceFlush(to);
            else
            {
              shut = true;
              ++shutdown_in_progress;
              r.result = reader->Shutdown(to);
              --shutdown_in_progress;
            }
            r.ret = s.stamp();
            h.ctl.push_back(r);
            break;
          }
        }
      }
    };
    std::vector<std::unique_ptr<vsched::thread>> ts;
    for (size_t t = 0; t < cfg.threads.size(); ++t)
      ts.emplace_back(new vsched::thread([&, t]() { run_prog(cfg.threads[t]); }));
    for (auto &t : ts)
      t->join();
    run_prog(cfg.tail);
    if (!shut)
    {
      // an owner (MeterContext) always shuts its readers down before destroying them
      CtlRec r;
      r.is_flush         = false;
      r.timeout_us       = -1;
      r.recorded_at_call = h.recorded;
      r.call             = s.stamp();
      r.result           = reader->Shutdown();
      r.ret              = s.stamp();
      h.ctl.push_back(r);
    }
    reader.reset();
  });
}

// C02 (reader clauses)
inline void check_control(vh::Case &c, const Cfg &, const History &h)
{
  uint64_t fin = UINT64_MAX;
  for (auto &k : h.ctl)
    if (!k.is_flush)
      fin = std::min(fin, k.ret);
  for (auto &f : h.ctl)
  {
    if (!f.is_flush || !f.result)
      continue;
    if (f.call > fin)
      continue;  // a flush after Shutdown returned is "without effect"; nothing to deliver
    c.tag("flush-true");
    bool covered = false;
    for (auto &e : h.exports)
      if (e.entry > f.call && e.exit < f.ret && e.snapshot >= f.recorded_at_call)
        covered = true;
    // a flush that raced Shutdown is released by the shutdown itself, but then it may only return
    // true if a complete collect-and-export cycle for it did run (the reader compares sequence
    // numbers before returning): no exemption
    for (auto &k : h.ctl)
      if (!k.is_flush && k.call < f.ret)
        c.tag("flush-true-raced-shutdown");
    VH_CHECK(c, covered, "reader ForceFlush (call@" << f.call << ", ret@" << f.ret << ") returned true but no Export "
                                                    << "carrying the " << f.recorded_at_call
                                                    << " measurements recorded before it ran inside that window");
    bool x_in_window = false;
    for (auto &x : h.xflush)
      if (x.entry > f.call && x.exit < f.ret)
        x_in_window = true;
    VH_CHECK(c, x_in_window, "reader ForceFlush returned true but the exporter's ForceFlush was not invoked in its window");
  }
  for (auto &e : h.exports)
    VH_CHECK(c, e.entry < fin, "the periodic reader called Export (entry@" << e.entry << ") after its Shutdown had returned (@"
                                                                          << fin << ")");
}

// C03 (reader clause)
inline void check_bounds(vh::Case &c, const Cfg &, const History &h)
{
  VH_CHECK(c, h.max_in_flight <= 1, "the periodic reader entered Export while a previous Export on the same exporter was "
                                    "still running (" << h.max_in_flight << " in flight)");
}

inline void common_tags(vh::Case &c, const Cfg &cfg, const History &h)
{
  if (h.rs.preemptions)
    c.tag("preempted");
  if (h.exports.size() >= 2)
    c.tag("2+exports");
  if (cfg.export_latency_us > static_cast<int64_t>(cfg.timeout_ms) * 1000)
    c.tag("export-slower-than-timeout");
  bool flush = false;
  for (auto &k : h.ctl)
    flush = flush || k.is_flush;
  if (flush)
    c.tag("has-flush");
}

inline bool flush_overlaps_export(const History &h)
{
  for (auto &f : h.ctl)
    if (f.is_flush)
      for (auto &e : h.exports)
        if (e.entry < f.ret && f.call < e.exit)
          return true;
  return false;
}

}  // namespace rs

// C02 (provider level): ForceFlush / Shutdown through TracerProvider, LoggerProvider and
// MeterProvider owning 1..3 mixed processors / readers.  Sequential programs on the real
// (unshadowed) SDK build: scripted children report generated results, real batch/simple children
// carry capture exporters.  Oracle: a provider-level ForceFlush/Shutdown that returns true implies
// every owned child reported true for that call (and, for real children, that everything produced
// before the call reached the exporter and the exporter's ForceFlush ran).  At the end the provider is
// destroyed: everything produced before Shutdown / destruction must have reached every real child's
// exporter, a batch child's exporter was shut down exactly once however often Shutdown was requested,
// and no exporter call happened after the provider's Shutdown had returned.  The MeterProvider may
// also own a real PeriodicExportingMetricReader (its own worker thread) with a capture exporter.
#include <atomic>
#include <mutex>

#include "opentelemetry/sdk/logs/batch_log_record_processor.h"
#include "opentelemetry/sdk/logs/exporter.h"
#include "opentelemetry/sdk/logs/logger_provider.h"
#include "opentelemetry/sdk/logs/read_write_log_record.h"
#include "opentelemetry/sdk/logs/simple_log_record_processor.h"
#include "opentelemetry/sdk/metrics/export/periodic_exporting_metric_reader.h"
#include "opentelemetry/sdk/metrics/export/periodic_exporting_metric_reader_options.h"
#include "opentelemetry/sdk/metrics/meter_provider.h"
#include "opentelemetry/sdk/metrics/push_metric_exporter.h"
#include "opentelemetry/sdk/metrics/metric_reader.h"
#include "opentelemetry/sdk/trace/batch_span_processor.h"
#include "opentelemetry/sdk/trace/batch_span_processor_options.h"
#include "opentelemetry/sdk/trace/exporter.h"
#include "opentelemetry/sdk/trace/simple_processor.h"
#include "opentelemetry/sdk/trace/span_data.h"
#include "opentelemetry/sdk/trace/tracer_provider.h"
#include "vh.h"

const char *vh_property_id = "C02";

namespace
{
namespace otel = opentelemetry;
namespace sdkt = opentelemetry::sdk::trace;
namespace sdkl = opentelemetry::sdk::logs;
namespace sdkm = opentelemetry::sdk::metrics;

struct ChildLog
{
  std::mutex mu;
  int produced = 0;            // records handed to the child (scripted) or exported (real)
  int exported = 0;
  int flush_calls = 0, shutdown_calls = 0, xflush_calls = 0;
  int xshutdown_calls = 0;            // Shutdown calls on the capture exporter
  bool owner_shut_returned = false;   // the provider's first Shutdown has returned
  int xcalls_after_owner_shutdown = 0;  // exporter Export/ForceFlush/Shutdown calls after that
  bool next_flush = true, next_shutdown = true;
  std::vector<bool> flush_results, shutdown_results;
};

// ---- spans
class SpanSink final : public sdkt::SpanExporter
{
public:
  explicit SpanSink(std::shared_ptr<ChildLog> l) : l_(std::move(l)) {}
  std::unique_ptr<sdkt::Recordable> MakeRecordable() noexcept override
  {
    return std::unique_ptr<sdkt::Recordable>(new sdkt::SpanData());
  }
  otel::sdk::common::ExportResult Export(const otel::nostd::span<std::unique_ptr<sdkt::Recordable>> &b) noexcept override
  {
    std::lock_guard<std::mutex> g(l_->mu);
    l_->exported += static_cast<int>(b.size());
    l_->xcalls_after_owner_shutdown += l_->owner_shut_returned;
    return otel::sdk::common::ExportResult::kSuccess;
  }
  bool ForceFlush(std::chrono::microseconds) noexcept override
  {
    std::lock_guard<std::mutex> g(l_->mu);
    l_->xflush_calls++;
    l_->xcalls_after_owner_shutdown += l_->owner_shut_returned;
    return true;
  }
  bool Shutdown(std::chrono::microseconds) noexcept override
  {
    std::lock_guard<std::mutex> g(l_->mu);
    l_->xshutdown_calls++;
    l_->xcalls_after_owner_shutdown += l_->owner_shut_returned;
    return true;
  }

private:
  std::shared_ptr<ChildLog> l_;
};

class ScriptedSpanProcessor final : public sdkt::SpanProcessor
{
public:
  explicit ScriptedSpanProcessor(std::shared_ptr<ChildLog> l) : l_(std::move(l)) {}
  std::unique_ptr<sdkt::Recordable> MakeRecordable() noexcept override
  {
    return std::unique_ptr<sdkt::Recordable>(new sdkt::SpanData());
  }
  void OnStart(sdkt::Recordable &, const otel::trace::SpanContext &) noexcept override {}
  void OnEnd(std::unique_ptr<sdkt::Recordable> &&) noexcept override { l_->produced++; }
  bool ForceFlush(std::chrono::microseconds) noexcept override
  {
    l_->flush_calls++;
    l_->flush_results.push_back(l_->next_flush);
    return l_->next_flush;
  }
  bool Shutdown(std::chrono::microseconds) noexcept override
  {
    l_->shutdown_calls++;
    l_->shutdown_results.push_back(l_->next_shutdown);
    return l_->next_shutdown;
  }

private:
  std::shared_ptr<ChildLog> l_;
};

// ---- logs
class LogSink final : public sdkl::LogRecordExporter
{
public:
  explicit LogSink(std::shared_ptr<ChildLog> l) : l_(std::move(l)) {}
  std::unique_ptr<sdkl::Recordable> MakeRecordable() noexcept override
  {
    return std::unique_ptr<sdkl::Recordable>(new sdkl::ReadWriteLogRecord());
  }
  otel::sdk::common::ExportResult Export(const otel::nostd::span<std::unique_ptr<sdkl::Recordable>> &b) noexcept override
  {
    std::lock_guard<std::mutex> g(l_->mu);
    l_->exported += static_cast<int>(b.size());
    l_->xcalls_after_owner_shutdown += l_->owner_shut_returned;
    return otel::sdk::common::ExportResult::kSuccess;
  }
  bool ForceFlush(std::chrono::microseconds) noexcept override
  {
    std::lock_guard<std::mutex> g(l_->mu);
    l_->xflush_calls++;
    l_->xcalls_after_owner_shutdown += l_->owner_shut_returned;
    return true;
  }
  bool Shutdown(std::chrono::microseconds) noexcept override
  {
    std::lock_guard<std::mutex> g(l_->mu);
    l_->xshutdown_calls++;
    l_->xcalls_after_owner_shutdown += l_->owner_shut_returned;
    return true;
  }

private:
  std::shared_ptr<ChildLog> l_;
};

class ScriptedLogProcessor final : public sdkl::LogRecordProcessor
{
public:
  explicit ScriptedLogProcessor(std::shared_ptr<ChildLog> l) : l_(std::move(l)) {}
  std::unique_ptr<sdkl::Recordable> MakeRecordable() noexcept override
  {
    return std::unique_ptr<sdkl::Recordable>(new sdkl::ReadWriteLogRecord());
  }
  void OnEmit(std::unique_ptr<sdkl::Recordable> &&) noexcept override { l_->produced++; }
  bool ForceFlush(std::chrono::microseconds) noexcept override
  {
    l_->flush_calls++;
    l_->flush_results.push_back(l_->next_flush);
    return l_->next_flush;
  }
  bool Shutdown(std::chrono::microseconds) noexcept override
  {
    l_->shutdown_calls++;
    l_->shutdown_results.push_back(l_->next_shutdown);
    return l_->next_shutdown;
  }

private:
  std::shared_ptr<ChildLog> l_;
};

// ---- metrics
class ScriptedReader final : public sdkm::MetricReader
{
public:
  explicit ScriptedReader(std::shared_ptr<ChildLog> l) : l_(std::move(l)) {}
  sdkm::AggregationTemporality GetAggregationTemporality(sdkm::InstrumentType) const noexcept override
  {
    return sdkm::AggregationTemporality::kCumulative;
  }

private:
  bool OnForceFlush(std::chrono::microseconds) noexcept override
  {
    l_->flush_calls++;
    l_->flush_results.push_back(l_->next_flush);
    return l_->next_flush;
  }
  bool OnShutDown(std::chrono::microseconds) noexcept override
  {
    l_->shutdown_calls++;
    l_->shutdown_results.push_back(l_->next_shutdown);
    return l_->next_shutdown;
  }
  std::shared_ptr<ChildLog> l_;
};

// a push exporter for the real periodic reader: remembers the cumulative value of the one counter
class MetricSink final : public sdkm::PushMetricExporter
{
public:
  explicit MetricSink(std::shared_ptr<ChildLog> l) : l_(std::move(l)) {}
  otel::sdk::common::ExportResult Export(const sdkm::ResourceMetrics &rm) noexcept override
  {
    std::lock_guard<std::mutex> g(l_->mu);
    l_->xcalls_after_owner_shutdown += l_->owner_shut_returned;
    for (auto &sm : rm.scope_metric_data_)
      for (auto &md : sm.metric_data_)
        for (auto &p : md.point_data_attr_)
          if (otel::nostd::holds_alternative<sdkm::SumPointData>(p.point_data))
          {
            auto &v = otel::nostd::get<sdkm::SumPointData>(p.point_data).value_;
            if (otel::nostd::holds_alternative<int64_t>(v))
              l_->exported = static_cast<int>(otel::nostd::get<int64_t>(v));
          }
    return otel::sdk::common::ExportResult::kSuccess;
  }
  sdkm::AggregationTemporality GetAggregationTemporality(sdkm::InstrumentType) const noexcept override
  {
    return sdkm::AggregationTemporality::kCumulative;
  }
  bool ForceFlush(std::chrono::microseconds) noexcept override
  {
    // (the statement speaks of the reader's Export calls only: a ForceFlush after Shutdown still reaches
    // the exporter's ForceFlush - not counted)
    std::lock_guard<std::mutex> g(l_->mu);
    l_->xflush_calls++;
    return true;
  }
  bool Shutdown(std::chrono::microseconds) noexcept override
  {
    std::lock_guard<std::mutex> g(l_->mu);
    l_->xshutdown_calls++;
    return true;
  }

private:
  std::shared_ptr<ChildLog> l_;
};

enum ChildKind
{
  kScripted,
  kSimple,
  kBatch,
  kPeriodic  // a real PeriodicExportingMetricReader (MeterProvider only)
};

struct Child
{
  ChildKind kind;
  std::shared_ptr<ChildLog> log;
};

std::chrono::microseconds gen_timeout(vh::Reader &rd, std::string *txt)
{
  switch (rd.weighted({5, 2, 2, 1, 1}))
  {
    case 3:
      *txt = "0";
      return std::chrono::microseconds(0);
    case 4:
      *txt = "1us";
      return std::chrono::microseconds(1);
    case 0:
      *txt = "max";
      return (std::chrono::microseconds::max)();
    case 1:
      *txt = "200ms";
      return std::chrono::microseconds(200000);
    default:
      *txt = "2s";
      return std::chrono::microseconds(2000000);
  }
}

// shared program skeleton: produce / script / flush / shutdown
template <class Produce, class Flush, class Shutdown>
int run_program(vh::Case &c, std::vector<Child> &kids, Produce produce, Flush flush, Shutdown shutdown)
{
  vh::Reader &rd = c.rd;
  int produced   = 0;
  bool shut      = false;
  bool false_child_seen = false;
  unsigned nops  = 2 + rd.below(10);
  for (unsigned i = 0; i < nops && (i < 3 || !rd.exhausted()); ++i)
  {
    switch (rd.weighted({4, 3, 4, shut ? 1u : 1u}))
    {
      case 0:
        produce();
        if (!shut)
          ++produced;
        c.note(" produce\n");
        break;
      case 1:
      {
        // script the next answers of the scripted children
        std::string s = " script:";
        for (auto &k : kids)
          if (k.kind == kScripted)
          {
            k.log->next_flush    = !rd.chance(35);
            k.log->next_shutdown = !rd.chance(35);
            s += std::string(" flush=") + (k.log->next_flush ? "1" : "0") + ",shutdown=" +
                 (k.log->next_shutdown ? "1" : "0");
          }
        c.note(s + "\n");
        break;
      }
      case 2:
      {
        std::string tt;
        auto to = gen_timeout(rd, &tt);
        std::vector<int> before_calls, before_x;
        for (auto &k : kids)
        {
          std::lock_guard<std::mutex> g(k.log->mu);
          before_calls.push_back(k.log->flush_calls);
          before_x.push_back(k.log->xflush_calls);
        }
        bool r = flush(to);
        c.note(" ForceFlush(" + tt + ") -> " + (r ? "true" : "false") + "\n");
        if (shut)
          break;  // after Shutdown: "returns promptly without effect", nothing to conclude from the value
        bool any_false = false;
        for (size_t j = 0; j < kids.size(); ++j)
        {
          Child &k = kids[j];
          std::lock_guard<std::mutex> g(k.log->mu);
          if (k.kind == kScripted)
          {
            if (r)
              VH_CHECK(c, k.log->flush_calls == before_calls[j] + 1,
                       "provider ForceFlush returned true but child " << j << " was asked "
                                                                      << (k.log->flush_calls - before_calls[j])
                                                                      << " times");
            if (k.log->flush_calls > before_calls[j] && !k.log->flush_results.back())
              any_false = true;
          }
          else if (r)
          {
            VH_CHECK(c, k.log->exported == produced,
                     "provider ForceFlush returned true but child " << j << " ("
                                                                    << (k.kind == kBatch ? "batch" : k.kind == kPeriodic ? "periodic reader" : "simple")
                                                                    << ") exported " << k.log->exported << " of "
                                                                    << produced << " records produced before the call");
            VH_CHECK(c, k.log->xflush_calls > before_x[j],
                     "provider ForceFlush returned true but the exporter of child " << j << " was not flushed");
          }
        }
        if (any_false)
        {
          false_child_seen = true;
          c.tag("child-flush-false");
          VH_CHECK(c, !r, "provider ForceFlush returned true although an owned processor/reader reported false");
        }
        break;
      }
      default:
      {
        std::string tt;
        auto to = gen_timeout(rd, &tt);
        std::vector<int> before;
        for (auto &k : kids)
          before.push_back(k.log->shutdown_calls);
        bool r = shutdown(to);
        c.note(" Shutdown(" + tt + ") -> " + (r ? "true" : "false") + "\n");
        if (!shut)
        {
          bool any_false = false;
          for (size_t j = 0; j < kids.size(); ++j)
          {
            Child &k = kids[j];
            if (k.kind == kScripted)
            {
              VH_CHECK(c, k.log->shutdown_calls >= before[j] + 1, "provider Shutdown did not shut child " << j << " down");
              for (size_t q = static_cast<size_t>(before[j]); q < k.log->shutdown_results.size(); ++q)
                if (!k.log->shutdown_results[q])
                  any_false = true;
            }
            else if (k.kind != kPeriodic)  // (the statement promises no final export of a periodic reader)
            {
              std::lock_guard<std::mutex> g(k.log->mu);
              VH_CHECK(c, k.log->exported == produced, "after provider Shutdown child " << j << " had exported "
                                                                                       << k.log->exported << " of "
                                                                                       << produced << " records");
            }
          }
          for (auto &k : kids)
          {
            std::lock_guard<std::mutex> g(k.log->mu);
            k.log->owner_shut_returned = true;
          }
          if (any_false)
          {
            // the statement fixes the meaning of ForceFlush's result only; what Shutdown returns when a
            // child fails is not part of it, so it is recorded, not asserted
            false_child_seen = true;
            c.tag(r ? "child-shutdown-false-provider-true" : "child-shutdown-false-provider-false");
          }
        }
        shut = true;
        c.tag("shutdown");
        break;
      }
    }
  }
  c.nontrivial = kids.size() >= 2 || false_child_seen;
  return produced;
}

// after the provider (and every handle that keeps its context alive) has been destroyed
void check_after_destruction(vh::Case &c, std::vector<Child> &kids, int produced)
{
  for (size_t j = 0; j < kids.size(); ++j)
  {
    Child &k = kids[j];
    std::lock_guard<std::mutex> g(k.log->mu);
    if (k.kind == kScripted)
    {
      VH_CHECK(c, k.log->shutdown_calls >= 1, "the provider was destroyed but child " << j << " was never shut down");
      continue;
    }
    const char *what = k.kind == kBatch ? "batch" : k.kind == kPeriodic ? "periodic reader" : "simple";
    // (what a SIMPLE processor does with a span ended after Shutdown is not the statement's subject:
    // "later OnEnd/OnEmit ... without effect" is said of the batch processor)
    if (k.kind == kBatch)
      VH_CHECK(c, k.log->exported == produced, "the provider was shut down / destroyed but child "
                                                   << j << " (" << what << ") had exported " << k.log->exported << " of "
                                                   << produced << " records produced before");
    else if (k.kind == kSimple)
    {
      VH_CHECK(c, k.log->exported >= produced, "the provider was shut down / destroyed but child "
                                                   << j << " (" << what << ") had exported " << k.log->exported << " of "
                                                   << produced << " records produced before");
      if (k.log->exported > produced)
        c.tag("simple-child-exported-after-shutdown");
    }
    if (k.kind != kSimple)
      VH_CHECK(c, k.log->xcalls_after_owner_shutdown == 0,
               "child " << j << " (" << what << "): " << k.log->xcalls_after_owner_shutdown
                        << (k.kind == kPeriodic ? " Export call(s) were" : " exporter call(s) were")
                        << " made after the provider's Shutdown had returned");
    if (k.kind == kBatch)
      VH_CHECK(c, k.log->xshutdown_calls == 1, "child " << j << " (batch): its exporter was shut down "
                                                        << k.log->xshutdown_calls << " times (must be exactly once)");
    else if (k.log->xshutdown_calls != 1)
      c.tag(std::string(what) + "-exporter-shutdown-not-once");
  }
}

std::vector<ChildKind> gen_kinds(vh::Reader &rd, bool allow_real)
{
  std::vector<ChildKind> v;
  unsigned n = 1 + rd.below(3);
  for (unsigned i = 0; i < n; ++i)
    v.push_back(allow_real ? static_cast<ChildKind>(rd.weighted({5, 3, 3})) : kScripted);
  return v;
}

std::string show_kinds(const std::vector<ChildKind> &k)
{
  std::string s = "children=[";
  for (auto x : k)
    s += x == kScripted ? "scripted " : x == kSimple ? "simple " : x == kPeriodic ? "periodic " : "batch ";
  return s + "]\n";
}
}  // namespace

VH_TARGET(tracer_provider, 3,
          "TracerProvider over 1..3 processors (scripted / simple / batch); non-trivial when 2+ children "
          "are owned or a child reported false; distinct = distinct program text")
{
  auto kinds = gen_kinds(c.rd, true);
  c.note(show_kinds(kinds));
  std::vector<Child> kids;
  std::vector<std::unique_ptr<sdkt::SpanProcessor>> procs;
  for (auto k : kinds)
  {
    Child ch{k, std::make_shared<ChildLog>()};
    if (k == kScripted)
      procs.emplace_back(new ScriptedSpanProcessor(ch.log));
    else if (k == kSimple)
      procs.emplace_back(new sdkt::SimpleSpanProcessor(std::unique_ptr<sdkt::SpanExporter>(new SpanSink(ch.log))));
    else
    {
      sdkt::BatchSpanProcessorOptions o;
      o.schedule_delay_millis = std::chrono::milliseconds(5);
      procs.emplace_back(new sdkt::BatchSpanProcessor(std::unique_ptr<sdkt::SpanExporter>(new SpanSink(ch.log)), o));
    }
    kids.push_back(ch);
  }
  auto provider = std::make_shared<sdkt::TracerProvider>(std::move(procs));
  auto tracer   = provider->GetTracer("c02");
  int produced  = run_program(
      c, kids, [&]() { tracer->StartSpan("s")->End(); },
      [&](std::chrono::microseconds to) { return provider->ForceFlush(to); },
      [&](std::chrono::microseconds to) { return provider->Shutdown(to); });
  tracer = decltype(tracer)();
  provider.reset();
  check_after_destruction(c, kids, produced);
}

VH_TARGET(logger_provider, 3,
          "LoggerProvider over 1..3 processors (scripted / simple / batch); non-trivial when 2+ children "
          "are owned or a child reported false; distinct = distinct program text")
{
  auto kinds = gen_kinds(c.rd, true);
  c.note(show_kinds(kinds));
  std::vector<Child> kids;
  std::vector<std::unique_ptr<sdkl::LogRecordProcessor>> procs;
  for (auto k : kinds)
  {
    Child ch{k, std::make_shared<ChildLog>()};
    if (k == kScripted)
      procs.emplace_back(new ScriptedLogProcessor(ch.log));
    else if (k == kSimple)
      procs.emplace_back(
          new sdkl::SimpleLogRecordProcessor(std::unique_ptr<sdkl::LogRecordExporter>(new LogSink(ch.log))));
    else
      procs.emplace_back(new sdkl::BatchLogRecordProcessor(
          std::unique_ptr<sdkl::LogRecordExporter>(new LogSink(ch.log)), 2048, std::chrono::milliseconds(5), 512));
    kids.push_back(ch);
  }
  auto provider = std::make_shared<sdkl::LoggerProvider>(std::move(procs));
  auto logger   = provider->GetLogger("c02", "lib");
  int produced  = run_program(
      c, kids, [&]() { logger->EmitLogRecord(otel::logs::Severity::kInfo, "x"); },
      [&](std::chrono::microseconds to) { return provider->ForceFlush(to); },
      [&](std::chrono::microseconds to) { return provider->Shutdown(to); });
  logger = decltype(logger)();
  provider.reset();
  check_after_destruction(c, kids, produced);
}

VH_TARGET(meter_provider, 3,
          "MeterProvider over 1..3 scripted readers, one of them possibly a real periodic reader; non-trivial when 2+ readers are owned or a reader "
          "reported false; distinct = distinct program text")
{
  auto kinds = gen_kinds(c.rd, false);
  // one of the readers may be a real periodic reader (worker thread, 20 ms interval)
  if (c.rd.chance(35))
    kinds[c.rd.below(static_cast<uint32_t>(kinds.size()))] = kPeriodic;
  c.note(show_kinds(kinds));
  std::vector<Child> kids;
  auto provider = std::make_shared<sdkm::MeterProvider>();
  for (auto k : kinds)
  {
    Child ch{k, std::make_shared<ChildLog>()};
    if (k == kPeriodic)
    {
      sdkm::PeriodicExportingMetricReaderOptions o;
      o.export_interval_millis = std::chrono::milliseconds(20);
      o.export_timeout_millis  = std::chrono::milliseconds(10);
      provider->AddMetricReader(std::shared_ptr<sdkm::MetricReader>(new sdkm::PeriodicExportingMetricReader(
          std::unique_ptr<sdkm::PushMetricExporter>(new MetricSink(ch.log)), o)));
      c.tag("real-periodic-reader");
    }
    else
      provider->AddMetricReader(std::shared_ptr<sdkm::MetricReader>(new ScriptedReader(ch.log)));
    kids.push_back(ch);
  }
  auto meter   = provider->GetMeter("c02");
  auto counter = meter->CreateUInt64Counter("c");
  int produced = run_program(
      c, kids, [&]() { counter->Add(1); },
      [&](std::chrono::microseconds to) { return provider->ForceFlush(to); },
      [&](std::chrono::microseconds to) { return provider->Shutdown(to); });
  counter.reset();
  meter = decltype(meter)();
  provider.reset();
  check_after_destruction(c, kids, produced);
}

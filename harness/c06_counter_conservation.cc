// C06  Counter measurements are conserved across readers, temporalities and threads.
//
// "For counters and up-down counters, every reader sees every measurement exactly once: with delta
//  temporality the points a reader receives for an attribute set over successive collections add up
//  exactly to what was recorded for that set, each measurement falling in exactly one collection
//  interval, and with cumulative temporality each collection reports the running total since SDK
//  start.  This holds for any number of readers collecting at unrelated times (one reader's
//  collection never takes measurements away from another), for measurements recorded concurrently
//  with collections, for every instrument handle obtained for the same instrument, and for every
//  view stream configured for it; a reader's successive delta points cover abutting intervals (each
//  starts where its previous one ended, the first at SDK start) and cumulative points always start
//  at SDK start."
//
// Targets
//   counter_history   stateful: a MeterProvider with 1..3 in-harness MetricReaders (temporality per
//                     reader: delta / cumulative / delta for counters + cumulative for up-down
//                     counters), 1..2 meters, 1..3 instrument names (Counter / UpDownCounter x
//                     long / double) with 0..3 views each (renaming, attribute allow-lists, Sum /
//                     Default aggregation, for every meter or for one meter only) plus optionally a
//                     view that selects every Counter / every UpDownCounter (name "*"); program over
//                     {Create (a further handle when the instrument exists), Add(handle, value,
//                     attribute set; through each of the eight Add overloads of the API header),
//                     Collect(reader), Destroy(handle), AddReader (MeterProvider::AddMetricReader
//                     after instruments, measurements and collections exist; up to 4 readers)}.
//   counter_threads   the same configuration space with real threads: 1..3 recorder threads race
//                     1..2 collector threads (every reader belongs to one collector thread); the
//                     recorders use shared handles, handles they request themselves (also the FIRST
//                     handle of an instrument, also on a meter they obtain themselves) and release
//                     again while the others record and collect; after the join every reader
//                     collects once more.  Owns no schedule: adds evidence.
//   f7_witness, f8_handle_witness, f8_views_witness, f8_witness (= both F8 shapes)
//                     fixed minimal cases of the findings F7 / F8 (no stream use); regressions now
//                     that the findings are fixed.
//   (schedule-controlled races: harness/c06_sched.cc, target meter_sched)
// Oracle (written from the statement, independent of the SDK's storage code): per (stream,
// attribute set after the view's allow-list) the running total of everything recorded, in exact
// integer units (long: the value; double: multiples of 2^-10 below 2^30, so no sum ever rounds).
//   delta reader R:      sum of R's points for the set in this collection == total now - total at
//                        R's previous collection (an absent set counts as 0);
//   cumulative reader R: the point equals the running total; a set may be absent only while its
//                        total is 0;
//   no series for an attribute set nobody recorded, no stream nobody configured (the stream set of
//   an instrument on a meter = the views whose instrument and meter selectors match, else the
//   default stream), at most one MetricData per stream and collection, value alternative and
//   temporality as configured;
//   timestamps: cumulative start == GetSDKStartTime(); a delta MetricData starts exactly where the
//   previous MetricData handed to R for that stream ended (first: SDK start) - tolerated: at a time
//   inside one of R's own Collect calls since then that delivered nothing for the stream -; never
//   before the previous end; end >= start; the end lies inside the Collect call that delivered the
//   MetricData (with or without new data); start <= stamp before the first Add it contains and
//   end >= stamp after the last Add it contains (harness stamps, same clock; inequalities are
//   skipped when the system clock was seen stepping backwards).
//   A reader registered late ("This reader may not receive any in-flight meter data",
//   meter_provider.h): for a stream that already had measurements it counts from ONE of: SDK start,
//   a collection of any reader before the registration, the registration; its first collection of
//   the stream must be explained by one such starting point for all attribute sets together, from
//   then on it is held to the exact oracle (cumulative: total minus that fixed starting point); its
//   first delta interval may start anywhere from SDK start on, later ones abut.  The readers that
//   were there before keep the exact oracle across the registration (in particular the single delta
//   reader that leaves the fast path).
// Either-regions: a series whose total is 0 may be reported as 0 or be absent; a delta collection
// without new data may deliver nothing, or a MetricData without points, or zero points.
// Not asserted (other properties own it): which of two different values of a repeated key wins
// (C08: a repeated key is generated with the same value), name validation (C19).  Attribute keys
// are handed over both as NUL terminated strings and as non NUL-terminated views.
#include <algorithm>
#include <atomic>
#include <chrono>
#include <cmath>
#include <map>
#include <memory>
#include <set>
#include <string>
#include <thread>
#include <unordered_map>
#include <utility>
#include <vector>

#include "opentelemetry/context/context.h"
#include "opentelemetry/metrics/meter.h"
#include "opentelemetry/metrics/sync_instruments.h"
#include "opentelemetry/sdk/common/global_log_handler.h"
#include "opentelemetry/sdk/instrumentationscope/instrumentation_scope.h"
#include "opentelemetry/sdk/metrics/data/metric_data.h"
#include "opentelemetry/sdk/metrics/data/point_data.h"
#include "opentelemetry/sdk/metrics/export/metric_filter.h"
#include "opentelemetry/sdk/metrics/export/metric_producer.h"
#include "opentelemetry/sdk/metrics/instruments.h"
#include "opentelemetry/sdk/metrics/meter_context.h"
#include "opentelemetry/sdk/metrics/meter_provider.h"
#include "opentelemetry/sdk/metrics/metric_reader.h"
#include "opentelemetry/sdk/metrics/view/attributes_processor.h"
#include "opentelemetry/sdk/metrics/view/instrument_selector.h"
#include "opentelemetry/sdk/metrics/view/meter_selector.h"
#include "opentelemetry/sdk/metrics/view/view.h"
#include "opentelemetry/sdk/metrics/view/view_registry.h"
#include "opentelemetry/sdk/resource/resource.h"
#include "sdkgen.h"
#include "vh.h"

const char *vh_property_id = "C06";

namespace
{
namespace otel  = opentelemetry;
namespace nostd = opentelemetry::nostd;
namespace om    = opentelemetry::metrics;
namespace sdkm  = opentelemetry::sdk::metrics;

// ------------------------------------------------------------------------------------------------
void quiet_logs()
{
  namespace il = opentelemetry::sdk::common::internal_log;
  static nostd::shared_ptr<il::LogHandler> h(new il::NoopLogHandler);
  il::GlobalLogHandler::SetLogHandler(h);
  il::GlobalLogHandler::SetLogLevel(il::LogLevel::None);
}

const opentelemetry::sdk::resource::Resource &the_resource()
{
  static const auto r = opentelemetry::sdk::resource::Resource::Create({});
  return r;
}

// harness clock: the same clock the SDK stamps with; remembers whether it was seen going backwards
struct HClock
{
  int64_t last = 0;
  bool stepped = false;
  int64_t now()
  {
    int64_t t = std::chrono::duration_cast<std::chrono::nanoseconds>(
                    std::chrono::system_clock::now().time_since_epoch())
                    .count();
    if (t < last)
      stepped = true;
    last = t;
    return t;
  }
};

int64_t ns_of(const otel::common::SystemTimestamp &t)
{
  return t.time_since_epoch().count();
}

// ------------------------------------------------------------------------------------------------
// instrument kinds and values
enum Kind
{
  kCtrLong   = 0,
  kCtrDouble = 1,
  kUdLong    = 2,
  kUdDouble  = 3
};
const char *kind_name(int k)
{
  static const char *n[] = {"Counter<uint64>", "Counter<double>", "UpDownCounter<int64>", "UpDownCounter<double>"};
  return n[k];
}
const char *kind_tag(int k)
{
  static const char *n[] = {"ctr-long", "ctr-double", "updown-long", "updown-double"};
  return n[k];
}
bool is_double(int k)
{
  return k == kCtrDouble || k == kUdDouble;
}
bool is_updown(int k)
{
  return k == kUdLong || k == kUdDouble;
}
sdkm::InstrumentType itype(int k)
{
  return is_updown(k) ? sdkm::InstrumentType::kUpDownCounter : sdkm::InstrumentType::kCounter;
}

// Values are exact integer "units": a long instrument records the unit count itself, a double
// instrument records units * 2^-10.  |units| <= 2^40 per Add and at most a few thousand Adds per
// case: every partial sum is exactly representable in both int64 and double.
constexpr int kFracBits = 10;
double units_to_double(int64_t u)
{
  return std::ldexp(static_cast<double>(u), -kFracBits);
}
std::string show_units(int64_t u, int kind)
{
  if (!is_double(kind))
    return std::to_string(u);
  return sg::show_double(units_to_double(u));
}

int64_t gen_units(vh::Reader &rd, int kind)
{
  int64_t u = 0;
  switch (rd.weighted({5, 2, 2, 2, 1, 2}))
  {
    case 0:
      u = 1 + rd.below(9);
      break;
    case 1:
      u = 0;
      break;
    case 2:
      u = 1 + static_cast<int64_t>(rd.below(60000));
      break;
    case 3:
      u = int64_t(1) << 40;
      break;
    case 4:
      u = (int64_t(1) << 40) - 1;
      break;
    default:
      u = static_cast<int64_t>(rd.u64() & ((uint64_t(1) << 40) - 1));
      break;
  }
  if (is_updown(kind) && rd.chance(40))
    u = -u;
  return u;
}

// ------------------------------------------------------------------------------------------------
// attribute sets: a small pool (so the same set recurs) + fresh ones; listed in a generated order,
// possibly with a repeated (identical) pair
const char *const kKeys[3] = {"k0", "k1", "k2"};

const sg::MValue &pool_value(unsigned i)
{
  static const std::vector<sg::MValue> v = {
      sg::MValue(int32_t(1)),
      sg::MValue(int32_t(2)),
      sg::MValue(std::string("x")),
      sg::MValue(std::string("a-string-that-does-not-fit-the-small-buffer")),
      sg::MValue(true),
      sg::MValue(0.5),
      sg::MValue(std::vector<std::string>{"a", "bb"}),
      sg::MValue(int64_t(-7)),
  };
  return v[i % v.size()];
}

const std::vector<sg::KVMap> &pool_sets()
{
  static const std::vector<sg::KVMap> p = {
      {},
      {{"k0", pool_value(0)}},
      {{"k0", pool_value(1)}},
      {{"k0", pool_value(0)}, {"k1", pool_value(2)}},
      {{"k0", pool_value(0)}, {"k1", pool_value(3)}},
      {{"k1", pool_value(2)}, {"k2", pool_value(4)}},
      {{"k0", pool_value(3)}, {"k2", pool_value(6)}},
  };
  return p;
}

struct GenAttrs
{
  sg::KVMap set;    // the attribute set as a key->value map
  sg::KVList list;  // what is handed to Add
  bool permuted = false, dup = false;
};

GenAttrs gen_attrs(vh::Reader &rd)
{
  GenAttrs a;
  size_t sel = rd.weighted({28, 12, 10, 10, 10, 8, 8, 14});
  if (sel < pool_sets().size())
    a.set = pool_sets()[sel];
  else
  {
    for (auto *k : kKeys)
      if (rd.coin())
        a.set[k] = pool_value(rd.below(8));
  }
  for (auto &kv : a.set)
    a.list.emplace_back(kv.first, kv.second);
  if (a.list.size() >= 2 && rd.chance(50))
  {
    for (size_t i = 0; i + 1 < a.list.size(); ++i)
    {
      size_t j = i + rd.below(static_cast<uint32_t>(a.list.size() - i));
      if (j != i)
      {
        std::swap(a.list[i], a.list[j]);
        a.permuted = true;
      }
    }
  }
  if (!a.list.empty() && rd.chance(25))
  {
    auto copy = a.list[rd.below(static_cast<uint32_t>(a.list.size()))];
    a.list.insert(a.list.begin() + rd.below(static_cast<uint32_t>(a.list.size() + 1)), copy);
    a.dup = true;
  }
  return a;
}

std::string show_set(const sg::KVMap &m)
{
  std::string s = "{";
  bool first    = true;
  for (auto &kv : m)
  {
    s += (first ? "" : ", ") + kv.first + "=" + sg::show_mvalue(kv.second);
    first = false;
  }
  return s + "}";
}

std::string show_point_attrs(const sdkm::PointAttributes &a)
{
  std::string s = "{";
  bool first    = true;
  for (auto &kv : a)
  {
    s += (first ? "" : ", ") + vh::show(kv.first) + "=" + sg::show_owned(kv.second);
    first = false;
  }
  return s + "}";
}

// view attribute filters: 0 none, 1 allow {k0}, 2 allow {k0,k1}, 3 allow nothing
sg::KVMap filtered(const sg::KVMap &s, int filter)
{
  if (filter == 0)
    return s;
  sg::KVMap o;
  for (auto &kv : s)
    if ((filter == 1 && kv.first == "k0") || (filter == 2 && (kv.first == "k0" || kv.first == "k1")))
      o.insert(kv);
  return o;
}

// A KeyValueIterable over a model list.  Values live in the arena (strings as non NUL-terminated
// views, arrays as spans); keys are NUL terminated arena copies or non NUL-terminated views.
class TermKV final : public otel::common::KeyValueIterable
{
public:
  TermKV(const sg::KVList &l, sg::Arena &a, bool terminated) : l_(l), a_(a), terminated_(terminated) {}
  bool ForEachKeyValue(nostd::function_ref<bool(nostd::string_view, otel::common::AttributeValue)> callback)
      const noexcept override
  {
    for (auto &kv : l_)
      if (!callback(terminated_ ? nostd::string_view(a_.cstr(kv.first), kv.first.size()) : a_.view(kv.first),
                    sg::to_api(kv.second, a_)))
        return false;
    return true;
  }
  size_t size() const noexcept override { return l_.size(); }

private:
  const sg::KVList &l_;
  sg::Arena &a_;
  bool terminated_;
};

// ------------------------------------------------------------------------------------------------
// A reader may be registered together with a MetricFilter.  A filter that accepts everything must be invisible:
// "every reader sees every measurement exactly once" also through MetricCollector's filtering path.  The kind is
// derived from the reader's number (no stream byte is consumed): 0 no filter, 1 TestMetric answers kAccept,
// 2 TestMetric answers kAcceptPartial and TestAttributes accepts every attribute set.  Kind 2 is only given to
// all-cumulative readers: the filtering path drops a metric whose point list is empty, which an idle multi-reader
// delta collection legitimately delivers, and the abutting-interval oracle counts that delivery.
std::unique_ptr<sdkm::MetricFilter> transparent_filter(unsigned reader, unsigned n_readers, int mode, std::string *txt)
{
  unsigned kind = (reader + n_readers) % 3;
  if (kind == 2 && mode != 1)
    kind = 1;
  if (kind == 0)
    return nullptr;
  *txt += kind == 1 ? " +filter(accept)" : " +filter(partial: every attribute set accepted)";
  auto tm = [kind](const opentelemetry::sdk::instrumentationscope::InstrumentationScope &, nostd::string_view,
                   const sdkm::InstrumentType &, nostd::string_view) {
    return kind == 1 ? sdkm::MetricFilter::MetricFilterResult::kAccept
                     : sdkm::MetricFilter::MetricFilterResult::kAcceptPartial;
  };
  auto ta = [](const opentelemetry::sdk::instrumentationscope::InstrumentationScope &, nostd::string_view,
               const sdkm::InstrumentType &, nostd::string_view, const sdkm::PointAttributes &) {
    return sdkm::MetricFilter::AttributesFilterResult::kAccept;
  };
  return sdkm::MetricFilter::Create(tm, ta);
}

// ------------------------------------------------------------------------------------------------
// readers
// mode 0: delta for everything, 1: cumulative for everything, 2: delta for counters, cumulative for
// up-down counters (the usual "delta preferred" selector)
bool mode_is_delta(int mode, int kind)
{
  return mode == 0 || (mode == 2 && !is_updown(kind));
}
const char *mode_name(int m)
{
  static const char *n[] = {"delta", "cumulative", "delta-counters/cumulative-updown"};
  return n[m];
}
char mode_letter(int m)
{
  return "DCM"[m];
}

class CReader : public sdkm::MetricReader
{
public:
  explicit CReader(int mode) : mode_(mode) {}
  sdkm::AggregationTemporality GetAggregationTemporality(sdkm::InstrumentType t) const noexcept override
  {
    bool delta = mode_ == 0 || (mode_ == 2 && t != sdkm::InstrumentType::kUpDownCounter &&
                                t != sdkm::InstrumentType::kObservableUpDownCounter);
    return delta ? sdkm::AggregationTemporality::kDelta : sdkm::AggregationTemporality::kCumulative;
  }
  bool OnForceFlush(std::chrono::microseconds) noexcept override { return true; }
  bool OnShutDown(std::chrono::microseconds) noexcept override { return true; }

private:
  int mode_;
};

// ------------------------------------------------------------------------------------------------
// configuration + model
struct ViewCfg
{
  std::string stream_name;
  int filter    = 0;
  bool agg_sum  = false;
  bool rename   = false;  // the View carries a name of its own (else: the instrument's name)
  int meter_sel = -1;     // -1: every meter, m: MeterSelector(name of meter m) only
};
// a view that selects every instrument of one type (name pattern "*"); it never renames
struct WildCfg
{
  bool on = false;
  ViewCfg v;
};
struct InstrCfg
{
  std::string name;
  std::string unit;  // part of the instrument's identity
  int kind = 0;
  std::vector<ViewCfg> views;
};

using Totals = std::map<sg::KVMap, int64_t>;

struct StreamM  // one stream of one instrument of one meter
{
  std::string key;  // "<meter name>/<stream name>#<value type><unit>"
  int instr  = 0;
  int filter = 0;
  bool renamed = false;
  Totals total;                               // everything recorded so far, per attribute set
  std::vector<int64_t> add_before, add_after;  // harness stamps around every Add routed here
  std::vector<Totals> cuts;                    // the totals at every Collect call of any reader so far (distinct ones)
};

struct ReaderSt  // what one reader has been handed of one stream
{
  Totals at_prev;  // totals at this reader's previous collection
  // A reader registered after the stream had measurements ("may not receive any in-flight meter data",
  // MeterProvider::AddMetricReader): what it counts from is one of these candidates (SDK start, a
  // collection of any reader before the registration, the registration itself) until its first
  // collection of the stream decides which; from then on `base` is fixed and the oracle is exact.
  std::vector<Totals> base_cands;
  Totals base;
  bool late_first = false;  // registered late, no interval delivered yet: the first delta start is either
  size_t adds_seen = 0;
  bool delivered   = false;
  int64_t prev_end = 0;
  std::vector<std::pair<int64_t, int64_t>> windows;  // own Collect calls since then that delivered nothing
  unsigned deliveries = 0;
  // threads target
  Totals delta_sum, last_cum;
};

struct Handle
{
  int meter = 0, instr = 0;
  bool alive = true, first = true;
  bool deferred = false;  // threads target: no SDK object yet, every thread that uses it creates its own
  nostd::unique_ptr<om::Counter<uint64_t>> cl;
  nostd::unique_ptr<om::Counter<double>> cd;
  nostd::unique_ptr<om::UpDownCounter<int64_t>> ul;
  nostd::unique_ptr<om::UpDownCounter<double>> ud;
};

struct Got
{
  std::string key;
  sdkm::MetricData md;
};

struct World
{
  std::unique_ptr<sdkm::MeterProvider> provider;
  int64_t sdk_start = 0, ctor_before = 0, ctor_after = 0;
  std::vector<std::shared_ptr<CReader>> readers;
  std::vector<int> modes;
  std::vector<InstrCfg> instrs;
  WildCfg wild[2];  // [0] all Counters, [1] all UpDownCounters
  unsigned n_meters = 1;
  std::vector<nostd::shared_ptr<om::Meter>> meters;
  std::vector<StreamM> streams;
  std::map<std::string, size_t> by_key;
  std::map<std::pair<int, int>, std::vector<size_t>> streams_of;  // (meter, instr) -> streams
  std::vector<std::vector<ReaderSt>> rs;                          // [reader][stream]
  std::vector<std::unique_ptr<Handle>> handles;
  HClock clk;
  std::string cfgtxt;
  bool late_on_data = false;  // a reader was registered when a stream already had measurements
};

std::string meter_name(int m)
{
  return "m" + std::to_string(m);
}

// decode the provider configuration.  Everything at choice 0: one delta reader (the fast path), one
// meter, one Counter<uint64> without views.
void make_world(vh::Case &c, World &w, bool only_meter0 = false)
{
  vh::Reader &rd = c.rd;
  quiet_logs();
  unsigned n_readers = 1 + static_cast<unsigned>(rd.weighted({4, 4, 2}));
  for (unsigned r = 0; r < n_readers; ++r)
    w.modes.push_back(static_cast<int>(rd.weighted({4, 4, 2})));
  if (n_readers == 1 && w.modes[0] != 1 && vh::excluded("F7"))
  {
    // open finding F7: with a single delta reader every delta interval starts at SDK start
    vh::count_excluded("F7");
    w.modes[0] = 1;
  }
  w.n_meters       = rd.chance(20) ? 2 : 1;
  unsigned n_instr = 1 + static_cast<unsigned>(rd.weighted({5, 3, 2}));
  for (unsigned i = 0; i < n_instr; ++i)
  {
    InstrCfg in;
    in.name         = std::string(1, static_cast<char>('a' + i));
    in.kind         = static_cast<int>(rd.below(4));
    unsigned nviews = static_cast<unsigned>(rd.weighted({5, 3, 2}));
    // a "twin": same name and kind as the previous instrument, the other value type (long <-> double).
    // It is a different instrument; only generated without views on either (a view selects by name).
    if (i > 0 && w.instrs.back().views.empty() && (i < 2 || w.instrs[i - 2].name != w.instrs.back().name) &&
        rd.chance(30))
    {
      const InstrCfg &prev = w.instrs.back();
      in.name              = prev.name;
      if (rd.coin())
      {
        in.kind = prev.kind == kCtrLong ? kCtrDouble : prev.kind == kCtrDouble ? kCtrLong : prev.kind == kUdLong ? kUdDouble : kUdLong;
        c.tag("same-name-other-value-type");
      }
      else
      {
        // same name, kind and value type, another unit: still a different instrument
        in.kind = prev.kind;
        in.unit = "ms";
        c.tag("same-name-other-unit");
      }
      nviews = 0;
    }
    if (nviews == 2 && vh::excluded("F8"))
    {
      // open finding F8: of two views matching one instrument only the last stream is collected
      vh::count_excluded("F8");
      nviews = 1;
    }
    for (unsigned v = 0; v < nviews; ++v)
    {
      ViewCfg vc;
      // the streams of one instrument (and of different instruments) never share a name
      vc.rename      = v > 0 || rd.coin();
      vc.stream_name = vc.rename ? in.name + "_v" + std::to_string(v) : in.name;
      vc.filter      = static_cast<int>(rd.weighted({5, 2, 2, 1}));
      vc.agg_sum     = rd.coin();
      in.views.push_back(vc);
    }
    w.instrs.push_back(in);
  }
  // ---- later additions to the configuration space; a zero byte each = the shapes above
  // (a) a view that selects every Counter / every UpDownCounter (name "*"): it keeps the instrument's
  //     name, so the own views of the instruments it matches all rename
  size_t wild_sel = rd.weighted({7, 1, 1, 1});
  for (int t = 0; t < 2; ++t)
    if (wild_sel == static_cast<size_t>(t + 1) || wild_sel == 3)
    {
      w.wild[t].on          = true;
      w.wild[t].v.filter    = static_cast<int>(rd.weighted({5, 2, 2, 1}));
      w.wild[t].v.agg_sum   = rd.coin();
      w.wild[t].v.meter_sel = static_cast<int>(rd.weighted({6, 2, 2})) - 1;
      c.tag("view-selects-all-instruments-of-a-type");
    }
  for (auto &in : w.instrs)
  {
    // (b) a third view
    if (in.views.size() == 2 && rd.chance(30))
    {
      ViewCfg vc;
      vc.rename      = true;
      vc.stream_name = in.name + "_v2";
      vc.filter      = static_cast<int>(rd.weighted({5, 2, 2, 1}));
      vc.agg_sum     = rd.coin();
      in.views.push_back(vc);
    }
    for (auto &vc : in.views)
    {
      // (c) a view for one meter only: the same instrument has different streams on m0 and m1
      if (rd.chance(25))
      {
        vc.meter_sel = static_cast<int>(rd.below(2));
        c.tag("view-for-one-meter-only");
      }
      if (w.wild[is_updown(in.kind) ? 1 : 0].on && !vc.rename)
      {
        vc.rename      = true;
        vc.stream_name = in.name + "_v0";
      }
    }
  }
  std::unique_ptr<sdkm::ViewRegistry> reg(new sdkm::ViewRegistry);
  auto add_view = [&](sdkm::InstrumentType type, const std::string &name_pattern, const ViewCfg &vc) {
    std::unique_ptr<sdkm::AttributesProcessor> proc;
    if (vc.filter == 0)
      proc.reset(new sdkm::DefaultAttributesProcessor);
    else
    {
      std::unordered_map<std::string, bool> allow;
      if (vc.filter == 1 || vc.filter == 2)
        allow["k0"] = true;
      if (vc.filter == 2)
        allow["k1"] = true;
      proc.reset(new sdkm::FilteringAttributesProcessor(allow));
    }
    reg->AddView(std::unique_ptr<sdkm::InstrumentSelector>(new sdkm::InstrumentSelector(type, name_pattern, "")),
                 std::unique_ptr<sdkm::MeterSelector>(
                     new sdkm::MeterSelector(vc.meter_sel < 0 ? std::string() : meter_name(vc.meter_sel), "", "")),
                 std::unique_ptr<sdkm::View>(new sdkm::View(
                     vc.rename ? vc.stream_name : std::string(), "", "",
                     vc.agg_sum ? sdkm::AggregationType::kSum : sdkm::AggregationType::kDefault, nullptr,
                     std::move(proc))));
  };
  auto show_view = [](const ViewCfg &vc) {
    return " view{as " + (vc.stream_name.empty() ? std::string("<instrument name>") : vc.stream_name) +
           " filter=" + std::to_string(vc.filter) + (vc.agg_sum ? " sum" : " default") +
           (vc.meter_sel < 0 ? std::string() : " only-" + meter_name(vc.meter_sel)) + "}";
  };
  for (auto &in : w.instrs)
  {
    w.cfgtxt += "instrument " + in.name + (in.unit.empty() ? "" : "[" + in.unit + "]") + ": " + kind_name(in.kind);
    for (auto &vc : in.views)
    {
      add_view(itype(in.kind), in.name, vc);
      w.cfgtxt += show_view(vc);
    }
    w.cfgtxt += "\n";
  }
  for (int t = 0; t < 2; ++t)
    if (w.wild[t].on)
    {
      add_view(t ? sdkm::InstrumentType::kUpDownCounter : sdkm::InstrumentType::kCounter, "*", w.wild[t].v);
      w.cfgtxt += std::string("every ") + (t ? "UpDownCounter" : "Counter") + ":" + show_view(w.wild[t].v) + "\n";
    }
  w.ctor_before = w.clk.now();
  std::unique_ptr<sdkm::MeterContext> ctx(new sdkm::MeterContext(std::move(reg), the_resource()));
  sdkm::MeterContext *ctxp = ctx.get();
  w.provider.reset(new sdkm::MeterProvider(std::move(ctx)));
  w.ctor_after = w.clk.now();
  w.sdk_start  = ns_of(ctxp->GetSDKStartTime());
  for (unsigned r = 0; r < n_readers; ++r)
  {
    w.readers.emplace_back(new CReader(w.modes[r]));
    std::string ftxt;
    w.provider->AddMetricReader(w.readers.back(), transparent_filter(r, n_readers, w.modes[r], &ftxt));
    w.cfgtxt += "reader" + std::to_string(r) + ": " + mode_name(w.modes[r]) + ftxt + "\n";
  }
  w.rs.resize(n_readers);
  for (unsigned m = 0; m < (only_meter0 ? 1u : w.n_meters); ++m)
    w.meters.push_back(w.provider->GetMeter(meter_name(static_cast<int>(m)), "1.0", ""));
  w.cfgtxt += "meters: " + std::to_string(w.n_meters) + "\n";

  std::string modes;
  for (int m : w.modes)
    modes.push_back(mode_letter(m));
  std::sort(modes.begin(), modes.end());
  c.tag("readers-" + std::to_string(n_readers));
  c.tag("modes-" + modes);
  if (n_readers == 1 && w.modes[0] != 1)
    c.tag("single-delta-reader(fast-path)");
}

// create one more handle for (meter, instr); the first one instantiates the model streams
// the SDK call only (used by the threads too)
std::unique_ptr<Handle> sdk_create(const World &w, int m, int i, om::Meter *own_meter = nullptr)
{
  const InstrCfg &in = w.instrs[static_cast<size_t>(i)];
  std::unique_ptr<Handle> h(new Handle);
  h->meter = m;
  h->instr = i;
  h->first = false;
  om::Meter &meter = own_meter ? *own_meter : *w.meters[static_cast<size_t>(m)];
  switch (in.kind)
  {
    case kCtrLong:
      h->cl = meter.CreateUInt64Counter(in.name, "", in.unit);
      break;
    case kCtrDouble:
      h->cd = meter.CreateDoubleCounter(in.name, "", in.unit);
      break;
    case kUdLong:
      h->ul = meter.CreateInt64UpDownCounter(in.name, "", in.unit);
      break;
    default:
      h->ud = meter.CreateDoubleUpDownCounter(in.name, "", in.unit);
      break;
  }
  return h;
}

// deferred: only the model streams are set up now; the instrument itself is created later (by the first
// recorder thread that needs it, while collectors run) - the handle stays empty
Handle *create_handle(vh::Case &c, World &w, int m, int i, bool deferred = false)
{
  const InstrCfg &in = w.instrs[static_cast<size_t>(i)];
  std::unique_ptr<Handle> h;
  if (deferred)
  {
    h.reset(new Handle);
    h->meter    = m;
    h->instr    = i;
    h->deferred = true;
  }
  else
  {
    h = sdk_create(w, m, i);
    VH_CHECK(c, h->cl || h->cd || h->ul || h->ud, "Create" << kind_name(in.kind) << "('" << in.name << "') returned null");
  }
  h->first = w.streams_of.find({m, i}) == w.streams_of.end();
  if (h->first)
  {
    // the views that select this instrument on this meter; none: the default stream
    std::vector<ViewCfg> vs;
    for (auto &vc : in.views)
      if (vc.meter_sel < 0 || vc.meter_sel == m)
        vs.push_back(vc);
    const WildCfg &wc = w.wild[is_updown(in.kind) ? 1 : 0];
    if (wc.on && (wc.v.meter_sel < 0 || wc.v.meter_sel == m))
    {
      vs.push_back(wc.v);
      vs.back().stream_name = in.name;
    }
    if (vs.empty())
    {
      ViewCfg d;
      d.stream_name = in.name;
      vs.push_back(d);
    }
    for (auto &vc : vs)
    {
      StreamM s;
      // the value type is part of the stream key: two instruments of one meter may share a name and
      // differ in value type only (they are different instruments, each with its own stream)
      s.key    = meter_name(m) + "/" + vc.stream_name + (is_double(in.kind) ? "#d" : "#l") + in.unit;
      s.instr   = i;
      s.filter  = vc.filter;
      s.renamed = vc.stream_name != in.name;
      w.by_key[s.key] = w.streams.size();
      w.streams_of[{m, i}].push_back(w.streams.size());
      w.streams.push_back(s);
      for (auto &per_reader : w.rs)
        per_reader.emplace_back();
    }
  }
  w.handles.push_back(std::move(h));
  return w.handles.back().get();
}

// the API call only (used by the threads too): storage of keys and values dies when Add returns
constexpr unsigned kAddForms = 8;
const char *add_form_name(unsigned form, bool empty_list)
{
  static const char *n[] = {"Add(v,KeyValueIterable)",     "Add(v,KeyValueIterable,ctx)", "Add(v)",
                            "Add(v,ctx)",                  "Add(v,std::map)",             "Add(v,vector<pair>,ctx)",
                            "Add(v,{initializer-list})",   "Add(v,{initializer-list},ctx)"};
  if (!empty_list && (form == 2 || form == 3))
    form -= 2;
  return n[form % kAddForms];
}

template <class Instr, class V>
void add_in_form(Instr &ins, V v, const sg::KVList &list, unsigned form, sg::Arena &arena)
{
  using AV = otel::common::AttributeValue;
  using P  = std::pair<nostd::string_view, AV>;
  otel::context::Context ctx{};
  // form: 0 Add(v, attrs), 1 Add(v, attrs, ctx), 2 Add(v) [empty set only], 3 Add(v, ctx) [empty set only],
  // 4..7 the non-virtual template overloads of the API header (sync_instruments.h): a container of pairs
  // (std::map: sorted, a repeated key collapses - the same attribute set), a vector of pairs + Context,
  // an initializer list (which goes through nostd::span<const pair>) without and with Context
  if (!list.empty() && (form == 2 || form == 3))
    form -= 2;
  switch (form % kAddForms)
  {
    case 0:
    {
      TermKV kv(list, arena, /*terminated keys*/ true);
      const otel::common::KeyValueIterable &kvi = kv;
      ins.Add(v, kvi);
      break;
    }
    case 1:
    {
      TermKV kv(list, arena, false);
      const otel::common::KeyValueIterable &kvi = kv;
      ins.Add(v, kvi, ctx);
      break;
    }
    case 2:
      ins.Add(v);
      break;
    case 3:
      ins.Add(v, ctx);
      break;
    case 4:
    {
      std::map<std::string, AV> m;
      for (auto &kv : list)
        m.emplace(kv.first, sg::to_api(kv.second, arena));
      ins.Add(v, m);
      break;
    }
    default:
    {
      std::vector<P> ps;
      for (auto &kv : list)
        ps.emplace_back(arena.view(kv.first), sg::to_api(kv.second, arena));
      if (form % kAddForms == 5)
        ins.Add(v, ps, ctx);
      else if (form % kAddForms == 6)
        switch (ps.size())
        {
          case 0:
            ins.Add(v, std::initializer_list<P>{});
            break;
          case 1:
            ins.Add(v, std::initializer_list<P>{ps[0]});
            break;
          case 2:
            ins.Add(v, std::initializer_list<P>{ps[0], ps[1]});
            break;
          case 3:
            ins.Add(v, std::initializer_list<P>{ps[0], ps[1], ps[2]});
            break;
          default:
            // (longer than any literal list here: the span the initializer-list overload forwards to)
            ins.Add(v, nostd::span<const P>(ps.data(), ps.size()));
            break;
        }
      else
        switch (ps.size())
        {
          case 0:
            ins.Add(v, std::initializer_list<P>{}, ctx);
            break;
          case 1:
            ins.Add(v, std::initializer_list<P>{ps[0]}, ctx);
            break;
          case 2:
            ins.Add(v, std::initializer_list<P>{ps[0], ps[1]}, ctx);
            break;
          case 3:
            ins.Add(v, std::initializer_list<P>{ps[0], ps[1], ps[2]}, ctx);
            break;
          default:
            ins.Add(v, nostd::span<const P>(ps.data(), ps.size()), ctx);
            break;
        }
      break;
    }
  }
}

void api_add(Handle &h, int kind, int64_t units, const sg::KVList &list, unsigned form)
{
  sg::Arena arena;
  switch (kind)
  {
    case kCtrLong:
      add_in_form(*h.cl, static_cast<uint64_t>(units), list, form, arena);
      break;
    case kCtrDouble:
      add_in_form(*h.cd, units_to_double(units), list, form, arena);
      break;
    case kUdLong:
      add_in_form(*h.ul, units, list, form, arena);
      break;
    default:
      add_in_form(*h.ud, units_to_double(units), list, form, arena);
      break;
  }
  arena.release();
}

std::vector<Got> run_collect(sdkm::MetricReader &reader, bool *ok, std::string *err)
{
  std::vector<Got> got;
  *ok = reader.Collect([&](sdkm::ResourceMetrics &rm) {
    for (auto &sm : rm.scope_metric_data_)
    {
      if (!sm.scope_)
      {
        *err = "a ScopeMetrics without a scope";
        continue;
      }
      for (auto &md : sm.metric_data_)
        got.push_back(Got{sm.scope_->GetName() + "/" + md.instrument_descriptor.name_ +
                              (md.instrument_descriptor.value_type_ == sdkm::InstrumentValueType::kDouble ? "#d" : "#l") +
                              md.instrument_descriptor.unit_,
                          md});
    }
    return true;
  });
  return got;
}

// value of one point in units; false when the alternative or the value is not what the instrument
// can have produced
bool point_units(const sdkm::PointDataAttributes &p, int kind, int64_t *units, std::string *why)
{
  if (!nostd::holds_alternative<sdkm::SumPointData>(p.point_data))
  {
    *why = "the point is not a sum point (alternative " + std::to_string(p.point_data.index()) + ")";
    return false;
  }
  const auto &sp = nostd::get<sdkm::SumPointData>(p.point_data);
  if (is_double(kind))
  {
    if (!nostd::holds_alternative<double>(sp.value_))
    {
      *why = "a double instrument reported an int64 value";
      return false;
    }
    double d      = nostd::get<double>(sp.value_);
    double scaled = std::ldexp(d, kFracBits);
    if (!(std::fabs(scaled) < 9.0e15) || std::nearbyint(scaled) != scaled)
    {
      *why = "value " + sg::show_double(d) + " is not a sum of recorded values (not a multiple of 2^-10)";
      return false;
    }
    *units = static_cast<int64_t>(scaled);
    return true;
  }
  if (!nostd::holds_alternative<int64_t>(sp.value_))
  {
    *why = "a long instrument reported a double value";
    return false;
  }
  *units = nostd::get<int64_t>(sp.value_);
  return true;
}

struct StreamReport
{
  size_t n_md = 0;
  const sdkm::MetricData *md = nullptr;  // when n_md == 1
  Totals reported;                       // per model set: sum of the points
  std::set<sg::KVMap> present;
  size_t n_points = 0;
};

// decode what a collection holds for stream `s` and run the checks that need no history
StreamReport read_stream(vh::Case &c, const World &w, const StreamM &s, const std::vector<Got> &got, bool delta,
                         const std::string &who)
{
  StreamReport rep;
  const InstrCfg &in = w.instrs[static_cast<size_t>(s.instr)];
  for (auto &g : got)
  {
    if (g.key != s.key)
      continue;
    ++rep.n_md;
    rep.md = &g.md;
    VH_CHECK(c, g.md.instrument_descriptor.type_ == itype(in.kind) &&
                    g.md.instrument_descriptor.value_type_ ==
                        (is_double(in.kind) ? sdkm::InstrumentValueType::kDouble : sdkm::InstrumentValueType::kLong),
             who << ": descriptor type/value type " << static_cast<int>(g.md.instrument_descriptor.type_) << "/"
                 << static_cast<int>(g.md.instrument_descriptor.value_type_) << " is not that of " << kind_name(in.kind));
    VH_CHECK(c, g.md.aggregation_temporality ==
                    (delta ? sdkm::AggregationTemporality::kDelta : sdkm::AggregationTemporality::kCumulative),
             who << ": temporality " << static_cast<int>(g.md.aggregation_temporality) << " but the reader asked for "
                 << (delta ? "delta" : "cumulative"));
    for (auto &p : g.md.point_data_attr_)
    {
      ++rep.n_points;
      int64_t u = 0;
      std::string why;
      VH_CHECK(c, point_units(p, in.kind, &u, &why), who << " series " << show_point_attrs(p.attributes) << ": " << why);
      const sg::KVMap *match = nullptr;
      std::string diff;
      for (auto &t : s.total)
        if (sg::maps_equal(t.first, p.attributes, &diff))
          match = &t.first;
      VH_CHECK(c, match != nullptr, who << ": a series with attributes " << show_point_attrs(p.attributes) << " (value "
                                        << show_units(u, in.kind) << ") although no measurement with that attribute set was recorded");
      rep.reported[*match] += u;
      rep.present.insert(*match);
    }
  }
  if (rep.n_md != 1)
    rep.md = nullptr;
  return rep;
}

// timestamps of one delivered MetricData against the reader's history for the stream; [t0, t1] are the
// harness stamps around the Collect call that delivered it
// "each starts where its previous one ended": an own collection that delivered nothing for the stream
// does not move the start of the next interval (the intervals of the points a reader receives abut)
const bool kAcceptStartInsideIdleCollections = false;

void check_times(vh::Case &c, const World &w, const StreamM &s, ReaderSt &st, const sdkm::MetricData &md, bool delta,
                 bool stepped, bool check_adds, const std::string &who, int64_t t0, int64_t t1)
{
  int64_t start = ns_of(md.start_ts), end = ns_of(md.end_ts);
  if (!stepped)
  {
    VH_CHECK(c, end >= start, who << ": interval ends before it starts (start " << start << " end " << end << ")");
    // The interval ends at the collection.  A measurement that returned just before the Collect call is in
    // this interval, one recorded just after the call returned is in the next one, which starts where this
    // one ends: the end lies inside the call - also when the collection carries nothing new.
    VH_CHECK(c, t0 <= end && end <= t1, who << ": the interval ends at " << end << ", "
                                            << (end < t0 ? t0 - end : end - t1) << " ns "
                                            << (end < t0 ? "before the Collect call that delivered it began"
                                                         : "after the Collect call that delivered it returned")
                                            << " (call [" << t0 << ", " << t1 << "], start " << start << ")");
  }
  bool late_first = st.late_first;
  if (!delta)
  {
    VH_CHECK(c, start == w.sdk_start, who << ": cumulative point starts at " << start << " (SDK start is " << w.sdk_start
                                          << ", difference " << (start - w.sdk_start) << " ns)");
  }
  else if (late_first)
  {
    // the first interval of a reader that was registered when the stream already existed: it may start
    // at SDK start or at any later time up to its end (either-region)
    if (!stepped)
      VH_CHECK(c, start >= w.sdk_start, who << ": the first delta interval of the late reader starts "
                                            << (w.sdk_start - start) << " ns before SDK start");
  }
  else
  {
    int64_t expect = st.delivered ? st.prev_end : w.sdk_start;
    bool ok        = start == expect;
    if (kAcceptStartInsideIdleCollections)
      for (auto &wd : st.windows)
        ok = ok || (wd.first <= start && start <= wd.second);
    VH_CHECK(c, ok, who << ": delta interval #" << (st.deliveries + 1) << " starts at " << start << " but "
                        << (st.delivered ? "the previous interval handed to this reader ended at " : "SDK start is ")
                        << expect << " (difference " << (start - expect) << " ns; SDK start " << w.sdk_start << ")");
    if (!stepped)
      VH_CHECK(c, start >= expect, who << ": delta interval starts " << (expect - start)
                                       << " ns before the end of the previous one (overlap)");
  }
  if (check_adds && !stepped && st.adds_seen < s.add_before.size())
  {
    size_t first = delta ? st.adds_seen : 0, last = s.add_before.size() - 1;
    if (!(delta && late_first))
      VH_CHECK(c, start <= s.add_before[first], who << ": the interval starts " << (start - s.add_before[first])
                                                    << " ns after the first measurement it contains was recorded");
    VH_CHECK(c, end >= s.add_after[last], who << ": the interval ends " << (s.add_after[last] - end)
                                              << " ns before the last measurement it contains was recorded");
  }
  st.prev_end   = end;
  st.delivered  = true;
  st.late_first = false;
  st.windows.clear();
  ++st.deliveries;
}

int64_t total_of(const Totals &t, const sg::KVMap &set)
{
  auto it = t.find(set);
  return it == t.end() ? 0 : it->second;
}

// the sequential oracle: reader r has just collected `got` during [t0, t1]
void check_collect(vh::Case &c, World &w, unsigned r, const std::vector<Got> &got, int64_t t0, int64_t t1)
{
  for (auto &g : got)
    VH_CHECK(c, w.by_key.count(g.key), "reader" << r << " received a stream '" << g.key
                                                << "' that no instrument/view of the configuration produces");
  for (size_t i = 0; i < w.streams.size(); ++i)
  {
    StreamM &s         = w.streams[i];
    ReaderSt &st       = w.rs[r][i];
    const InstrCfg &in = w.instrs[static_cast<size_t>(s.instr)];
    bool delta         = mode_is_delta(w.modes[r], in.kind);
    std::string who    = "reader" + std::to_string(r) + "(" + (delta ? "delta" : "cumulative") + ") stream " + s.key +
                      " [" + kind_name(in.kind) + "]";
    StreamReport rep = read_stream(c, w, s, got, delta, who);
    // the streams of a configuration differ pairwise in scope / name / value type / unit: one stream is one
    // MetricData per collection (two would be two interval chains for one stream)
    VH_CHECK(c, rep.n_md <= 1, who << ": " << rep.n_md << " MetricData for this one stream in one collection");
    bool new_data = st.adds_seen < s.add_before.size();
    if (!st.base_cands.empty())
    {
      // first collection of a stream that had measurements when this reader was registered: which of the
      // admissible starting points explains what it got?  (all sets of the stream, one starting point)
      std::vector<Totals> fit;
      std::string tried;
      for (auto &cand : st.base_cands)
      {
        bool ok = true;
        for (auto &t : s.total)
          ok = ok && total_of(rep.reported, t.first) == t.second - total_of(cand, t.first) &&
               (delta || rep.present.count(t.first) || t.second == total_of(cand, t.first));
        if (ok)
          fit.push_back(cand);
      }
      if (fit.empty())
      {
        std::string sets;
        for (auto &t : s.total)
        {
          sets += " " + show_set(t.first) + ": got " +
                  (rep.present.count(t.first) ? show_units(total_of(rep.reported, t.first), in.kind) : std::string("nothing")) +
                  ", total now " + show_units(t.second, in.kind) + ", admissible:";
          std::set<int64_t> vals;
          for (auto &cand : st.base_cands)
            vals.insert(t.second - total_of(cand, t.first));
          for (int64_t v : vals)
            sets += " " + show_units(v, in.kind);
          sets += ";";
        }
        VH_CHECK(c, false, who << ": first collection of a reader registered after the stream had measurements: no "
                               << "single starting point (SDK start, a collection before the registration, the "
                               << "registration) explains it -" << sets);
      }
      st.base = fit.front();
      st.base_cands.clear();
      st.at_prev = s.total;  // (checked above)
      bool from_start = true;
      for (auto &b : st.base)
        from_start = from_start && b.second == 0;
      c.tag(from_start ? "late-reader-counts-from-sdk-start" : "late-reader-counts-from-a-later-point");
    }
    else
    {
      for (auto &t : s.total)
      {
        int64_t have = total_of(rep.reported, t.first);
        bool present = rep.present.count(t.first) != 0;
        if (delta)
        {
          int64_t want = t.second - total_of(st.at_prev, t.first);
          VH_CHECK(c, have == want, who << " set " << show_set(t.first) << ": this collection reports "
                                        << (present ? show_units(have, in.kind) : std::string("nothing")) << " but "
                                        << show_units(want, in.kind)
                                        << " was recorded since this reader's previous collection (running total "
                                        << show_units(t.second, in.kind) << ", " << rep.n_md << " MetricData)");
        }
        else
        {
          // the running total since SDK start (a late reader: since its fixed starting point)
          int64_t want = t.second - total_of(st.base, t.first);
          if (present)
            VH_CHECK(c, have == want, who << " set " << show_set(t.first) << ": reports " << show_units(have, in.kind)
                                          << " but the running total is " << show_units(want, in.kind)
                                          << (st.base.empty() ? "" : " (counted from this late reader's starting point)"));
          else
            VH_CHECK(c, want == 0, who << " set " << show_set(t.first) << ": absent although the running total is "
                                       << show_units(want, in.kind) << " (" << rep.n_md << " MetricData for the stream)");
        }
      }
      st.at_prev = s.total;
    }
    if (rep.md)
    {
      check_times(c, w, s, st, *rep.md, delta, w.clk.stepped, true, who, t0, t1);
      if (delta && rep.n_points == 0)
        c.tag("delta-delivery-without-points");
    }
    else
      st.windows.emplace_back(t0, t1);
    if (!new_data && !s.add_before.empty())
      c.tag(delta ? "delta-collect-without-new-data" : "cumulative-resend-without-new-data");
    st.adds_seen = s.add_before.size();
    if (s.cuts.empty() || s.cuts.back() != s.total)
      s.cuts.push_back(s.total);
  }
}

// MeterProvider::AddMetricReader after instruments (and measurements, and collections) exist
unsigned add_late_reader(vh::Case &c, World &w, int mode)
{
  unsigned r = static_cast<unsigned>(w.readers.size());
  w.modes.push_back(mode);
  w.readers.emplace_back(new CReader(mode));
  w.provider->AddMetricReader(w.readers.back());
  w.rs.emplace_back();
  for (auto &s : w.streams)
  {
    ReaderSt st;
    bool any = false;
    for (auto &t : s.total)
      any = any || t.second != 0;
    if (!s.add_before.empty())
    {
      st.late_first = true;
      st.adds_seen  = s.add_before.size();
      if (any || !s.cuts.empty())
      {
        st.base_cands.push_back(Totals());  // everything since SDK start
        for (auto &cut : s.cuts)
          st.base_cands.push_back(cut);      // since a collection of some reader
        st.base_cands.push_back(s.total);    // since the registration
        c.tag("late-reader-on-stream-with-measurements");
        w.late_on_data = true;
      }
    }
    w.rs.back().push_back(st);
  }
  return r;
}

void check_sdk_start(vh::Case &c, World &w)
{
  if (!w.clk.stepped)
    VH_CHECK(c, w.ctor_before <= w.sdk_start && w.sdk_start <= w.ctor_after,
             "GetSDKStartTime() = " << w.sdk_start << " is outside the construction of the provider [" << w.ctor_before
                                    << ", " << w.ctor_after << "]");
}

void teardown(World &w)
{
  w.handles.clear();
  w.meters.clear();
  w.provider->Shutdown();
  w.provider.reset();
}

}  // namespace

// ================================================================================================
VH_TARGET(counter_history, 6,
          "a history is non-trivial when (A) readers whose temporalities differ for an instrument in use both "
          "collected after a measurement, or (B) a Collect falls between two Adds to the same (stream, attribute "
          "set), or (C) the single-delta-reader configuration delivered data in >= 2 collections, or (D) a reader "
          "was registered (AddMetricReader) when a stream already had measurements - every reader collects at the "
          "end, so old and new readers are checked across that registration; distinct = distinct (configuration, "
          "program) text")
{
  vh::Reader &rd = c.rd;
  World w;
  make_world(c, w);
  c.note(w.cfgtxt);
  check_sdk_start(c, w);

  std::map<std::pair<size_t, sg::KVMap>, int> phase;  // 1 added, 2 added then some reader collected
  bool rule_b = false, any_add = false;
  std::set<unsigned> collected_after_add;
  std::set<int> kinds_in_use;
  unsigned n_collect = 0, n_add = 0;

  unsigned max_ops = 4 + rd.below(44);
  for (unsigned op = 0; op < max_ops && (op < 3 || !rd.exhausted()); ++op)
  {
    // (AddReader was appended later: the weights before it keep their byte ranges)
    size_t kind = w.handles.empty() ? 2 : rd.weighted({52, 30, 12, 6, 4});
    if (kind == 4 && w.readers.size() >= 4)
      kind = 1;
    std::vector<Handle *> alive;
    for (auto &h : w.handles)
      if (h->alive)
        alive.push_back(h.get());
    if (kind == 0 && alive.empty())
      kind = 2;
    if (kind == 3 && alive.empty())
      kind = 1;
    if (kind == 4)
    {
      // a further reader joins a provider that already has instruments (and, usually, measurements and
      // collections by the older readers)
      int mode   = static_cast<int>(rd.weighted({4, 4, 2}));
      bool alone = w.readers.size() == 1 && w.modes[0] != 1;
      bool had_deliveries = false;
      for (auto &per_reader : w.rs)
        for (auto &st : per_reader)
          had_deliveries = had_deliveries || st.deliveries > 0;
      unsigned r = add_late_reader(c, w, mode);
      c.note("reader" + std::to_string(r) + " = AddMetricReader(" + mode_name(mode) + ")   # late\n");
      c.tag("reader-added-late");
      c.tag(std::string("late-reader-") + mode_letter(mode));
      if (alone)
        c.tag(had_deliveries ? "single-delta-reader-gets-company-after-deliveries(fast-path->multi-reader-path)"
                             : "single-delta-reader-gets-company-before-deliveries");
      continue;
    }
    if (kind == 2)
    {
      // Create: names come from the small pool, so an existing instrument is asked for again
      int m = static_cast<int>(rd.below(w.n_meters)), i = static_cast<int>(rd.below(static_cast<uint32_t>(w.instrs.size())));
      bool again = w.streams_of.count({m, i}) != 0;
      if (again && vh::excluded("F8"))
      {
        // open finding F8: a second handle for the same instrument orphans the first one's storage
        vh::count_excluded("F8");
        continue;
      }
      Handle *h = create_handle(c, w, m, i);
      c.note("h" + std::to_string(w.handles.size() - 1) + " = " + meter_name(m) + ".Create" +
             kind_name(w.instrs[static_cast<size_t>(i)].kind) + "('" + w.instrs[static_cast<size_t>(i)].name + "')" +
             (again ? "   # another handle for the same instrument" : "") + "\n");
      kinds_in_use.insert(w.instrs[static_cast<size_t>(i)].kind);
      c.tag(std::string("create-") + kind_tag(w.instrs[static_cast<size_t>(i)].kind));
      c.tag("instrument-views-" + std::to_string(w.instrs[static_cast<size_t>(i)].views.size()));
      c.tag("instrument-streams-on-this-meter-" + std::to_string(w.streams_of[{m, i}].size()));
      for (size_t si : w.streams_of[{m, i}])
      {
        if (w.streams[si].filter)
          c.tag("view-attribute-filter");
        if (w.streams[si].renamed)
          c.tag("view-renames-stream");
      }
      if (w.n_meters == 2 && w.streams_of.count({1 - m, i}) &&
          w.streams_of[{1 - m, i}].size() != w.streams_of[{m, i}].size())
        c.tag("same-instrument-different-stream-sets-on-two-meters");
      if (!h->first)
        c.tag("second-handle-same-instrument");
      if (w.n_meters == 2 && w.streams_of.count({1 - m, i}))
        c.tag("same-name-in-two-meters");
    }
    else if (kind == 0)
    {
      size_t hi = 0;
      for (size_t k = 0, pick = rd.below(static_cast<uint32_t>(alive.size())); k < w.handles.size(); ++k)
        if (w.handles[k]->alive && pick-- == 0)
          hi = k;
      Handle &h          = *w.handles[hi];
      const InstrCfg &in = w.instrs[static_cast<size_t>(h.instr)];
      int64_t units      = gen_units(rd, in.kind);
      GenAttrs a         = gen_attrs(rd);
      unsigned form      = rd.below(kAddForms);
      c.note("h" + std::to_string(hi) + ".Add(" + show_units(units, in.kind) + ", " + sg::show_kvlist(a.list) +
             ")   as " + add_form_name(form, a.list.empty()) + "\n");
      c.tag(std::string("form-") + add_form_name(form, a.list.empty()));
      int64_t tb = w.clk.now();
      api_add(h, in.kind, units, a.list, form);
      int64_t ta = w.clk.now();
      ++n_add;
      any_add = true;
      if (in.kind == kCtrLong && units == (int64_t(1) << 40) - 1)
      {
        // An increment the int64 sum point cannot represent (a valid uint64 argument above INT64_MAX), through
        // the same overload and attribute set: the SDK refuses it with a warning.  Whatever it does with it, the
        // totals of the representable measurements must stay exact - the model is not updated.  (Seeded C06-m10
        // let one overload add the wrapped, negative value.)
        static const uint64_t huge[3] = {UINT64_MAX, uint64_t(1) << 63, (uint64_t(1) << 63) + 40};
        sg::Arena arena2;
        add_in_form(*h.cl, huge[n_add % 3], a.list, form, arena2);
        arena2.release();
        ta = w.clk.now();
        c.note("h" + std::to_string(hi) + ".Add(" + std::to_string(huge[n_add % 3]) + ", same attributes)   # not representable, must not disturb the totals\n");
        c.tag("add-u64-above-int64-max");
      }
      collected_after_add.clear();
      std::set<sg::KVMap> merged_sets;
      for (size_t si : w.streams_of[{h.meter, h.instr}])
      {
        StreamM &s    = w.streams[si];
        sg::KVMap set = filtered(a.set, s.filter);
        if (s.filter && set != a.set && s.total.count(set))
          c.tag("filter-merges-attribute-sets");
        s.total[set] += units;
        s.add_before.push_back(tb);
        s.add_after.push_back(ta);
        int &ph = phase[{si, set}];
        if (ph == 2)
          rule_b = true;
        ph = 1;
      }
      if (a.permuted)
        c.tag("attrs-permuted");
      if (a.dup)
        c.tag("attrs-repeated-key");
      if (a.set.empty())
        c.tag("attrs-empty");
      if (units == 0)
        c.tag("add-zero");
      if (units < 0)
        c.tag("add-negative");
      if (units >= (int64_t(1) << 40) - 1)
        c.tag("add-2^40");
      if (!h.first)
        c.tag("add-through-second-handle");
    }
    else if (kind == 1)
    {
      unsigned r = rd.below(static_cast<uint32_t>(w.readers.size()));
      bool ok    = false;
      std::string err;
      c.note("reader" + std::to_string(r) + ".Collect()\n");
      int64_t t0            = w.clk.now();
      std::vector<Got> got = run_collect(*w.readers[r], &ok, &err);
      int64_t t1            = w.clk.now();
      VH_CHECK(c, err.empty(), "reader" << r << ": " << err);
      VH_CHECK(c, ok, "reader" << r << ".Collect returned false");
      check_collect(c, w, r, got, t0, t1);
      ++n_collect;
      if (any_add)
        collected_after_add.insert(r);
      for (auto &ph : phase)
        if (ph.second == 1)
          ph.second = 2;
      // rule A: two readers that differ in temporality for an instrument in use have both collected
      // since the last Add
      for (unsigned r2 : collected_after_add)
        for (int k : kinds_in_use)
          if (r2 != r && mode_is_delta(w.modes[r2], k) != mode_is_delta(w.modes[r], k))
          {
            c.nontrivial = true;
            c.tag("rule-A-mixed-temporality-readers-interleaved");
          }
    }
    else
    {
      size_t hi = 0;
      for (size_t k = 0, pick = rd.below(static_cast<uint32_t>(alive.size())); k < w.handles.size(); ++k)
        if (w.handles[k]->alive && pick-- == 0)
          hi = k;
      Handle &h = *w.handles[hi];
      h.cl.reset();
      h.cd.reset();
      h.ul.reset();
      h.ud.reset();
      h.alive = false;
      c.note("destroy h" + std::to_string(hi) + "\n");
      c.tag("destroy-handle");
    }
  }
  // every reader collects once more: nothing recorded may stay behind
  for (unsigned r = 0; r < w.readers.size(); ++r)
  {
    bool ok = false;
    std::string err;
    c.note("reader" + std::to_string(r) + ".Collect()   # final\n");
    int64_t t0            = w.clk.now();
    std::vector<Got> got = run_collect(*w.readers[r], &ok, &err);
    int64_t t1            = w.clk.now();
    VH_CHECK(c, err.empty(), "reader" << r << ": " << err);
    VH_CHECK(c, ok, "reader" << r << ".Collect returned false");
    check_collect(c, w, r, got, t0, t1);
  }
  if (rule_b)
  {
    c.nontrivial = true;
    c.tag("rule-B-collect-between-adds-to-one-set");
  }
  if (w.readers.size() == 1)
    for (auto &st : w.rs[0])
      if (st.deliveries >= 2 && w.modes[0] != 1)
      {
        c.nontrivial = true;
        c.tag("rule-C-single-delta-reader-2+-deliveries");
      }
  if (w.late_on_data)
  {
    c.nontrivial = true;
    c.tag("rule-D-reader-registered-after-measurements");
  }
  if (w.clk.stepped)
    c.tag("system-clock-stepped-back");
  (void)n_collect;
  (void)n_add;
  teardown(w);
}

// ================================================================================================
namespace
{
struct RecStep
{
  size_t handle;
  int64_t units;
  GenAttrs attrs;
  unsigned reps, form, yield_every;
  bool fresh_handle;  // the thread asks the meter for the instrument again and records through that handle
  bool drop_after;    // ... and releases that handle right after the step
};
struct Collection
{
  int64_t t0 = 0, t1 = 0;
  bool ok = false;
  std::string err;
  std::vector<Got> got;
};
void spin_pause(unsigned n)
{
  for (unsigned i = 0; i < n; ++i)
    std::this_thread::yield();
}
}  // namespace

VH_TARGET(counter_threads, 6,
          "1..3 recorder threads (recording through shared handles, through handles they request themselves - also "
          "the first handle of an instrument, on a meter they obtain themselves - and release again) race 1..2 "
          "collector threads, then every reader collects once more; a case is "
          "non-trivial when some collection that ran concurrently with the recorders saw a partial result (a "
          "cumulative value strictly between 0 and the final total, or data in >= 2 delta collections of one "
          "stream); distinct = distinct (configuration, thread programs) text")
{
  vh::Reader &rd = c.rd;
  World w;
  make_world(c, w, /*only_meter0=*/true);
  c.note(w.cfgtxt);
  check_sdk_start(c, w);
  // the second meter: obtained now, or by the recorder threads themselves (GetMeter racing Collect)
  bool lazy_m1 = w.n_meters == 2 && rd.chance(40);
  if (w.n_meters == 2 && !lazy_m1)
    w.meters.push_back(w.provider->GetMeter(meter_name(1), "1.0", ""));
  if (lazy_m1)
    c.tag("meter-obtained-while-collectors-run");
  // handles: every instrument on meter 0 (and sometimes on meter 1), sometimes twice; some instruments are
  // only created by the recorder threads (first registration of a storage racing Meter::Collect)
  for (size_t i = 0; i < w.instrs.size(); ++i)
    for (unsigned m = 0; m < w.n_meters; ++m)
    {
      if (m == 1 && !rd.coin())
        continue;
      bool deferred = (m == 1 && lazy_m1) || rd.chance(25);
      create_handle(c, w, static_cast<int>(m), static_cast<int>(i), deferred);
      if (deferred)
        c.tag("instrument-created-while-collectors-run");
      else if (rd.chance(35))
      {
        if (vh::excluded("F8"))
          vh::count_excluded("F8");
        else
        {
          create_handle(c, w, static_cast<int>(m), static_cast<int>(i));
          c.tag("second-handle-same-instrument");
        }
      }
    }
  std::string txt = "handles:";
  for (auto &h : w.handles)
    txt += " " + meter_name(h->meter) + "." + w.instrs[static_cast<size_t>(h->instr)].name +
           (h->deferred ? "(created by the threads)" : "");
  txt += lazy_m1 ? "  [m1 obtained by the threads]\n" : "\n";

  unsigned ncol = w.readers.size() >= 2 && rd.chance(50) ? 2 : 1;
  std::vector<unsigned> rounds(ncol), pause(ncol);
  for (unsigned t = 0; t < ncol; ++t)
  {
    rounds[t] = 2 + rd.below(14);
    pause[t]  = rd.below(6);
  }
  unsigned nrec = 1 + rd.below(3);
  std::vector<std::vector<RecStep>> progs(nrec);
  for (unsigned t = 0; t < nrec; ++t)
  {
    unsigned nsteps = 1 + rd.below(6);
    for (unsigned k = 0; k < nsteps && (k < 1 || !rd.exhausted()); ++k)
    {
      RecStep s;
      s.handle      = rd.below(static_cast<uint32_t>(w.handles.size()));
      int kind      = w.instrs[static_cast<size_t>(w.handles[s.handle]->instr)].kind;
      s.units       = gen_units(rd, kind) & ((int64_t(1) << 30) - 1);  // reps * units stays far below 2^52
      if (is_updown(kind) && rd.chance(40))
        s.units = -s.units;
      s.attrs       = gen_attrs(rd);
      s.reps        = 1 + rd.below(60);
      s.form        = rd.below(kAddForms);
      s.yield_every = rd.below(5);
      s.fresh_handle = rd.chance(20);
      if (s.fresh_handle && vh::excluded("F8"))
      {
        vh::count_excluded("F8");
        s.fresh_handle = false;
      }
      if (w.handles[s.handle]->deferred)
        s.fresh_handle = true;
      // the thread's own handle is released right after the step: destruction races the Adds of the
      // other threads through other handles of the instrument, and the collections
      s.drop_after = s.fresh_handle && rd.chance(40);
      if (s.fresh_handle)
        c.tag("handle-created-while-collectors-run");
      if (s.drop_after)
        c.tag("handle-destroyed-while-others-record-and-collect");
      progs[t].push_back(s);
      txt += "T" + std::to_string(t) + ": " + std::to_string(s.reps) + " x " +
             (s.fresh_handle ? "(new handle like h" + std::to_string(s.handle) + ")" : "h" + std::to_string(s.handle)) +
             ".Add(" + show_units(s.units, kind) + ", " + sg::show_kvlist(s.attrs.list) + ") as " +
             add_form_name(s.form, s.attrs.list.empty()) + " yield/" + std::to_string(s.yield_every) +
             (s.drop_after ? " then destroy the handle" : "") + "\n";
    }
  }
  for (unsigned t = 0; t < ncol; ++t)
  {
    txt += "C" + std::to_string(t) + ": " + std::to_string(rounds[t]) + " rounds over readers";
    for (unsigned r = t; r < w.readers.size(); r += ncol)
      txt += " " + std::to_string(r);
    txt += " pause " + std::to_string(pause[t]) + "\n";
  }
  c.note(txt);
  c.tag("recorders-" + std::to_string(nrec));
  c.tag("collectors-" + std::to_string(ncol));

  // expected totals (the model is filled before the threads start: they only execute)
  for (auto &p : progs)
    for (auto &s : p)
    {
      Handle &h = *w.handles[s.handle];
      for (size_t si : w.streams_of[{h.meter, h.instr}])
        w.streams[si].total[filtered(s.attrs.set, w.streams[si].filter)] += s.units * static_cast<int64_t>(s.reps);
    }

  std::vector<std::vector<Collection>> log(w.readers.size());
  std::vector<HClock> clocks(ncol);
  std::atomic<unsigned> ready{0};
  std::atomic<bool> go{false}, null_handle{false};
  std::vector<std::thread> ths;
  for (unsigned t = 0; t < nrec; ++t)
    ths.emplace_back([&, t]() {
      ready.fetch_add(1);
      while (!go.load(std::memory_order_acquire))
        std::this_thread::yield();
      std::vector<std::unique_ptr<Handle>> own;
      nostd::shared_ptr<om::Meter> my_m1;
      for (auto &s : progs[t])
      {
        Handle *h = w.handles[s.handle].get();
        int kind  = w.instrs[static_cast<size_t>(h->instr)].kind;
        if (s.fresh_handle)
        {
          if (h->meter == 1 && lazy_m1 && !my_m1)
            my_m1 = w.provider->GetMeter(meter_name(1), "1.0", "");
          own.push_back(sdk_create(w, h->meter, h->instr, h->meter == 1 && lazy_m1 ? my_m1.get() : nullptr));
          h = own.back().get();
          if (!(h->cl || h->cd || h->ul || h->ud))
          {
            null_handle.store(true);
            continue;
          }
        }
        for (unsigned k = 0; k < s.reps; ++k)
        {
          api_add(*h, kind, s.units, s.attrs.list, s.form);
          if (s.yield_every && k % s.yield_every == 0)
            std::this_thread::yield();
        }
        if (s.drop_after)
          own.pop_back();
      }
    });
  for (unsigned t = 0; t < ncol; ++t)
    ths.emplace_back([&, t]() {
      ready.fetch_add(1);
      while (!go.load(std::memory_order_acquire))
        std::this_thread::yield();
      for (unsigned k = 0; k < rounds[t]; ++k)
        for (unsigned r = t; r < w.readers.size(); r += ncol)
        {
          Collection col;
          col.t0  = clocks[t].now();
          col.got = run_collect(*w.readers[r], &col.ok, &col.err);
          col.t1  = clocks[t].now();
          log[r].push_back(std::move(col));
          spin_pause(pause[t] * 20);
        }
    });
  while (ready.load() < nrec + ncol)
    std::this_thread::yield();
  go.store(true, std::memory_order_release);
  for (auto &th : ths)
    th.join();
  VH_CHECK(c, !null_handle.load(), "a Create call made while collectors were running returned null");
  bool stepped = w.clk.stepped;
  for (auto &k : clocks)
    stepped = stepped || k.stepped;
  for (unsigned r = 0; r < w.readers.size(); ++r)
  {
    Collection col;
    col.t0  = w.clk.now();
    col.got = run_collect(*w.readers[r], &col.ok, &col.err);
    col.t1  = w.clk.now();
    log[r].push_back(std::move(col));
  }
  stepped = stepped || w.clk.stepped;

  bool partial = false;
  for (unsigned r = 0; r < w.readers.size(); ++r)
  {
    for (size_t n = 0; n < log[r].size(); ++n)
    {
      const Collection &col = log[r][n];
      bool final_one        = n + 1 == log[r].size();
      VH_CHECK(c, col.err.empty(), "reader" << r << ": " << col.err);
      VH_CHECK(c, col.ok, "reader" << r << ".Collect #" << n << " returned false");
      for (auto &g : col.got)
        VH_CHECK(c, w.by_key.count(g.key), "reader" << r << " received a stream '" << g.key
                                                    << "' that no instrument/view of the configuration produces");
      for (size_t i = 0; i < w.streams.size(); ++i)
      {
        StreamM &s         = w.streams[i];
        ReaderSt &st       = w.rs[r][i];
        const InstrCfg &in = w.instrs[static_cast<size_t>(s.instr)];
        bool delta         = mode_is_delta(w.modes[r], in.kind);
        bool monotonic     = !is_updown(in.kind);
        std::string who    = "reader" + std::to_string(r) + "(" + (delta ? "delta" : "cumulative") + ") collection #" +
                          std::to_string(n) + (final_one ? " (final, after join)" : "") + " stream " + s.key + " [" +
                          kind_name(in.kind) + "]";
        StreamReport rep = read_stream(c, w, s, col.got, delta, who);
        for (auto &t : s.total)
        {
          auto it      = rep.reported.find(t.first);
          int64_t have = it == rep.reported.end() ? 0 : it->second;
          bool present = rep.present.count(t.first) != 0;
          if (delta)
          {
            if (monotonic)
              VH_CHECK(c, have >= 0, who << " set " << show_set(t.first) << ": negative delta "
                                         << show_units(have, in.kind) << " of a monotonic counter");
            int64_t &acc = st.delta_sum[t.first];
            if (have != 0 && (acc != 0 || (!final_one && have != t.second)))
              partial = true;
            acc += have;
            if (monotonic)
              VH_CHECK(c, acc <= t.second, who << " set " << show_set(t.first) << ": the deltas received so far add up to "
                                               << show_units(acc, in.kind) << ", more than everything recorded ("
                                               << show_units(t.second, in.kind) << ")");
            if (final_one)
              VH_CHECK(c, acc == t.second, who << " set " << show_set(t.first) << ": all deltas this reader received add up to "
                                               << show_units(acc, in.kind) << " but " << show_units(t.second, in.kind)
                                               << " was recorded");
          }
          else
          {
            int64_t &last = st.last_cum[t.first];
            if (monotonic)
            {
              VH_CHECK(c, present || last == 0, who << " set " << show_set(t.first) << ": absent after the value "
                                                    << show_units(last, in.kind) << " had been reported");
              VH_CHECK(c, !present || have >= last, who << " set " << show_set(t.first) << ": cumulative value went down from "
                                                        << show_units(last, in.kind) << " to " << show_units(have, in.kind));
              VH_CHECK(c, have <= t.second, who << " set " << show_set(t.first) << ": cumulative value "
                                                << show_units(have, in.kind) << " exceeds everything recorded ("
                                                << show_units(t.second, in.kind) << ")");
              if (!final_one && have > 0 && have < t.second)
                partial = true;
            }
            else if (!final_one && present && have != t.second && have != 0)
              partial = true;
            if (present)
              last = have;
            if (final_one)
            {
              if (present)
                VH_CHECK(c, have == t.second, who << " set " << show_set(t.first) << ": reports " << show_units(have, in.kind)
                                                  << " but " << show_units(t.second, in.kind) << " was recorded");
              else
                VH_CHECK(c, t.second == 0, who << " set " << show_set(t.first) << ": absent although "
                                               << show_units(t.second, in.kind) << " was recorded");
            }
          }
        }
        VH_CHECK(c, rep.n_md <= 1, who << ": " << rep.n_md << " MetricData for this one stream in one collection");
        if (rep.md)
          check_times(c, w, s, st, *rep.md, delta, stepped, false, who, col.t0, col.t1);
        else
          st.windows.emplace_back(col.t0, col.t1);
      }
    }
  }
  c.nontrivial = partial;
  if (partial)
    c.tag("partial-result-seen-by-a-racing-collection");
  if (stepped)
    c.tag("system-clock-stepped-back");
  teardown(w);
}

// ================================================================================================
// Fixed witnesses (no stream use, independent of the generators).
namespace
{
struct Fixed
{
  std::unique_ptr<sdkm::MeterProvider> provider;
  std::vector<std::shared_ptr<CReader>> readers;
  int64_t sdk_start = 0;
};
void make_fixed(Fixed &f, std::unique_ptr<sdkm::ViewRegistry> reg, std::vector<int> modes)
{
  quiet_logs();
  std::unique_ptr<sdkm::MeterContext> ctx(new sdkm::MeterContext(std::move(reg), the_resource()));
  f.sdk_start = ns_of(ctx->GetSDKStartTime());
  f.provider.reset(new sdkm::MeterProvider(std::move(ctx)));
  for (int m : modes)
  {
    f.readers.emplace_back(new CReader(m));
    f.provider->AddMetricReader(f.readers.back());
  }
}
int64_t sum_of(const std::vector<Got> &got, const std::string &key)
{
  int64_t s = 0;
  for (auto &g : got)
    if (g.key == key + "#l" || g.key == key + "#d" || g.key == key)
      for (auto &p : g.md.point_data_attr_)
        if (nostd::holds_alternative<sdkm::SumPointData>(p.point_data) &&
            nostd::holds_alternative<int64_t>(nostd::get<sdkm::SumPointData>(p.point_data).value_))
          s += nostd::get<int64_t>(nostd::get<sdkm::SumPointData>(p.point_data).value_);
  return s;
}
}  // namespace

// ================================================================================================
// Totals at the edge of the value range.  The histories above keep every value below 2^40 so that the model's
// sums are exact in int64 and double alike; here an integer counter / up-down counter is driven so that the
// running total of its single series lands EXACTLY on INT64_MAX (or INT64_MIN for the up-down counter) - still
// representable, so every measurement still has to be reported exactly once - in 1..5 generated steps with
// collections by a delta and a cumulative reader in between.  (Seeded C06-m12: an overflow guard with >= for >
// dropped the measurement that reached the limit.)
VH_TARGET(sum_limits, 3,
          "integer counter / up-down counter whose running total is driven exactly onto INT64_MAX / INT64_MIN in 1..5 "
          "Add calls (every Add overload without attributes and with an attribute set) with collections by a delta and "
          "a cumulative reader in between; non-trivial when the limit is reached within an interval that holds an "
          "earlier measurement, or in several steps; distinct = distinct (kind, limit, steps, collections) text")
{
  vh::Reader &rd = c.rd;
  const bool updown  = rd.coin();
  const bool to_min  = updown && rd.coin();
  const bool with_attrs = rd.coin();
  const int64_t limit = to_min ? INT64_MIN : INT64_MAX;
  unsigned nsteps = 1 + rd.below(5);
  // the steps: all but the last are drawn (same sign as the limit, never overshooting), the last one closes the gap
  std::vector<int64_t> steps;
  int64_t total = 0;
  for (unsigned i = 0; i + 1 < nsteps; ++i)
  {
    // >= 0, distance still to go; |INT64_MIN| does not fit, so from 0 one unit is left for the closing step
    int64_t room = !to_min ? limit - total : total == 0 ? INT64_MAX : total - limit;
    int64_t mag = 0;
    switch (rd.weighted({3, 3, 2, 2}))
    {
      case 0:
        mag = 1 + static_cast<int64_t>(rd.below(9));
        break;
      case 1:
        mag = room / 2;
        break;
      case 2:
        mag = room - 1 - static_cast<int64_t>(rd.below(4));
        break;
      default:
        mag = static_cast<int64_t>(rd.u64() >> 2);
        break;
    }
    if (mag < 0)
      mag = 0;
    if (mag > room - 1)
      mag = room > 0 ? room - 1 : 0;
    int64_t v = to_min ? -mag : mag;
    steps.push_back(v);
    total += v;
  }
  steps.push_back(limit - total);  // exact, no overflow: total lies between 0 and the limit
  std::vector<bool> collect_after(steps.size());
  for (size_t i = 0; i < steps.size(); ++i)
    collect_after[i] = rd.chance(35);
  std::string text = std::string(updown ? "UpDownCounter<int64>" : "Counter<uint64>") + " to " +
                     (to_min ? "INT64_MIN" : "INT64_MAX") + (with_attrs ? " {k0=1}" : " {}") + ":";
  for (size_t i = 0; i < steps.size(); ++i)
    text += " Add(" + std::to_string(steps[i]) + ")" + (collect_after[i] ? " Collect" : "");
  c.note(text + " Collect\n");
  c.tag(to_min ? "to-INT64_MIN" : updown ? "updown-to-INT64_MAX" : "counter-to-INT64_MAX");
  c.tag("steps-" + std::to_string(steps.size()));
  c.nontrivial = steps.size() >= 2;

  Fixed f;
  make_fixed(f, std::unique_ptr<sdkm::ViewRegistry>(new sdkm::ViewRegistry), {0, 1});
  auto meter = f.provider->GetMeter("m0", "1.0", "");
  nostd::unique_ptr<opentelemetry::metrics::Counter<uint64_t>> ctr;
  nostd::unique_ptr<opentelemetry::metrics::UpDownCounter<int64_t>> ud;
  if (updown)
    ud = meter->CreateInt64UpDownCounter("a", "", "");
  else
    ctr = meter->CreateUInt64Counter("a", "", "");
  int64_t recorded = 0, delta_sum = 0;
  auto collect_both = [&](const char *when) {
    bool ok = false;
    std::string err;
    auto gd = run_collect(*f.readers[0], &ok, &err);
    VH_CHECK(c, ok && err.empty(), "delta reader: " << err);
    // sum_of adds int64 values; the partial sums stay between 0 and the limit
    delta_sum += sum_of(gd, "m0/a");
    VH_CHECK(c, delta_sum == recorded, when << ": the delta points handed to the delta reader add up to " << delta_sum
                                            << " but " << recorded << " was recorded");
    auto gc = run_collect(*f.readers[1], &ok, &err);
    VH_CHECK(c, ok && err.empty(), "cumulative reader: " << err);
    VH_CHECK(c, sum_of(gc, "m0/a") == recorded, when << ": the cumulative reader reports " << sum_of(gc, "m0/a") << " but "
                                                     << recorded << " was recorded");
  };
  for (size_t i = 0; i < steps.size(); ++i)
  {
    int64_t v = steps[i];
    unsigned form = static_cast<unsigned>((i + steps.size()) % 2);
    if (updown)
    {
      if (with_attrs)
        form ? ud->Add(v, {{"k0", 1}}) : ud->Add(v, {{"k0", 1}}, opentelemetry::context::Context{});
      else
        form ? ud->Add(v) : ud->Add(v, opentelemetry::context::Context{});
    }
    else
    {
      uint64_t u = static_cast<uint64_t>(v);
      if (with_attrs)
        form ? ctr->Add(u, {{"k0", 1}}) : ctr->Add(u, {{"k0", 1}}, opentelemetry::context::Context{});
      else
        form ? ctr->Add(u) : ctr->Add(u, opentelemetry::context::Context{});
    }
    recorded += v;
    if (collect_after[i] && i + 1 < steps.size())
    {
      collect_both("after an intermediate step");
      c.tag("collect-between-steps");
    }
    else if (i + 1 == steps.size() && i > 0 && !collect_after[i - 1])
      c.tag("limit-reached-within-an-interval-holding-earlier-measurements");
  }
  collect_both("after the total reached the limit");
  ctr.reset();
  ud.reset();
  f.provider->Shutdown();
}

VH_TARGET(f7_witness, 1, "fixed case of finding F7 (not part of the search)")
{
  c.note("one delta reader; counter a; Add(1); Collect; Add(2); Collect: the second interval must start where the first ended\n");
  Fixed f;
  make_fixed(f, std::unique_ptr<sdkm::ViewRegistry>(new sdkm::ViewRegistry), {0});
  auto meter = f.provider->GetMeter("m0", "1.0", "");
  auto ctr   = meter->CreateUInt64Counter("a", "", "");
  bool ok;
  std::string err;
  ctr->Add(1);
  auto g1 = run_collect(*f.readers[0], &ok, &err);
  ctr->Add(2);
  auto g2 = run_collect(*f.readers[0], &ok, &err);
  VH_CHECK(c, g1.size() == 1 && g2.size() == 1, "expected one MetricData per collection, got " << g1.size() << " and " << g2.size());
  VH_CHECK(c, sum_of(g1, "m0/a") == 1 && sum_of(g2, "m0/a") == 2, "delta values " << sum_of(g1, "m0/a") << ", " << sum_of(g2, "m0/a"));
  VH_CHECK(c, ns_of(g1[0].md.start_ts) == f.sdk_start, "the first delta interval does not start at SDK start");
  VH_CHECK(c, ns_of(g2[0].md.start_ts) == ns_of(g1[0].md.end_ts),
           "single delta reader: delta interval #2 starts at " << ns_of(g2[0].md.start_ts)
                                                               << " but the previous interval handed to this reader ended at "
                                                               << ns_of(g1[0].md.end_ts) << " (SDK start " << f.sdk_start << ")");
  ctr.reset();
  f.provider->Shutdown();
}

namespace
{
void f8_second_handle(vh::Case &c)
{
  c.note("one cumulative reader; h0 = CreateUInt64Counter('a'); h0.Add(100); h1 = CreateUInt64Counter('a'); h1.Add(1); Collect; "
         "h0.Add(5); Collect\n");
  Fixed f;
  make_fixed(f, std::unique_ptr<sdkm::ViewRegistry>(new sdkm::ViewRegistry), {1});
  auto meter = f.provider->GetMeter("m0", "1.0", "");
  auto h0    = meter->CreateUInt64Counter("a", "", "");
  h0->Add(100);
  auto h1 = meter->CreateUInt64Counter("a", "", "");
  h1->Add(1);
  bool ok;
  std::string err;
  auto g = run_collect(*f.readers[0], &ok, &err);
  VH_CHECK(c, sum_of(g, "m0/a") == 101, "second handle for one instrument: stream m0/a reports "
                                            << sum_of(g, "m0/a") << " but 101 was recorded through the two handles");
  h0->Add(5);
  g = run_collect(*f.readers[0], &ok, &err);
  VH_CHECK(c, sum_of(g, "m0/a") == 106, "second handle for one instrument: stream m0/a reports "
                                            << sum_of(g, "m0/a") << " but 106 was recorded through the two handles");
  h0.reset();
  h1.reset();
  f.provider->Shutdown();
}

void f8_two_views(vh::Case &c)
{
  c.note("one cumulative reader; views a->a_v0 and a->a_v1; CreateUInt64Counter('a'); Add(7); Collect\n");
  std::unique_ptr<sdkm::ViewRegistry> reg(new sdkm::ViewRegistry);
  for (const char *n : {"a_v0", "a_v1"})
    reg->AddView(std::unique_ptr<sdkm::InstrumentSelector>(
                     new sdkm::InstrumentSelector(sdkm::InstrumentType::kCounter, "a", "")),
                 std::unique_ptr<sdkm::MeterSelector>(new sdkm::MeterSelector("", "", "")),
                 std::unique_ptr<sdkm::View>(new sdkm::View(n)));
  Fixed f;
  make_fixed(f, std::move(reg), {1});
  auto meter = f.provider->GetMeter("m0", "1.0", "");
  auto h0    = meter->CreateUInt64Counter("a", "", "");
  h0->Add(7);
  bool ok;
  std::string err;
  auto g = run_collect(*f.readers[0], &ok, &err);
  VH_CHECK(c, sum_of(g, "m0/a_v0") == 7 && sum_of(g, "m0/a_v1") == 7,
           "two views for one instrument: view stream m0/a_v0 reports " << sum_of(g, "m0/a_v0") << " and m0/a_v1 reports "
                                                                        << sum_of(g, "m0/a_v1") << " but 7 was recorded");
  h0.reset();
  f.provider->Shutdown();
}
}  // namespace

VH_TARGET(f8_handle_witness, 1, "fixed case of finding F8, second handle (not part of the search)")
{
  f8_second_handle(c);
}

VH_TARGET(f8_views_witness, 1, "fixed case of finding F8, two views (not part of the search)")
{
  f8_two_views(c);
}

// both shapes of F8 in one target: the witness of the finding while it is open
VH_TARGET(f8_witness, 1, "fixed case of finding F8, both shapes (not part of the search)")
{
  f8_second_handle(c);
  f8_two_views(c);
}

// C09  W3C trace-context propagation round-trips and only accepts well-formed headers.
//
// Targets
//   w3c_inject   generated span contexts (boundary ids, all 256 flag bytes, trace states up to 32
//                members / boundary lengths, invalid contexts) -> Inject -> reference encoding ->
//                Extract -> same ids / flags / ordered trace state
//   w3c_edits    a generated valid header + an edit script (near-valid headers), generated
//                tracestate, generated caller context -> Extract against the reference parser
//   w3c_bytes    raw traceparent / tracestate bytes (the libFuzzer entry) against the same reference
//   w3c_helpers  HexToBinary / IsValidHex / SplitString against their documented behaviour, and the
//                public TraceIdFromHex / SpanIdFromHex / TraceFlagsFromHex with hex digits of any length
// w3c_inject also injects into REUSED carriers (an earlier injection by the same propagator left its
// headers; see kHoldBack_stale_tracestate); tracestate headers that the W3C grammar reads beyond
// doubt (OWS around members, empty members) have an independent expectation (ref_state).
// Oracle: reference encoder and reference parser written from the property statement (three
// valued: must accept / either / must reject), Inject->Extract and Extract->Inject round trips,
// `Context::operator==` + span identity for "the caller's context unchanged", ASan/UBSan for the
// out-of-bounds clause (headers live in exact-size heap buffers without a terminating NUL and are
// freed before the extracted context is read).
#include <algorithm>
#include <clocale>
#include <cstring>
#include <memory>
#include <string>
#include <utility>
#include <vector>

#include "opentelemetry/context/context.h"
#include "opentelemetry/context/propagation/text_map_propagator.h"
#include "opentelemetry/trace/context.h"
#include "opentelemetry/trace/default_span.h"
#include "opentelemetry/trace/propagation/http_trace_context.h"
#include "opentelemetry/trace/span_context.h"
#include "opentelemetry/trace/span_metadata.h"
#include "opentelemetry/trace/trace_state.h"
#include "vh.h"
#include "vh_guard.h"

const char *vh_property_id = "C09";

namespace
{
namespace trace   = opentelemetry::trace;
namespace context = opentelemetry::context;
namespace nostd   = opentelemetry::nostd;
namespace detail  = opentelemetry::trace::propagation::detail;
using trace::propagation::HttpTraceContext;
using List = std::vector<std::pair<std::string, std::string>>;

// ------------------------------------------------------------------------- findings
// C09-stale-tracestate (FIXED in /repo 70415bd; regression replay replays/C09/C09-stale-tracestate.json): Inject wrote the tracestate
// header only when the new trace state is non-empty, so a carrier that still holds the headers of
// an earlier injection keeps the OLD tracestate next to the NEW traceparent, and extracting those
// headers yields the new ids with the old (foreign) trace state.  While the shape is held back (or
// listed as an open finding) the generator re-shapes it - the earlier context gets an empty trace
// state as well - and counts how often it walked into it.
const bool kHoldBack_stale_tracestate = false;
const char kIdStaleTraceState[]       = "C09-stale-tracestate";

// ------------------------------------------------------------------------------------ small utils
const char kLower[] = "0123456789abcdef";

int hexval(unsigned char ch)
{
  if (ch >= '0' && ch <= '9')
    return ch - '0';
  if (ch >= 'a' && ch <= 'f')
    return ch - 'a' + 10;
  if (ch >= 'A' && ch <= 'F')
    return ch - 'A' + 10;
  return -1;
}
bool is_cspace(unsigned char ch)  // isspace() in the "C" locale
{
  return ch == ' ' || ch == '\t' || ch == '\n' || ch == '\v' || ch == '\f' || ch == '\r';
}
bool is_ows(unsigned char ch)  // HTTP optional whitespace
{
  return ch == ' ' || ch == '\t';
}
std::string trim(const std::string &s, bool (*sp)(unsigned char))
{
  size_t a = 0, b = s.size();
  while (a < b && sp(static_cast<unsigned char>(s[a])))
    ++a;
  while (b > a && sp(static_cast<unsigned char>(s[b - 1])))
    --b;
  return s.substr(a, b - a);
}
std::string hex_of(const uint8_t *p, size_t n)
{
  std::string s;
  for (size_t i = 0; i < n; ++i)
  {
    s.push_back(kLower[p[i] >> 4]);
    s.push_back(kLower[p[i] & 15]);
  }
  return s;
}
bool all_zero(const uint8_t *p, size_t n)
{
  for (size_t i = 0; i < n; ++i)
    if (p[i])
      return false;
  return true;
}

// the reference encoding of the statement: version 00, 32+16+2 lowercase hex digits, 55 characters
std::string ref_encode(const uint8_t *tid, const uint8_t *sid, uint8_t flags)
{
  return "00-" + hex_of(tid, 16) + "-" + hex_of(sid, 8) + "-" + hex_of(&flags, 1);
}

// ------------------------------------------------------------------------------- harness carrier
// Every header value lives in its own exact-size heap buffer WITHOUT a terminating NUL, so reading
// one byte past a header is an ASan report; destroying the carrier scribbles and frees them, so a
// view retained by the extracted context is a use-after-free report.
// In "guard page" cases (a fixed function of the case's length) Get() hands out a copy that ends exactly
// at an inaccessible page instead (vh_guard.h): an over-read by code ASan does not see is a SIGSEGV.
bool g_guard_mode = false;
void set_guard_mode(vh::Case &c)
{
  g_guard_mode = (c.rd.remaining() % 4) == 3;
  if (g_guard_mode)
    c.tag("carrier:values-end-at-a-guard-page");
}
class Carrier : public context::propagation::TextMapCarrier
{
public:
  explicit Carrier(bool null_when_absent = false) : null_when_absent_(null_when_absent) {}
  ~Carrier() override
  {
    for (auto &s : slots_)
    {
      std::memset(s.buf, 0xdd, s.n);
      delete[] s.buf;
    }
  }
  Carrier(const Carrier &)            = delete;
  Carrier &operator=(const Carrier &) = delete;

  void put(const std::string &key, const std::string &value)
  {
    char *b = new char[value.size()];
    std::memcpy(b, value.data(), value.size());
    std::shared_ptr<vh::GuardedBytes> g;
    if (g_guard_mode)
      g.reset(new vh::GuardedBytes(value));
    for (auto &s : slots_)
      if (s.key == key)
      {
        std::memset(s.buf, 0xdd, s.n);
        delete[] s.buf;
        s.buf   = b;
        s.n     = value.size();
        s.guard = g;
        return;
      }
    slots_.push_back(Slot{key, b, value.size(), g});
  }
  const std::string *find(const std::string &key, std::string *tmp) const
  {
    for (auto &s : slots_)
      if (s.key == key)
      {
        tmp->assign(s.buf, s.n);
        return tmp;
      }
    return nullptr;
  }
  size_t size() const { return slots_.size(); }

  nostd::string_view Get(nostd::string_view key) const noexcept override
  {
    std::string k(key.data(), key.size());
    for (auto &s : slots_)
      if (s.key == k)
        return s.guard ? nostd::string_view(s.guard->data(), s.guard->size()) : nostd::string_view(s.buf, s.n);
    return null_when_absent_ ? nostd::string_view() : nostd::string_view("");
  }
  void Set(nostd::string_view key, nostd::string_view value) noexcept override
  {
    std::string k(key.data(), key.size()), v(value.data(), value.size());
    sets.emplace_back(k, v);
    put(k, v);
  }

  List sets;  // every Set call, in order

private:
  struct Slot
  {
    std::string key;
    char *buf;
    size_t n;
    std::shared_ptr<vh::GuardedBytes> guard;
  };
  std::vector<Slot> slots_;
  bool null_when_absent_;
};

// ------------------------------------------------------------------------ tracestate (W3C level 1)
// C14 owns the tracestate grammar; C09 only needs "is this a list the propagator must carry
// verbatim" (strictly valid members) and the well-formedness of whatever comes out.
bool key_char(char ch)
{
  return (ch >= 'a' && ch <= 'z') || (ch >= '0' && ch <= '9') || ch == '_' || ch == '-' ||
         ch == '*' || ch == '/';
}
bool ident(const std::string &s, size_t max_len, bool digit_first_ok)
{
  if (s.empty() || s.size() > max_len)
    return false;
  bool lc = s[0] >= 'a' && s[0] <= 'z', dg = s[0] >= '0' && s[0] <= '9';
  if (!(lc || (digit_first_ok && dg)))
    return false;
  for (char ch : s)
    if (!key_char(ch))
      return false;
  return true;
}
bool key_valid(const std::string &k, bool lenient)
{
  size_t at = k.find('@');
  if (at == std::string::npos)
    return ident(k, 256, lenient);
  if (k.find('@', at + 1) != std::string::npos)
    return false;
  return ident(k.substr(0, at), 241, true) && ident(k.substr(at + 1), 14, lenient);
}
bool value_valid(const std::string &v)
{
  if (v.empty() || v.size() > 256)
    return false;
  for (unsigned char ch : v)
    if (ch < 0x20 || ch > 0x7e || ch == ',' || ch == '=')
      return false;
  return v.back() != ' ';
}
List entries(const trace::TraceState &ts)
{
  List l;
  ts.GetAllEntries([&l](nostd::string_view k, nostd::string_view v) {
    l.emplace_back(std::string(k.data(), k.size()), std::string(v.data(), v.size()));
    return true;
  });
  return l;
}
std::string header_of(const List &l)
{
  std::string h;
  for (size_t i = 0; i < l.size(); ++i)
  {
    if (i)
      h += ",";
    h += l[i].first + "=" + l[i].second;
  }
  return h;
}
std::string show_list(const List &l)
{
  std::string s = "[";
  for (size_t i = 0; i < l.size() && i < 34; ++i)
  {
    s += (i ? "," : "");
    s += vh::show(l[i].first.substr(0, 20)) + (l[i].first.size() > 20 ? "..(" + std::to_string(l[i].first.size()) + ")" : "");
    s += "=";
    s += vh::show(l[i].second.substr(0, 20)) + (l[i].second.size() > 20 ? "..(" + std::to_string(l[i].second.size()) + ")" : "");
  }
  return s + "]";
}
void check_state_wellformed(vh::Case &c, const List &l, const char *what)
{
  VH_CHECK(c, l.size() <= 32, what << ": trace state with " << l.size() << " members (limit 32)");
  for (auto &kv : l)
  {
    VH_CHECK(c, key_valid(kv.first, true), what << ": trace state holds invalid key '" << vh::show(kv.first) << "'");
    VH_CHECK(c, value_valid(kv.second), what << ": trace state holds invalid value '" << vh::show(kv.second) << "'");
  }
}

// The reading of a tracestate header that the W3C grammar fixes beyond doubt:
//   list = list-member 0*31( OWS "," OWS list-member ),  list-member = key "=" value / OWS
// `exact` when every member, after stripping SP / HTAB, is a strictly valid level-1 member, no key
// occurs twice and members plus empty members are at most 32 (whether empty members count towards
// the limit, repeated keys and digit-initial keys are C14's either-regions).  Everything else is
// not decided here (`exact` false): C14 owns the grammar, C09 then only compares with the parser.
struct RefState
{
  bool exact = false;
  List list;
  bool padded = false, empties = false;
};
RefState ref_state(const std::string &h)
{
  RefState r;
  size_t tokens = 0, i = 0;
  bool ok = true;
  while (i <= h.size())
  {
    size_t e = h.find(',', i);
    if (e == std::string::npos)
      e = h.size();
    ++tokens;
    std::string raw = h.substr(i, e - i), m = trim(raw, is_ows);
    if (m.size() != raw.size())
      r.padded = true;
    if (m.empty())
      r.empties = true;
    else
    {
      size_t eq = m.find('=');
      if (eq == std::string::npos)
        ok = false;
      else
      {
        std::string k = m.substr(0, eq), v = m.substr(eq + 1);
        if (!key_valid(k, false) || !value_valid(v))
          ok = false;
        for (auto &kv : r.list)
          if (kv.first == k)
            ok = false;
        r.list.emplace_back(k, v);
      }
    }
    i = e + 1;
  }
  r.exact = ok && tokens <= 32;
  return r;
}

// ---------------------------------------------------------------------------------- id generators
struct GenId
{
  uint8_t b[16];
  const char *cls;
};
// choice 0 is the simplest valid id (00..01); `allow_zero_pct` is the share of all-zero ids
GenId gen_id(vh::Reader &rd, size_t n, unsigned allow_zero_pct)
{
  GenId g;
  std::memset(g.b, 0, sizeof g.b);
  if (allow_zero_pct && rd.chance(allow_zero_pct))
  {
    g.cls = "zero";
    return g;
  }
  switch (rd.weighted({20, 35, 15, 10, 10, 10}))
  {
    case 0:
      g.b[n - 1] = 1;
      g.cls      = "one";
      break;
    case 1:
    {
      bool nz = false;
      for (size_t i = 0; i < n; ++i)
      {
        g.b[i] = rd.u8();
        nz     = nz || g.b[i];
      }
      if (!nz)
        g.b[n - 1] = 0x2a;
      g.cls = "random";
      break;
    }
    case 2:
    {
      // one non-zero byte: first / last / anywhere, value from the nibble boundaries
      static const uint8_t vals[] = {0x01, 0x10, 0x80, 0xff, 0x0a, 0xa0, 0x9f, 0xf9};
      size_t pos                  = rd.weighted({1, 1, 1}) == 0 ? 0 : (rd.coin() ? n - 1 : rd.below(static_cast<uint32_t>(n)));
      g.b[pos]                    = vals[rd.below(sizeof vals)];
      g.cls                       = "single-byte";
      break;
    }
    case 3:
      std::memset(g.b, 0xff, n);
      g.cls = "all-ff";
      break;
    case 4:
    {
      // every nibble a hex letter: the digits whose case matters
      static const uint8_t vals[] = {0xab, 0xcd, 0xef, 0xfa, 0xbc, 0xde, 0xaa, 0xff};
      for (size_t i = 0; i < n; ++i)
        g.b[i] = vals[rd.below(sizeof vals)];
      g.cls = "all-letters";
      break;
    }
    default:
    {
      // only the high bit / only the low bit
      if (rd.coin())
        g.b[0] = 0x80;
      else
        g.b[n - 1] = 0x01;
      g.b[rd.below(static_cast<uint32_t>(n))] |= 0x90;
      g.cls = "sparse";
      break;
    }
  }
  return g;
}

const char kKeyChars[] = "abcdefghijklmnopqrstuvwxyz0123456789_-*/";
const char kValChars[] = "!#$%&'()*+-./0123456789:;<>?@ABCXYZ[\\]^_`abcxyz{|}~\"";

std::string printable_value(vh::Reader &rd, size_t len)
{
  std::string s;
  for (size_t i = 0; i < len; ++i)
  {
    char ch = static_cast<char>(0x20 + rd.below(0x5f));
    if (ch == ',' || ch == '=')
      ch = ':';
    s.push_back(ch);
  }
  if (!s.empty() && s.front() == ' ')
    s.front() = '_';
  if (!s.empty() && s.back() == ' ')
    s.back() = '~';
  return s;
}

// a strictly valid (W3C level 1), duplicate free trace state of n members; key uniqueness comes
// from the member index embedded in every key
List gen_state(vh::Reader &rd, size_t n, bool *boundary)
{
  List l;
  for (size_t i = 0; i < n; ++i)
  {
    std::string idx = std::to_string(i), key, val;
    switch (rd.weighted({64, 9, 9, 9, 9}))
    {
      case 0:
        key = "k" + idx;
        break;
      case 1:
        key       = "k" + idx + "_";
        key += std::string(256 - key.size(), kKeyChars[rd.below(sizeof(kKeyChars) - 1)]);
        *boundary = true;
        break;
      case 2:
      {
        std::string t = "t" + idx + "-", s = "s" + idx;
        t += std::string(241 - t.size(), kKeyChars[rd.below(sizeof(kKeyChars) - 1)]);
        s += std::string(14 - s.size(), kKeyChars[rd.below(sizeof(kKeyChars) - 1)]);
        key       = t + "@" + s;
        *boundary = true;
        break;
      }
      case 3:
        key = std::to_string(rd.below(10)) + "t" + idx + "@v" + kKeyChars[rd.below(sizeof(kKeyChars) - 1)];
        break;
      default:
        key = "k" + idx + "_-*/" + kKeyChars[rd.below(sizeof(kKeyChars) - 1)];
        break;
    }
    switch (rd.weighted({60, 10, 10, 10, 10}))
    {
      case 0:
        val = std::to_string(rd.below(100));
        break;
      case 1:
        val       = std::string(256, kValChars[rd.below(sizeof(kValChars) - 1)]);
        *boundary = true;
        break;
      case 2:
        val = printable_value(rd, 1 + rd.below(12));
        break;
      case 3:
        val = std::string(1, kValChars[rd.below(sizeof(kValChars) - 1)]);
        break;
      default:
        val = "x  " + std::string(1, kValChars[rd.below(sizeof(kValChars) - 1)]) + " y";
        break;
    }
    l.emplace_back(key, val);
    // A list near the largest header the limits allow (32 members x (256 + '=' + 256) + 31 commas = 16447
    // bytes): when the first member of a list of 31 or more members drew a 256-character key AND a 256-character
    // value, every further member is of (almost) maximal length too.  No extra stream byte is read.
    if (i == 0 && n >= 31 && key.size() == 256 && val.size() == 256)
    {
      for (size_t j = 1; j < n; ++j)
      {
        std::string k2 = "k" + std::to_string(j) + "_";
        k2 += std::string(256 - (j % 2) - k2.size(), kKeyChars[j % (sizeof(kKeyChars) - 1)]);
        l.emplace_back(k2, std::string(256 - (j % 3 == 0 ? 1 : 0), kValChars[j % (sizeof(kValChars) - 1)]));
      }
      return l;
    }
  }
  return l;
}

// ---------------------------------------------------------------------------- caller's contexts
struct Caller
{
  context::Context ctx;
  nostd::shared_ptr<trace::Span> span;  // the span object stored in ctx (null when none)
  bool has_other = false;
  const char *cls;
};
Caller make_caller(unsigned kind)
{
  Caller k;
  static const uint8_t tid[16] = {0xca, 0x11, 0xe4, 0, 0, 0, 0, 0, 0, 0, 0, 0, 0, 0, 0, 0x01};
  static const uint8_t sid[8]  = {0xca, 0x11, 0xe4, 0, 0, 0, 0, 0x02};
  switch (kind & 3)
  {
    case 0:
      k.cls = "caller-empty";
      break;
    case 1:
      k.span = nostd::shared_ptr<trace::Span>(new trace::DefaultSpan(
          trace::SpanContext(trace::TraceId(tid), trace::SpanId(sid), trace::TraceFlags(1), false)));
      k.ctx = context::Context(trace::kSpanKey, k.span);
      k.cls = "caller-valid-span";
      break;
    case 2:
      k.span = nostd::shared_ptr<trace::Span>(new trace::DefaultSpan(trace::SpanContext::GetInvalid()));
      k.ctx  = context::Context(trace::kSpanKey, k.span);
      k.cls  = "caller-invalid-span";
      break;
    default:
    {
      k.span = nostd::shared_ptr<trace::Span>(new trace::DefaultSpan(
          trace::SpanContext(trace::TraceId(tid), trace::SpanId(sid), trace::TraceFlags(0), true)));
      context::Context base("c09-other", static_cast<int64_t>(4242));
      k.ctx       = base.SetValue(trace::kSpanKey, k.span);
      k.has_other = true;
      k.cls       = "caller-span+other-key";
      break;
    }
  }
  return k;
}

// ------------------------------------------------------------------- reference traceparent parser
// Written from the statement.  ACCEPT: W3C level-1 form, possibly surrounded by HTTP optional
// whitespace (SP / HTAB; the repository documents "trace_parent after trimming the leading and
// trailing whitespaces").  EITHER: the same shape "up to hex-digit case and surrounding
// whitespace" (upper-case digits, other C-locale blanks), or a higher-version tail holding bytes
// that cannot occur in a header field.  REJECT: everything else.
enum Verdict
{
  kAccept,
  kEither,
  kReject
};
struct Ref
{
  Verdict verdict = kReject;
  const char *why  = "";
  uint8_t tid[16]{};
  uint8_t sid[8]{};
  uint8_t flags   = 0;
  uint8_t version = 0;
  bool upper = false, ows = false, odd_ws = false, odd_tail = false, tail = false;
};
Ref reject(const char *why)
{
  Ref r;
  r.verdict = kReject;
  r.why     = why;
  return r;
}
Ref ref_parse(const std::string &raw)
{
  std::string s = trim(raw, is_cspace);
  Ref r;
  r.ows    = s.size() != raw.size();
  r.odd_ws = trim(raw, is_ows) != s;
  if (s.empty())
    return reject("empty");
  if (s.size() < 55)
    return reject("short");
  if (s[2] != '-' || s[35] != '-' || s[52] != '-')
    return reject("separator");
  static const size_t field[4][2] = {{0, 2}, {3, 35}, {36, 52}, {53, 55}};
  for (auto &f : field)
    for (size_t i = f[0]; i < f[1]; ++i)
    {
      unsigned char ch = static_cast<unsigned char>(s[i]);
      if (hexval(ch) < 0)
        return reject("non-hex");
      if (ch >= 'A' && ch <= 'F')
        r.upper = true;
    }
  r.version = static_cast<uint8_t>(hexval(s[0]) * 16 + hexval(s[1]));
  if (r.version == 0xff)
    return reject("version-ff");
  if (r.version == 0)
  {
    if (s.size() != 55)
      return reject("v00-length");
  }
  else if (s.size() > 55)
  {
    if (s[55] != '-')
      return reject("tail-without-dash");
    r.tail = true;
    for (size_t i = 56; i < s.size(); ++i)
    {
      unsigned char ch = static_cast<unsigned char>(s[i]);
      if (ch < 0x21 || ch > 0x7e)
        r.odd_tail = true;
    }
  }
  for (size_t i = 0; i < 16; ++i)
    r.tid[i] = static_cast<uint8_t>(hexval(s[3 + 2 * i]) * 16 + hexval(s[4 + 2 * i]));
  for (size_t i = 0; i < 8; ++i)
    r.sid[i] = static_cast<uint8_t>(hexval(s[36 + 2 * i]) * 16 + hexval(s[37 + 2 * i]));
  r.flags = static_cast<uint8_t>(hexval(s[53]) * 16 + hexval(s[54]));
  if (all_zero(r.tid, 16))
    return reject("zero-trace-id");
  if (all_zero(r.sid, 8))
    return reject("zero-span-id");
  r.verdict = (r.upper || r.odd_ws || r.odd_tail) ? kEither : kAccept;
  r.why     = "";
  return r;
}

// Least number of single character edits (insert / delete / replace) that turn `s` into a member
// of the shape language  2HEX "-" 32HEX "-" 16HEX "-" 2HEX [ "-" any* ]; capped.
unsigned shape_distance(const std::string &s)
{
  // A banded computation (|i - j| <= 3) is exact for every distance <= 3, which is all that the
  // "within 2 edits" rule needs; anything farther away is reported as `cap`.
  const size_t P = 55, W = 3;
  const unsigned cap = 9;
  if (s.size() + W < P)
    return cap;
  size_t m = std::min(s.size(), P + W);
  static const unsigned char kDash[56] = {0, 0, 1, 0, 0, 0, 0, 0, 0, 0, 0, 0, 0, 0, 0, 0, 0, 0, 0, 0, 0, 0, 0, 0, 0, 0, 0, 0,
                                          0, 0, 0, 0, 0, 0, 0, 1, 0, 0, 0, 0, 0, 0, 0, 0, 0, 0, 0, 0, 0, 0, 0, 0, 1, 0, 0, 0};
  unsigned prev[P + W + 2], cur[P + W + 2];
  for (size_t i = 0; i <= m; ++i)
    prev[i] = i <= W ? static_cast<unsigned>(i) : cap;
  for (size_t j = 1; j <= P; ++j)
  {
    size_t lo = j > W ? j - W : 0, hi = std::min(m, j + W);
    for (size_t i = 0; i <= m; ++i)
      cur[i] = cap;
    if (lo == 0)
      cur[0] = static_cast<unsigned>(j);
    for (size_t i = std::max<size_t>(lo, 1); i <= hi; ++i)
    {
      unsigned char ch = static_cast<unsigned char>(s[i - 1]);
      bool ok          = kDash[j - 1] ? ch == '-' : hexval(ch) >= 0;
      unsigned best    = prev[i - 1] + (ok ? 0u : 1u);
      best             = std::min(best, prev[i] + 1);
      best             = std::min(best, cur[i - 1] + 1);
      cur[i]           = std::min(best, cap);
    }
    std::memcpy(prev, cur, sizeof(unsigned) * (m + 1));
  }
  unsigned best = cap;
  for (size_t i = P > W ? P - W : 0; i <= m; ++i)
  {
    unsigned tail = (i == s.size() || s[i] == '-') ? 0 : 1;
    best          = std::min(best, prev[i] + tail);
  }
  return best;
}

// ------------------------------------------------------------------------------- extract oracle
struct ExtractIn
{
  bool tp_present = true;
  std::string tp;
  bool ts_present = false;
  std::string ts;
  const List *ts_list = nullptr;  // set when `ts` is the header of a strictly valid list
  unsigned caller_kind = 0;
  bool null_when_absent = false;
};

void check_extract(vh::Case &c, const ExtractIn &in)
{
  // the reference trimming (is_cspace) is isspace() of the "C" locale, which is what a program that
  // never calls setlocale runs in; under another LC_CTYPE the pads 0x85 / 0xa0 could be blanks
  static const bool c_locale = [] {
    const char *l = std::setlocale(LC_CTYPE, nullptr);
    return l && (std::strcmp(l, "C") == 0 || std::strcmp(l, "POSIX") == 0);
  }();
  VH_CHECK(c, c_locale, "harness precondition: LC_CTYPE is not the C locale");
  Ref r = in.tp_present ? ref_parse(in.tp) : reject("absent");
  Caller caller = make_caller(in.caller_kind);
  // State carried between calls: the caller's context already holds a span with the SAME trace id, span id and
  // flags as the header about to be extracted - but local and with another trace state (the same request seen
  // twice, Inject followed by Extract on one context).  SpanContext::operator== ignores is_remote and the trace
  // state, so an Extract that "recognises" the context must still install the remote one.  Decided from the
  // header's own bytes, no stream byte is read.  (Seeded C09-m11.)
  if ((in.caller_kind & 3) == 1 && r.verdict == kAccept && (r.tid[15] & 1))
  {
    caller.span = nostd::shared_ptr<trace::Span>(new trace::DefaultSpan(
        trace::SpanContext(trace::TraceId(r.tid), trace::SpanId(r.sid), trace::TraceFlags(r.flags), false,
                           trace::TraceState::FromHeader("stale=1"))));
    caller.ctx = context::Context(trace::kSpanKey, caller.span);
    caller.cls = "caller-same-identity-local-span";
  }
  c.tag(caller.cls);

  std::unique_ptr<Carrier> carrier(new Carrier(in.null_when_absent));
  carrier->put("x-c09-unrelated", "00-11111111111111111111111111111111-2222222222222222-01");
  if (in.tp_present)
    carrier->put("traceparent", in.tp);
  if (in.ts_present)
    carrier->put("tracestate", in.ts);
  size_t slots_before = carrier->size();
  HttpTraceContext prop;
  context::Context out = prop.Extract(*carrier, caller.ctx);
  VH_CHECK(c, carrier->sets.empty() && carrier->size() == slots_before, "Extract wrote to the carrier");
  carrier.reset();  // all header storage is scribbled and freed: retained views dangle from here on

  bool installed   = !(out == caller.ctx);
  bool state_empty = true;
  RefState rs;  // the independent reading of in.ts (filled when a context was installed)
  nostd::shared_ptr<trace::Span> span = trace::GetSpan(out);
  VH_CHECK(c, span.get() != nullptr, "GetSpan(returned context) is null");
  trace::SpanContext sc = span->GetContext();

  // the caller's own context object is a value: it still holds what it held
  if (caller.span)
    VH_CHECK(c, trace::GetSpan(caller.ctx).get() == caller.span.get(), "Extract changed the caller's context object");
  else
    VH_CHECK(c, !caller.ctx.HasKey(trace::kSpanKey), "Extract put a span into the caller's (empty) context object");

  std::string shown = in.tp_present ? "'" + vh::show(in.tp.substr(0, 200)) + "'" : std::string("<absent>");
  if (!installed)
  {
    if (caller.span)
      VH_CHECK(c, span.get() == caller.span.get(), "context returned as equal but its span differs");
    else
      VH_CHECK(c, !sc.IsValid(), "empty caller context returned, yet it yields a valid span context");
    VH_CHECK(c, r.verdict != kAccept, "well-formed traceparent " << shown << " was not extracted (the caller's context came back)");
  }
  else
  {
    VH_CHECK(c, r.verdict != kReject, "traceparent " << shown << " is malformed (" << r.why
                                                     << ") but a new context was installed: trace_id="
                                                     << hex_of(sc.trace_id().Id().data(), 16)
                                                     << " span_id=" << hex_of(sc.span_id().Id().data(), 8)
                                                     << " valid=" << sc.IsValid());
    VH_CHECK(c, sc.IsValid(), "an invalid span context was installed for " << shown);
    VH_CHECK(c, sc.IsRemote(), "the extracted span context is not marked remote for " << shown);
    VH_CHECK(c, std::memcmp(sc.trace_id().Id().data(), r.tid, 16) == 0,
             "trace id " << hex_of(sc.trace_id().Id().data(), 16) << " extracted from " << shown
                         << ", encoded " << hex_of(r.tid, 16));
    VH_CHECK(c, std::memcmp(sc.span_id().Id().data(), r.sid, 8) == 0,
             "span id " << hex_of(sc.span_id().Id().data(), 8) << " extracted from " << shown << ", encoded "
                        << hex_of(r.sid, 8));
    VH_CHECK(c, sc.trace_flags().flags() == r.flags, "flags byte " << int(sc.trace_flags().flags())
                                                                   << " extracted from " << shown
                                                                   << ", encoded " << int(r.flags));
    // trace state
    VH_CHECK(c, sc.trace_state().get() != nullptr, "extracted span context has a null trace state");
    List got = entries(*sc.trace_state());
    check_state_wellformed(c, got, "extracted context");
    if (in.ts_present && !in.ts_list)
      rs = ref_state(in.ts);
    if (!in.ts_present)
      VH_CHECK(c, got.empty(), "no tracestate header, yet the extracted trace state is " << show_list(got));
    else if (in.ts_list)
      VH_CHECK(c, got == *in.ts_list, "tracestate '" << vh::show(in.ts.substr(0, 200)) << "' extracted as "
                                                     << show_list(got) << ", expected " << show_list(*in.ts_list));
    else if (rs.exact)
      // a W3C-valid header whatever produced it (raw bytes, padded rendering): its members, in order
      VH_CHECK(c, got == rs.list, "tracestate '" << vh::show(in.ts.substr(0, 200)) << "' is a valid W3C list; extracted as "
                                                 << show_list(got) << ", expected " << show_list(rs.list));
    else
    {
      // any other bytes: what the tracestate parser itself makes of them (C14 decides whether that
      // is right), before or after trimming the header value
      List direct = entries(*trace::TraceState::FromHeader(in.ts));
      bool same   = got == direct;
      if (!same)
        same = got == entries(*trace::TraceState::FromHeader(trim(in.ts, is_ows))) ||
               got == entries(*trace::TraceState::FromHeader(trim(in.ts, is_cspace)));
      VH_CHECK(c, same, "tracestate '" << vh::show(in.ts.substr(0, 200)) << "' extracted as " << show_list(got)
                                       << " but TraceState::FromHeader gives " << show_list(direct));
    }
    state_empty = got.empty();
    // the rest of the caller's context is still there
    if (caller.has_other)
    {
      context::ContextValue v = out.GetValue("c09-other");
      VH_CHECK(c, nostd::holds_alternative<int64_t>(v) && nostd::get<int64_t>(v) == 4242,
               "the returned context lost the caller's other entries");
    }
    // Extract -> Inject: a valid span context is written in exactly the level-1 form
    Carrier again;
    prop.Inject(again, out);
    std::string tmp;
    const std::string *tp2 = again.find("traceparent", &tmp);
    VH_CHECK(c, tp2 != nullptr, "re-injecting the extracted context wrote no traceparent");
    std::string want = ref_encode(r.tid, r.sid, r.flags);
    VH_CHECK(c, *tp2 == want, "re-injecting the context extracted from " << shown << " wrote '" << vh::show(*tp2)
                                                                         << "', expected '" << want << "'");
    std::string tmp2;
    const std::string *ts2 = again.find("tracestate", &tmp2);
    if (got.empty())
      VH_CHECK(c, ts2 == nullptr, "re-injecting an empty trace state wrote tracestate '" << vh::show(*ts2) << "'");
    else
      VH_CHECK(c, ts2 != nullptr && *ts2 == header_of(got), "re-injected tracestate is '"
                                                                 << (ts2 ? vh::show(ts2->substr(0, 200)) : "<absent>")
                                                                 << "', expected '" << vh::show(header_of(got).substr(0, 200)) << "'");
  }

  // ---- classes
  switch (r.verdict)
  {
    case kAccept:
      c.tag(r.ows ? "tp-accept-ows" : "tp-accept-strict");
      if (r.version)
        c.tag(r.tail ? "tp-accept-higher-version-tail" : "tp-accept-higher-version");
      break;
    case kEither:
      if (r.upper)
        c.tag("tp-either-uppercase");
      if (r.odd_ws)
        c.tag("tp-either-other-blank");
      if (r.odd_tail)
        c.tag("tp-either-odd-tail");
      c.tag(installed ? "tp-either-taken" : "tp-either-refused");
      break;
    default:
      c.tag(std::string("tp-reject-") + r.why);
      break;
  }
  if (installed)
  {
    if (!in.ts_present)
      c.tag("ts-absent");
    else if (in.ts_list)
    {
      c.tag(in.ts_list->size() >= 31 ? "ts-valid-31/32" : (in.ts_list->size() >= 4 ? "ts-valid-4..30" : "ts-valid"));
      if (in.ts != header_of(*in.ts_list))
        c.tag("ts-valid-padded/empty-members");
    }
    else if (rs.exact)
    {
      c.tag(rs.list.empty() ? "ts-w3c-valid-memberless" : "ts-w3c-valid(reference-reading)");
      if (rs.padded && !rs.list.empty())
        c.tag("ts-w3c-valid-ows-padded");
      if (rs.empties && !rs.list.empty())
        c.tag("ts-w3c-valid-empty-members");
    }
    else
      c.tag(state_empty ? "ts-other-empty-result" : "ts-other-parsed");
  }
  unsigned dist = r.verdict != kReject ? 0 : (in.tp_present ? shape_distance(trim(in.tp, is_cspace)) : 9);
  if (r.verdict == kReject && dist <= 2)
    c.tag("tp-reject-within-2-edits");
  c.nontrivial = r.verdict != kReject || dist <= 2;
}

}  // namespace

// ================================================================================================
VH_TARGET(w3c_inject, 3,
          "a case is non-trivial when it goes beyond the literals of the unit tests: a flags byte "
          "other than 00/01, a non-empty trace state, a carrier that already holds the headers of an "
          "earlier injection by the same propagator (the context injected last must come back), or "
          "an invalid context (nothing may be injected); distinct = distinct (ids, flags, remote, "
          "trace state, carrier/caller shape, earlier trace state)")
{
  set_guard_mode(c);
  vh::Reader &rd = c.rd;
  HttpTraceContext prop;

  // ---- invalid contexts: nothing is injected
  if (rd.chance(15))
  {
    unsigned kind = rd.below(5);
    GenId t = gen_id(rd, 16, 0), s = gen_id(rd, 8, 0);
    uint8_t flags = rd.u8();
    context::Context ctx;
    const char *cls = "";
    switch (kind)
    {
      case 0:
        cls = "invalid-empty-context";
        break;
      case 1:
        std::memset(t.b, 0, 16);
        cls = "invalid-zero-trace-id";
        break;
      case 2:
        std::memset(s.b, 0, 8);
        cls = "invalid-zero-span-id";
        break;
      case 3:
        std::memset(t.b, 0, 16);
        std::memset(s.b, 0, 8);
        cls = "invalid-both-zero";
        break;
      default:
        cls = "invalid-span-key-holds-no-span";
        break;
    }
    bool with_state = rd.coin();
    if (kind >= 1 && kind <= 3)
    {
      auto ts = with_state ? trace::TraceState::FromHeader("k0=1,k1=2") : trace::TraceState::GetDefault();
      ctx     = context::Context(
          trace::kSpanKey,
          nostd::shared_ptr<trace::Span>(new trace::DefaultSpan(trace::SpanContext(
              trace::TraceId(nostd::span<const uint8_t, 16>(t.b, 16)),
              trace::SpanId(nostd::span<const uint8_t, 8>(s.b, 8)), trace::TraceFlags(flags), rd.coin(), ts))));
    }
    else if (kind == 4)
      ctx = context::Context(trace::kSpanKey, static_cast<int64_t>(7));
    bool prefilled = rd.coin();
    Carrier carrier;
    if (prefilled)
    {
      carrier.put("traceparent", "00-0af7651916cd43dd8448eb211c80319c-b9c7c989f97918e1-01");
      carrier.put("x-other", "1");
    }
    c.note(std::string(cls) + " trace_id=" + hex_of(t.b, 16) + " span_id=" + hex_of(s.b, 8) + " flags=" +
           hex_of(&flags, 1) + (with_state ? " state" : "") + (prefilled ? " prefilled-carrier" : "") + "\n");
    c.tag(cls);
    c.nontrivial = true;
    prop.Inject(carrier, ctx);
    VH_CHECK(c, carrier.sets.empty(), "an invalid span context (" << cls << ") was injected: " << carrier.sets[0].first
                                                                  << "='" << vh::show(carrier.sets[0].second) << "'");
    VH_CHECK(c, carrier.size() == (prefilled ? 2u : 0u), "Inject of an invalid context changed the carrier");
    return;
  }

  // ---- valid contexts
  GenId t = gen_id(rd, 16, 0), s = gen_id(rd, 8, 0);
  uint8_t flags = rd.u8();
  bool remote   = rd.coin();
  unsigned caller_kind = rd.below(4);
  bool extra_header    = rd.coin();
  bool null_absent     = rd.coin();
  bool sweep           = rd.chance(4);
  size_t n      = 0;
  switch (rd.weighted({35, 30, 10, 25}))
  {
    case 0:
      n = 0;
      break;
    case 1:
      n = 1 + rd.below(3);
      break;
    case 2:
      n = 4 + rd.below(27);
      break;
    default:
      n = 31 + rd.below(2);
      break;
  }
  bool boundary = false;
  List state    = gen_state(rd, n, &boundary);

  c.note("trace_id=" + hex_of(t.b, 16) + " span_id=" + hex_of(s.b, 8) + " flags=" + hex_of(&flags, 1) +
         (remote ? " remote" : " local") + " state(" + std::to_string(state.size()) + ")=" + show_list(state) +
         " caller=" + std::to_string(caller_kind) + (extra_header ? " extra-header" : "") + "\n");
  c.tag(std::string("trace-id-") + t.cls);
  c.tag(std::string("span-id-") + s.cls);
  bool letter = (flags >> 4) >= 10 || (flags & 15) >= 10;
  c.tag(flags <= 1 ? "flags-00/01" : (letter ? "flags-with-hex-letter" : "flags-other-digits-only"));
  c.tag(n == 0 ? "state-0" : (n <= 3 ? "state-1..3" : (n <= 30 ? "state-4..30" : "state-31/32")));
  if (boundary)
    c.tag("state-boundary-lengths");
  c.nontrivial = flags > 1 || n > 0;

  nostd::shared_ptr<trace::TraceState> ts;
  if (state.empty() && rd.coin())
    ts = trace::TraceState::GetDefault();
  else
  {
    std::string h = header_of(state);
    std::string buf = "\x01" + h + "\x01";
    ts = trace::TraceState::FromHeader(nostd::string_view(buf.data() + 1, h.size()));
    std::fill(buf.begin(), buf.end(), '\xdd');
  }
  // generator precondition (the grammar itself is C14's subject)
  VH_CHECK(c, entries(*ts) == state, "a strictly valid trace state of " << state.size()
                                                                        << " members was not accepted by FromHeader: "
                                                                        << show_list(entries(*ts)) << " from " << show_list(state));
  std::string state_header = ts->ToHeader();
  VH_CHECK(c, state_header == header_of(state), "ToHeader gives '" << vh::show(state_header.substr(0, 200))
                                                                   << "' for " << show_list(state));

  context::Context ctx;
  {
    trace::SpanContext sc(trace::TraceId(nostd::span<const uint8_t, 16>(t.b, 16)),
                          trace::SpanId(nostd::span<const uint8_t, 8>(s.b, 8)), trace::TraceFlags(flags), remote, ts);
    ctx = context::Context(trace::kSpanKey, nostd::shared_ptr<trace::Span>(new trace::DefaultSpan(sc)));
  }
  ts = nostd::shared_ptr<trace::TraceState>();

  // ---- the carrier: fresh, or a header map that served an earlier request - the SAME propagator
  // has already injected another valid context into it (other ids, other flags, its own trace
  // state).  "Injecting ... and extracting those headers" must give the context injected LAST.
  // (late draws: an exhausted stream gives the fresh carrier)
  size_t reuse = rd.weighted({62, 14, 12, 6, 6});
  List earlier_state;
  bool earlier_boundary = false;
  switch (reuse)
  {
    case 0:
      break;
    case 1:  // the earlier context had no trace state
      break;
    case 2:  // foreign members under keys the new state cannot hold
      earlier_state = {{"old0", "stale"}, {"zz@old", "x y"}};
      break;
    case 3:  // generated: the same keys k0, k1, ... as the new state, other values
      earlier_state = gen_state(rd, 1 + rd.below(3), &earlier_boundary);
      for (auto &kv : earlier_state)
        kv.second = "E" + kv.second.substr(0, 200);
      break;
    default:  // a full list
      earlier_state = gen_state(rd, 32, &earlier_boundary);
      for (auto &kv : earlier_state)
        kv.second = "E" + kv.second.substr(0, 200);
      break;
  }
  // C09-stale-tracestate (see kHoldBack_stale_tracestate above): the earlier injection left a
  // tracestate header and the context injected now has an empty trace state
  if (!earlier_state.empty() && state.empty() &&
      (kHoldBack_stale_tracestate || vh::excluded(kIdStaleTraceState)))
  {
    vh::count_excluded(kIdStaleTraceState);
    earlier_state.clear();  // re-shaped: the earlier context had no trace state either
    reuse = 1;
  }
  static const char *const kReuseCls[] = {"carrier-fresh", "carrier-reused(earlier-state-empty)",
                                          "carrier-reused(earlier-state-foreign-keys)",
                                          "carrier-reused(earlier-state-same-keys)", "carrier-reused(earlier-state-32)"};
  c.tag(kReuseCls[reuse]);
  if (reuse)
  {
    c.tag(state.empty() ? (earlier_state.empty() ? "reused:empty-after-empty" : "reused:empty-after-state")
                        : (earlier_state.empty() ? "reused:state-after-empty" : "reused:state-after-state"));
    c.note("reused-carrier earlier-state(" + std::to_string(earlier_state.size()) + ")=" + show_list(earlier_state) + "\n");
    c.nontrivial = true;
  }

  std::unique_ptr<Carrier> carrier(new Carrier(null_absent));
  if (extra_header)
    carrier->put("x-other", "keep");
  if (reuse)
  {
    uint8_t ot[16], os[8];
    for (size_t i = 0; i < 16; ++i)
      ot[i] = static_cast<uint8_t>(~t.b[i]);
    for (size_t i = 0; i < 8; ++i)
      os[i] = static_cast<uint8_t>(~s.b[i]);
    ot[15] |= 1;  // valid whatever t and s are
    os[7] |= 1;
    std::string eh = header_of(earlier_state);
    trace::SpanContext osc(trace::TraceId(nostd::span<const uint8_t, 16>(ot, 16)),
                           trace::SpanId(nostd::span<const uint8_t, 8>(os, 8)),
                           trace::TraceFlags(static_cast<uint8_t>(~flags)), !remote,
                           earlier_state.empty() ? trace::TraceState::GetDefault() : trace::TraceState::FromHeader(eh));
    context::Context earlier(trace::kSpanKey, nostd::shared_ptr<trace::Span>(new trace::DefaultSpan(osc)));
    prop.Inject(*carrier, earlier);
    std::string e1, e2;
    const std::string *etp = carrier->find("traceparent", &e1), *ets = carrier->find("tracestate", &e2);
    uint8_t of = static_cast<uint8_t>(~flags);
    VH_CHECK(c, etp && *etp == ref_encode(ot, os, of), "the earlier injection wrote traceparent '"
                                                          << (etp ? vh::show(*etp) : "<absent>") << "', expected '"
                                                          << ref_encode(ot, os, of) << "'");
    VH_CHECK(c, earlier_state.empty() ? ets == nullptr : (ets && *ets == eh),
             "the earlier injection wrote tracestate '" << (ets ? vh::show(ets->substr(0, 200)) : "<absent>")
                                                        << "', expected '" << vh::show(eh.substr(0, 200)) << "'");
  }
  const size_t sets_before = carrier->sets.size();
  prop.Inject(*carrier, ctx);

  // --- what was written (by the injection of the case's context)
  std::string want = ref_encode(t.b, s.b, flags);
  size_t n_tp = 0, n_ts = 0;
  std::vector<std::string> fields;
  static_cast<context::propagation::TextMapPropagator &>(prop).Fields([&fields](nostd::string_view f) {
    fields.emplace_back(f.data(), f.size());
    return true;
  });
  for (size_t i = sets_before; i < carrier->sets.size(); ++i)
  {
    auto &kv = carrier->sets[i];
    if (kv.first == "traceparent")
      ++n_tp;
    else if (kv.first == "tracestate")
      ++n_ts;
    else
      VH_CHECK(c, false, "Inject wrote an unexpected header '" << vh::show(kv.first) << "'");
    // text_map_propagator.h: Fields() "Gets the fields set in the carrier by the `inject` method"
    VH_CHECK(c, std::find(fields.begin(), fields.end(), kv.first) != fields.end(),
             "Inject wrote the header '" << vh::show(kv.first) << "', which Fields() does not list");
  }
  VH_CHECK(c, n_tp == 1, "Inject of a valid context wrote traceparent " << n_tp << " times");
  std::string tmp, tmp2;
  const std::string *tp = carrier->find("traceparent", &tmp);
  VH_CHECK(c, tp != nullptr, "no traceparent in the carrier");
  VH_CHECK(c, tp->size() == 55, "traceparent '" << vh::show(*tp) << "' has " << tp->size() << " characters");
  for (size_t i = 0; i < tp->size(); ++i)
  {
    char ch   = (*tp)[i];
    bool dash = i == 2 || i == 35 || i == 52;
    VH_CHECK(c, dash ? ch == '-' : ((ch >= '0' && ch <= '9') || (ch >= 'a' && ch <= 'f')),
             "traceparent '" << vh::show(*tp) << "': character " << i << " ('" << vh::show(std::string(1, ch))
                             << "') is not " << (dash ? "'-'" : "a lowercase hex digit") << " (flags byte 0x"
                             << hex_of(&flags, 1) << ")");
  }
  VH_CHECK(c, *tp == want, "traceparent '" << vh::show(*tp) << "', expected '" << want << "'");
  const std::string *tsh = carrier->find("tracestate", &tmp2);
  if (state.empty() && !reuse)
    VH_CHECK(c, n_ts == 0 && tsh == nullptr, "empty trace state, yet tracestate '" << (tsh ? vh::show(*tsh) : "") << "' was written");
  else if (state.empty())
  {
    // a reused carrier: the statement only fixes what the headers must read back as (below).  A
    // TextMapCarrier has no erase, so a propagator may write nothing (nothing to replace) or
    // overwrite the old value with a list without members (W3C: "vendors MUST accept empty
    // tracestate headers") - never with members.
    auto memberless = [](const std::string &v) {
      for (char ch : v)
        if (ch != ',' && ch != ' ' && ch != '\t')
          return false;
      return true;
    };
    VH_CHECK(c, n_ts <= 1, "empty trace state, tracestate written " << n_ts << " times");
    for (size_t i = sets_before; i < carrier->sets.size(); ++i)
      if (carrier->sets[i].first == "tracestate")
        VH_CHECK(c, memberless(carrier->sets[i].second), "empty trace state, yet tracestate '"
                                                              << vh::show(carrier->sets[i].second.substr(0, 200)) << "' was written");
    // whether the carrier now reads back as the new context is decided by the round trip below
  }
  else
  {
    VH_CHECK(c, n_ts == 1 && tsh != nullptr, "trace state of " << state.size() << " members, tracestate written " << n_ts << " times");
    VH_CHECK(c, *tsh == header_of(state), "tracestate '" << vh::show(tsh->substr(0, 300)) << "', expected '"
                                                         << vh::show(header_of(state).substr(0, 300)) << "'");
  }
  if (extra_header)
  {
    std::string t3;
    const std::string *x = carrier->find("x-other", &t3);
    VH_CHECK(c, x && *x == "keep", "Inject touched an unrelated header");
  }

  // --- and back
  Caller caller = make_caller(caller_kind);
  context::Context out = prop.Extract(*carrier, caller.ctx);
  carrier.reset();
  ctx = context::Context();  // the injected context is gone as well
  VH_CHECK(c, !(out == caller.ctx), "extracting the injected headers ('" << want << "') returned the caller's context");
  trace::SpanContext got = trace::GetSpan(out)->GetContext();
  VH_CHECK(c, got.IsValid() && got.IsRemote(), "extracted context valid=" << got.IsValid() << " remote=" << got.IsRemote());
  VH_CHECK(c, std::memcmp(got.trace_id().Id().data(), t.b, 16) == 0,
           "trace id came back as " << hex_of(got.trace_id().Id().data(), 16) << ", injected " << hex_of(t.b, 16));
  VH_CHECK(c, std::memcmp(got.span_id().Id().data(), s.b, 8) == 0,
           "span id came back as " << hex_of(got.span_id().Id().data(), 8) << ", injected " << hex_of(s.b, 8));
  VH_CHECK(c, got.trace_flags().flags() == flags, "flags byte came back as " << int(got.trace_flags().flags()) << ", injected " << int(flags));
  VH_CHECK(c, got.trace_state().get() != nullptr, "extracted span context has a null trace state");
  List back = entries(*got.trace_state());
  VH_CHECK(c, back == state, "trace state came back as " << show_list(back) << ", injected " << show_list(state)
                                                         << (reuse ? " (into a carrier that held the headers of an earlier injection by the same "
                                                                     "propagator, trace state " + show_list(earlier_state) + ")"
                                                                   : std::string()));
  if (caller.span)
    VH_CHECK(c, trace::GetSpan(caller.ctx).get() == caller.span.get(), "Extract changed the caller's context object");
  if (caller.has_other)
    VH_CHECK(c, out.HasKey("c09-other"), "the returned context lost the caller's other entries");

  // --- now and then: the same ids with every one of the 256 flag bytes
  if (sweep)
  {
    c.tag("flags-sweep-all-256");
    for (unsigned f = 0; f < 256; ++f)
    {
      uint8_t fb = static_cast<uint8_t>(f);
      trace::SpanContext sc(trace::TraceId(nostd::span<const uint8_t, 16>(t.b, 16)),
                            trace::SpanId(nostd::span<const uint8_t, 8>(s.b, 8)), trace::TraceFlags(fb), remote);
      context::Context cx(trace::kSpanKey, nostd::shared_ptr<trace::Span>(new trace::DefaultSpan(sc)));
      Carrier car;
      prop.Inject(car, cx);
      std::string w = ref_encode(t.b, s.b, fb), tmp3;
      const std::string *p = car.find("traceparent", &tmp3);
      VH_CHECK(c, p && *p == w && car.sets.size() == 1, "flags byte 0x" << hex_of(&fb, 1) << ": traceparent '"
                                                                        << (p ? vh::show(*p) : "<absent>")
                                                                        << "', expected '" << w << "'");
      context::Context empty;
      trace::SpanContext g = trace::GetSpan(prop.Extract(car, empty))->GetContext();
      VH_CHECK(c, g.IsValid() && g.IsRemote() && g.trace_flags().flags() == fb &&
                      std::memcmp(g.trace_id().Id().data(), t.b, 16) == 0 &&
                      std::memcmp(g.span_id().Id().data(), s.b, 8) == 0,
               "flags byte 0x" << hex_of(&fb, 1) << " did not survive the round trip: got flags "
                               << int(g.trace_flags().flags()) << " valid=" << g.IsValid());
    }
  }
}

// ================================================================================================
namespace
{
const char *kGarbageStates[] = {
    "",        ",",          "a",      "=",         "a=1,a=2", "A=1",        " a=1 , b=2 ", "a=1,,b=2",
    "a=1,b",   "a@b@c=1",    "a=\x01", "a=1;b=2",   "a==1",    "a=1,\xff=2", "a =1",        "a=1,b=2,",
    "1a=x",    "a=1\x00,b=2", "a= 1",   "a=1 ",      "\t",      "a=1\n",      "k=v,=",       "a=1, ,b=2"};

struct GenState
{
  bool present = false;
  std::string header;
  List list;
  bool exact = false;  // `header` is the header of the strictly valid `list`
};
GenState gen_extract_state(vh::Reader &rd)
{
  GenState g;
  switch (rd.weighted({38, 32, 3, 2, 16, 9, 9, 4}))
  {
    case 0:
      break;
    case 6:
    {
      // a strictly valid list rendered the way the W3C grammar also allows: SP / HTAB around the
      // members ("OWS , OWS") and empty members in between, in front and behind; members plus
      // empty members stay within 32
      bool b;
      static const char *const kPad[] = {"", " ", "\t", "  ", " \t ", "\t\t"};
      size_t n     = rd.weighted({3, 1}) == 0 ? 1 + rd.below(3) : 26 + rd.below(6);  // 1..3 or 26..31
      size_t room  = 32 - n;
      g.present    = true;
      g.list       = gen_state(rd, n, &b);
      g.exact      = true;
      auto empties = [&](std::string &h) {
        while (room > 0 && rd.chance(22))
        {
          h += std::string(kPad[rd.below(4)]) + ",";
          --room;
        }
      };
      empties(g.header);
      for (size_t i = 0; i < n; ++i)
      {
        if (i)
        {
          g.header += ",";
          empties(g.header);
        }
        g.header += kPad[rd.weighted({3, 2, 2, 1, 1, 1})] + g.list[i].first + "=" + g.list[i].second +
                    kPad[rd.weighted({3, 2, 2, 1, 1, 1})];
      }
      while (room > 0 && rd.chance(22))
      {
        g.header += std::string(",") + kPad[rd.below(4)];
        --room;
      }
      break;
    }
    case 7:
    {
      bool b;
      g.present = true;
      g.list    = gen_state(rd, 4 + rd.below(27), &b);
      g.header  = header_of(g.list);
      g.exact   = true;
      break;
    }
    case 1:
    {
      bool b;
      g.present = true;
      g.list    = gen_state(rd, 1 + rd.below(3), &b);
      g.header  = header_of(g.list);
      g.exact   = true;
      break;
    }
    case 2:
    {
      bool b;
      g.present = true;
      g.list    = gen_state(rd, 31 + rd.below(2), &b);
      g.header  = header_of(g.list);
      g.exact   = true;
      break;
    }
    case 3:
    {
      bool b;
      g.present = true;
      g.list    = gen_state(rd, 33 + rd.below(3), &b);  // over the limit: C14 decides, here differential only
      g.header  = header_of(g.list);
      break;
    }
    case 4:
    {
      g.present   = true;
      unsigned i  = rd.below(sizeof(kGarbageStates) / sizeof(kGarbageStates[0]));
      g.header    = kGarbageStates[i];
      if (i == 17)
        g.header = std::string("a=1\0,b=2", 8);
      break;
    }
    default:
      g.present = true;
      g.header  = rd.bytes(rd.below(24));
      break;
  }
  return g;
}
}  // namespace

VH_TARGET(w3c_edits, 3,
          "a header is non-trivial when the reference parser does not reject it, or when its "
          "(blank-trimmed) text is within 2 single-character edits of the shape "
          "2HEX-32HEX-16HEX-2HEX[-tail] (measured by an edit-distance computation); distinct = "
          "distinct (traceparent bytes, tracestate bytes, caller shape)")
{
  set_guard_mode(c);
  vh::Reader &rd = c.rd;
  ExtractIn in;
  in.caller_kind      = rd.below(4);
  in.null_when_absent = rd.coin();
  // ---- a base header
  unsigned version = 0;
  switch (rd.weighted({58, 12, 6, 6, 10, 8}))
  {
    case 0:
      version = 0;
      break;
    case 1:
      version = 1 + rd.below(0xfe);  // 01..fe
      break;
    case 2:
      version = 1;
      break;
    case 3:
      version = 0xfe;
      break;
    case 4:
      version = 0xff;
      break;
    default:
      version = rd.u8();
      break;
  }
  GenId t = gen_id(rd, 16, 6), s = gen_id(rd, 8, 6);
  uint8_t flags = rd.u8();
  uint8_t v8    = static_cast<uint8_t>(version);
  std::string core = hex_of(&v8, 1) + "-" + hex_of(t.b, 16) + "-" + hex_of(s.b, 8) + "-" + hex_of(&flags, 1);
  // tail (for every version: version 00 must refuse it)
  switch (rd.weighted({64, 8, 10, 6, 5, 7}))
  {
    case 0:
      break;
    case 1:
      core += "-";
      break;
    case 2:
    {
      static const char *tails[] = {"-00", "-what-the-future-will-be-like", "-01-02", "-x", "--", "-0af7651916cd43dd"};
      core += tails[rd.below(6)];
      break;
    }
    case 3:
    {
      static const char *tails[] = {"0", "x", "00", ".", "_1", "f-"};
      core += tails[rd.below(6)];  // no dash after the flags
      break;
    }
    case 4:
    {
      static const std::string tails[] = {std::string("-\0", 2), "-a b", "-\x80", "-a\tb", "-\x7f", std::string("-a\0b", 4)};
      core += tails[rd.below(6)];
      break;
    }
    default:
      core += "-" + rd.bytes(rd.below(8));
      break;
  }
  // digit case
  switch (rd.weighted({66, 10, 24}))
  {
    case 0:
      break;
    case 1:
      for (size_t i = 0; i < 55; ++i)
        if (core[i] >= 'a' && core[i] <= 'f')
          core[i] = static_cast<char>(core[i] - 32);
      break;
    default:
    {
      // upper-case the letters of one field, or a scattered subset
      uint64_t mask = rd.u64();
      if (rd.coin())
      {
        static const size_t field[4][2] = {{0, 2}, {3, 35}, {36, 52}, {53, 55}};
        unsigned f = rd.below(4);
        mask       = 0;
        for (size_t i = field[f][0]; i < field[f][1]; ++i)
          mask |= uint64_t(1) << i;
      }
      for (size_t i = 0; i < 55; ++i)
        if (((mask >> i) & 1) && core[i] >= 'a' && core[i] <= 'f')
          core[i] = static_cast<char>(core[i] - 32);
      break;
    }
  }
  // ---- the edit script
  unsigned nedits = static_cast<unsigned>(rd.weighted({38, 34, 18, 10}));
  static const char kEditChars[] = {'0', 'f', 'a', 'F', 'A', '9', 'g', 'G', '/', ':', '@', '`', '-', ' ', '\t',
                                    '\0', '\x80', '\xff', '+', 'x', '.', '_', '\n', '\r', '\x7f', 'Z',
                                    '\xfe' /* the byte w3c_bytes cannot put into a traceparent (its field separator) */};
  std::string script;
  for (unsigned e = 0; e < nedits; ++e)
  {
    static const size_t hot[] = {0, 1, 2, 3, 4, 33, 34, 35, 36, 37, 50, 51, 52, 53, 54, 55, 56};
    size_t pos = rd.chance(60) ? hot[rd.below(sizeof hot / sizeof hot[0])] : rd.below(static_cast<uint32_t>(core.size() + 1));
    char ch    = kEditChars[rd.below(sizeof kEditChars)];
    unsigned kind = static_cast<unsigned>(rd.weighted({24, 18, 18, 10, 12, 6, 6, 6}));
    script += " e" + std::to_string(kind) + "@" + std::to_string(pos);
    switch (kind)
    {
      case 0:  // replace
        if (pos < core.size())
          core[pos] = ch;
        break;
      case 1:  // insert
        core.insert(core.begin() + static_cast<long>(std::min(pos, core.size())), ch);
        break;
      case 2:  // delete
        if (pos < core.size())
          core.erase(core.begin() + static_cast<long>(pos));
        break;
      case 3:  // truncate
        core.resize(std::min(pos, core.size()));
        break;
      case 4:  // damage a separator
      {
        static const size_t seps[] = {2, 35, 52};
        size_t sp                  = seps[rd.below(3)];
        if (sp < core.size())
          core[sp] = ch;
        break;
      }
      case 5:  // double a separator
      {
        static const size_t seps[] = {2, 35, 52};
        size_t sp                  = seps[rd.below(3)];
        if (sp < core.size())
          core.insert(core.begin() + static_cast<long>(sp), '-');
        break;
      }
      case 6:  // transpose
        if (pos + 1 < core.size())
          std::swap(core[pos], core[pos + 1]);
        break;
      default:  // append
        core.push_back(ch);
        break;
    }
  }
  // ---- surrounding bytes
  static const std::string pads[] = {"", " ", "\t", "  \t ", "\n", "\r", "\v", "\f", "\r\n", std::string("\0", 1), "\xa0", "\x85"};
  std::string lp = pads[rd.weighted({80, 5, 3, 2, 2, 2, 1, 1, 1, 1, 1, 1})];
  std::string rp = pads[rd.weighted({80, 5, 3, 2, 2, 2, 1, 1, 1, 1, 1, 1})];

  in.tp = lp + core + rp;
  switch (rd.weighted({92, 4, 2, 2}))
  {
    case 0:
      break;
    case 1:
      in.tp_present = false;
      break;
    case 2:
      in.tp = "";
      break;
    default:
      in.tp = std::string(1 + rd.below(4), " \t\n "[rd.below(4)]);
      break;
  }
  GenState gs         = gen_extract_state(rd);
  in.ts_present       = gs.present;
  in.ts               = gs.header;
  in.ts_list          = gs.exact ? &gs.list : nullptr;
  if (gs.exact)
  {
    // generator precondition: the rendering reads back (by the reference) as the generated list
    RefState chk = ref_state(gs.header);
    VH_CHECK(c, chk.exact && chk.list == gs.list, "harness: rendered tracestate '" << vh::show(gs.header.substr(0, 200))
                                                                                  << "' does not read back as " << show_list(gs.list));
  }

  c.note("traceparent=" + (in.tp_present ? "'" + vh::show(in.tp) + "'" : std::string("<absent>")) + " tracestate=" +
         (in.ts_present ? "'" + vh::show(in.ts.substr(0, 120)) + "'(" + std::to_string(in.ts.size()) + ")" : std::string("<absent>")) +
         " caller=" + std::to_string(in.caller_kind) + (in.null_when_absent ? " null-absent" : "") + "\n");
  c.tag("edits-" + std::to_string(nedits));
  check_extract(c, in);
}

// ================================================================================================
// Raw bytes: byte 0 = control (bits 0-1 caller shape, bit 2 tracestate absent, bit 3 absent headers
// come back as a null view, bit 4+5+6 all set = traceparent absent), then the traceparent up to the
// first 0xFE byte, then the tracestate.
VH_TARGET(w3c_bytes, 2,
          "raw header bytes; non-trivial when the reference parser does not reject the traceparent, "
          "or when its (blank-trimmed) text is within 2 single-character edits of the shape "
          "2HEX-32HEX-16HEX-2HEX[-tail]; distinct = distinct input bytes")
{
  set_guard_mode(c);
  vh::Reader &rd   = c.rd;
  uint8_t ctl      = rd.u8();
  std::string rest = rd.bytes(rd.remaining());
  size_t cut       = rest.find('\xfe');
  ExtractIn in;
  in.tp          = rest.substr(0, cut);
  in.tp_present  = (ctl & 0x70) != 0x70;
  in.ts_present  = cut != std::string::npos && !(ctl & 4);
  in.ts          = cut == std::string::npos ? std::string() : rest.substr(cut + 1);
  in.caller_kind = ctl & 3;
  in.null_when_absent = (ctl & 8) != 0;
  c.note("ctl=" + std::to_string(ctl) + " traceparent='" + vh::show(in.tp) + "' tracestate=" +
         (in.ts_present ? "'" + vh::show(in.ts) + "'" : std::string("<absent>")) + "\n");
  check_extract(c, in);
}

// ================================================================================================
VH_TARGET(w3c_helpers, 2,
          "HexToBinary and the public TraceIdFromHex / SpanIdFromHex / TraceFlagsFromHex: non-trivial "
          "when the digit string is odd, empty, exactly fills or exceeds the buffer / id size; "
          "IsValidHex: when the string has at most one non-hex byte; SplitString: when the number "
          "of separators is within 1 of the word limit; distinct = distinct call text")
{
  set_guard_mode(c);
  vh::Reader &rd = c.rd;
  switch (rd.weighted({4, 3, 4, 3}))
  {
    case 3:
    {
      // the public static entry points HttpTraceContext::TraceIdFromHex / SpanIdFromHex /
      // TraceFlagsFromHex, called directly with hex digits of ANY length (every caller in the
      // repository validates with IsValidHex first, so non-hex bytes are outside their contract and
      // are not generated)
      unsigned which = rd.below(3);
      size_t bs      = which == 0 ? 16 : (which == 1 ? 8 : 1);
      size_t len     = 0;
      switch (rd.weighted({3, 2, 2, 2, 2, 1}))
      {
        case 0:
          len = rd.below(static_cast<uint32_t>(2 * bs + 1));
          break;
        case 1:
          len = 2 * bs;
          break;
        case 2:
          len = 2 * bs - 1;
          break;
        case 3:
          len = 2 * bs + 1 + rd.below(3);
          break;
        case 4:
          len = 2 * bs + 1 + rd.below(60);
          break;
        default:
          len = 0;
          break;
      }
      static const char digits[] = "0123456789abcdefABCDEF";
      std::string hex;
      bool zero_digits = rd.chance(10);  // all '0': the result must be the invalid id
      for (size_t i = 0; i < len; ++i)
        hex.push_back(zero_digits ? '0' : digits[rd.below(22)]);
      static const char *const names[] = {"TraceIdFromHex", "SpanIdFromHex", "TraceFlagsFromHex"};
      c.note(std::string(names[which]) + "('" + hex + "')\n");
      c.tag(std::string("fromhex-") + (len > 2 * bs ? "too-long" : (len == 2 * bs ? "exact" : (len == 0 ? "empty" : (len % 2 ? "odd" : "shorter")))));
      c.nontrivial = len > 2 * bs || len % 2 || len == 2 * bs || len == 0;
      std::unique_ptr<char[]> src(new char[len]);
      std::memcpy(src.get(), hex.data(), len);
      nostd::string_view view(src.get(), len);
      uint8_t got[16] = {0};
      if (which == 0)
      {
        trace::TraceId id = HttpTraceContext::TraceIdFromHex(view);
        std::memcpy(got, id.Id().data(), 16);
        VH_CHECK(c, id.IsValid() == !all_zero(got, 16), "TraceId::IsValid() disagrees with the id bytes " << hex_of(got, 16));
      }
      else if (which == 1)
      {
        trace::SpanId id = HttpTraceContext::SpanIdFromHex(view);
        std::memcpy(got, id.Id().data(), 8);
        VH_CHECK(c, id.IsValid() == !all_zero(got, 8), "SpanId::IsValid() disagrees with the id bytes " << hex_of(got, 8));
      }
      else
        got[0] = HttpTraceContext::TraceFlagsFromHex(view).flags();
      std::memset(src.get(), 0xdd, len);
      auto decode = [bs](const std::string &d) {  // exactly 2*bs digits
        std::vector<uint8_t> v(bs);
        for (size_t i = 0; i < bs; ++i)
          v[i] = static_cast<uint8_t>(hexval(static_cast<unsigned char>(d[2 * i])) * 16 + hexval(static_cast<unsigned char>(d[2 * i + 1])));
        return v;
      };
      if (len <= 2 * bs)
      {
        // hex.h: "Smaller hex strings are left padded with zeroes"
        std::vector<uint8_t> want = decode(std::string(2 * bs - len, '0') + hex);
        VH_CHECK(c, std::memcmp(want.data(), got, bs) == 0, names[which] << "('" << hex << "') gave " << hex_of(got, bs)
                                                                          << ", expected " << hex_of(want.data(), bs));
      }
      else
      {
        // does not fit: the invalid (all-zero) value, or a truncation to the leading / trailing
        // digits - never bytes that are not in the input (an unwritten buffer)
        std::vector<uint8_t> head = decode(hex.substr(0, 2 * bs)), tail = decode(hex.substr(len - 2 * bs));
        VH_CHECK(c, all_zero(got, bs) || std::memcmp(head.data(), got, bs) == 0 || std::memcmp(tail.data(), got, bs) == 0,
                 names[which] << "('" << hex << "') (" << len << " digits for " << bs << " bytes) gave " << hex_of(got, bs)
                              << ", which is neither the invalid value nor a truncation of the input");
      }
      break;
    }
    case 0:
    {
      static const size_t sizes[] = {1, 8, 16, 2, 3, 5};
      size_t bs  = sizes[rd.weighted({3, 3, 3, 1, 1, 1})];
      size_t len = 0;
      switch (rd.weighted({3, 2, 2, 2, 1}))
      {
        case 0:
          len = rd.below(static_cast<uint32_t>(2 * bs + 1));
          break;
        case 1:
          len = 2 * bs;
          break;
        case 2:
          len = 2 * bs - 1;
          break;
        case 3:
          len = 2 * bs + 1 + rd.below(3);
          break;
        default:
          len = 0;
          break;
      }
      static const char digits[] = "0123456789abcdefABCDEF";
      std::string hex;
      for (size_t i = 0; i < len; ++i)
        hex.push_back(digits[rd.below(22)]);
      c.note("HexToBinary('" + hex + "', " + std::to_string(bs) + ")\n");
      c.tag(len > 2 * bs ? "hex-too-long" : (len % 2 ? "hex-odd" : (len == 2 * bs ? "hex-exact" : "hex-shorter")));
      c.nontrivial = len > 2 * bs || len % 2 || len == 2 * bs || len == 0;
      std::unique_ptr<char[]> src(new char[len]);
      std::memcpy(src.get(), hex.data(), len);
      std::unique_ptr<uint8_t[]> buf(new uint8_t[bs]);
      std::memset(buf.get(), 0xcc, bs);
      bool ok = detail::HexToBinary(nostd::string_view(src.get(), len), buf.get(), bs);
      if (len > 2 * bs)
        VH_CHECK(c, !ok, "HexToBinary accepted " << len << " digits for a " << bs << " byte buffer");
      else
      {
        VH_CHECK(c, ok, "HexToBinary refused " << len << " digits for a " << bs << " byte buffer");
        // documented: "Smaller hex strings are left padded with zeroes"
        std::string padded = std::string(2 * bs - len, '0') + hex;
        std::vector<uint8_t> want(bs);
        for (size_t i = 0; i < bs; ++i)
          want[i] = static_cast<uint8_t>(hexval(padded[2 * i]) * 16 + hexval(padded[2 * i + 1]));
        VH_CHECK(c, std::memcmp(want.data(), buf.get(), bs) == 0, "HexToBinary('" << hex << "', " << bs << ") gave "
                                                                                  << hex_of(buf.get(), bs) << ", expected "
                                                                                  << hex_of(want.data(), bs));
      }
      break;
    }
    case 1:
    {
      size_t len = 1 + rd.below(40);
      static const char digits[] = "0123456789abcdefABCDEF";
      std::string s;
      for (size_t i = 0; i < len; ++i)
        s.push_back(digits[rd.below(22)]);
      unsigned bad = static_cast<unsigned>(rd.weighted({5, 4, 1}));
      static const char near[] = {'g', 'G', '/', ':', '@', '`', '-', ' ', '\0', '\x80', '\xff', 'x', '\xe1'};
      for (unsigned i = 0; i < bad; ++i)
        s[rd.below(static_cast<uint32_t>(len))] = rd.chance(70) ? near[rd.below(sizeof near)] : static_cast<char>(rd.u8());
      bool want = true;
      unsigned nbad = 0;
      for (unsigned char ch : s)
        if (hexval(ch) < 0)
        {
          want = false;
          ++nbad;
        }
      c.note("IsValidHex('" + vh::show(s) + "')\n");
      c.tag(want ? "ishex-true" : "ishex-false");
      c.nontrivial = nbad <= 1;
      std::unique_ptr<char[]> src(new char[len]);
      std::memcpy(src.get(), s.data(), len);
      VH_CHECK(c, detail::IsValidHex(nostd::string_view(src.get(), len)) == want,
               "IsValidHex('" << vh::show(s) << "') returned " << !want);
      break;
    }
    default:
    {
      // "Splits a string by separator, up to given buffer count words. Returns the amount of words
      // the input was split into."
      size_t count = rd.weighted({1, 2, 2, 6, 2, 1});  // 0..5
      size_t len   = rd.below(14);
      char sep     = rd.coin() ? '-' : ':';
      std::string s;
      for (size_t i = 0; i < len; ++i)
        s.push_back(rd.chance(35) ? sep : "ab-:"[rd.below(4)]);
      std::vector<std::string> words(1);
      for (char ch : s)
      {
        if (ch == sep)
          words.emplace_back();
        else
          words.back().push_back(ch);
      }
      c.note("SplitString('" + s + "', '" + std::string(1, sep) + "', " + std::to_string(count) + ")\n");
      c.tag(words.size() > count ? "split-more-words-than-room" : (words.size() == count ? "split-exact" : "split-fewer"));
      c.nontrivial = words.size() + 1 >= count && words.size() <= count + 1;
      std::unique_ptr<char[]> src(new char[len]);
      std::memcpy(src.get(), s.data(), len);
      std::unique_ptr<nostd::string_view[]> res(new nostd::string_view[count]);
      size_t got = detail::SplitString(nostd::string_view(src.get(), len), sep, res.get(), count);
      size_t want = std::min(words.size(), count);
      VH_CHECK(c, got == want, "SplitString('" << s << "', '" << sep << "', " << count << ") returned " << got
                                               << ", expected " << want);
      for (size_t i = 0; i < want; ++i)
      {
        std::string w(res[i].data(), res[i].size());
        bool last_of_overflow = i + 1 == count && words.size() > count;
        if (!last_of_overflow)
          VH_CHECK(c, w == words[i], "SplitString('" << s << "') word " << i << " is '" << w << "', expected '" << words[i] << "'");
        else
        {
          // the last slot of an over-full split: that word alone, or the unsplit remainder
          std::string remainder = words[i];
          for (size_t j = i + 1; j < words.size(); ++j)
            remainder += std::string(1, sep) + words[j];
          VH_CHECK(c, w == words[i] || w == remainder, "SplitString('" << s << "') last word is '" << w << "'");
        }
      }
      break;
    }
  }
}

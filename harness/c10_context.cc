// C10  Contexts are immutable values and the runtime context is a per-thread stack.
//
// Targets
//   ctx_map     stateful histories over a growing family of contexts (SetValue, SetValues with 0..3
//               pairs in seven container types, Context(key,value), Context(container), copies,
//               destruction of a context that has descendants, SetValue chains of up to a few
//               thousand bindings) against a persistent-map model; EVERY live context is re-queried
//               for EVERY pool key (GetValue, HasKey, IsRootSpan, GetSpan) after every mutation.
//               Half of the span / span context / baggage values are objects made for one binding
//               that the harness lets go right after the call: contexts are their only owners, what a
//               context returns is dereferenced, and the object must exist as long as any existing
//               context can reach it (also through a shadowed binding)
//   rt_stack    Attach / Detach (any order, repeated, stale, foreign) / token destruction / Scope
//               programs against a stack model: a token that never matched is matched by its context
//               (most recent first, "pop down to and including", no change for a foreign token); a
//               token whose Detach already succeeded has no matching Attach left and changes nothing
//               when presented again.  GetCurrent(), value look-ups through the runtime context and
//               the active span are compared after every step.  A case runs on a brand-new thread
//               (the thread_local stack starts at capacity 0, so every deep case crosses the growth
//               path again; depth up to 72) or, sometimes, on the driver thread after the stack was
//               emptied through the API.  Helper threads provide foreign tokens and check that a new
//               thread never sees what its creator attached.  Scopes are also opened for spans that
//               nothing but the scope's context owns
//   rt_threads  2..3 real threads run independent generated programs concurrently (with generated
//               barriers and yields), each against its own model; every context carries a marker of
//               its owner, a marker attached by one thread must never be visible on another; the
//               driver thread holds a marker of its own for the whole run.  Up to three Context
//               OBJECTS are shared: every thread looks keys up in them, derives from them (SetValue,
//               SetValues, RuntimeContext::SetValue) and attaches them directly, not through a copy,
//               while the other threads do the same (a data race there is for the TSan runs to see)
// Oracle: reference models written from the property statement; ASan/UBSan (TSan for the thread
// programs).  Context identity (operator==) is only asserted where the repository documents it (a
// copy equals its source, contexts of different content differ, GetCurrent() equals the attached
// context); everything else about identity is observed and fed into the stack model, so the model
// is two-sided there.  Keys are passed as non NUL-terminated views whose storage is scribbled and
// freed right after the call.
// Findings: F19 (empty container creates a key-less node that answers for / shadows the empty key)
// and C10-nullkey (memcpy/memcmp with a null pointer for the empty key given as string_view{}) are
// fixed in /repo; C10-detach-twice (a token whose Detach already succeeded pops another frame that
// holds an equal context when it is presented again) is a candidate, see kHoldBack_detach_twice.
// The generator avoids each shape only when told so (--exclude) or held back.
// Only the default ThreadLocalContextStorage is examined (no SetRuntimeContextStorage).
#include <atomic>
#include <condition_variable>
#include <cstring>
#include <limits>
#include <map>
#include <set>
#include <memory>
#include <mutex>
#include <sstream>
#include <string>
#include <thread>
#include <unordered_map>
#include <utility>
#include <vector>

#include "opentelemetry/baggage/baggage.h"
#include "opentelemetry/context/context.h"
#include "opentelemetry/context/context_value.h"
#include "opentelemetry/context/runtime_context.h"
#include "opentelemetry/nostd/span.h"
#include "opentelemetry/trace/context.h"
#include "opentelemetry/trace/default_span.h"
#include "opentelemetry/trace/noop.h"
#include "opentelemetry/trace/scope.h"
#include "opentelemetry/trace/span_context.h"
#include "opentelemetry/trace/span_metadata.h"
#include "opentelemetry/trace/tracer.h"
#include "vh.h"

const char *vh_property_id = "C10";

namespace
{
namespace ctx   = opentelemetry::context;
namespace trace = opentelemetry::trace;
namespace nostd = opentelemetry::nostd;
namespace bag   = opentelemetry::baggage;

// usable from any thread (does not touch the Case)
#define CK(cond, msgexpr)                                               \
  do                                                                    \
  {                                                                     \
    if (!(cond))                                                        \
    {                                                                   \
      std::ostringstream ck_o_;                                         \
      ck_o_ << msgexpr << "  [" #cond "] at c10_context.cc:" << __LINE__; \
      throw vh::Fail{ck_o_.str()};                                      \
    }                                                                   \
  } while (0)

// open findings the generator can be told to avoid (see known_findings.json)
const char *const kF19     = "F19";          // SetValues / Context(container) with an empty container
const char *const kNullKey = "C10-nullkey";  // empty key handed over as string_view{} (data()==nullptr)
// A token whose Detach already succeeded is presented again (a second explicit Detach, or simply
// its destructor - `Detach(*tok)` followed by `tok` going out of scope is the idiom of the
// repository's own tests) while a frame holding an EQUAL context is still on the stack: the token
// has no matching Attach left, so nothing may change; the unchanged library matches by context only
// and pops that other frame (and everything above it).  See proposed_fixes/C10-detach-twice.diff.
const char *const kDetachTwice = "C10-detach-twice";
// Decided: an OPEN known finding (known_findings.json; fixed witness target detach_twice_witness).  The
// repair in proposed_fixes/ adds a data member to the API class Token, whose objects are created by
// (possibly user-supplied, separately compiled) RuntimeContextStorage implementations: a layout change
// of an ABI-v1 API type is not a small, safe patch.  While the finding is listed as open the generator
// never presents such a token as long as an equal context is on the stack (vh::excluded).
const bool kHoldBack_detach_twice = false;
bool avoid_detach_twice()
{
  return kHoldBack_detach_twice || vh::excluded(kDetachTwice);
}

// vh::count_excluded is not thread safe; rt_threads draws key arguments on several threads
void count_excl(const char *id)
{
  static std::mutex mu;
  std::lock_guard<std::mutex> l(mu);
  vh::count_excluded(id);
}

// ------------------------------------------------------------------------------------ values
struct MVal
{
  int alt         = 0;  // index of the ContextValue alternative (0 = monostate = "no value")
  uint64_t bits   = 0;  // bool / int64 / uint64 / double bit pattern
  const void *ptr = nullptr;  // the shared_ptr alternatives compare by pointee identity
  int owned       = -1;       // model side only: index into Objects::owned (an object no one but contexts holds)
  bool operator==(const MVal &o) const { return alt == o.alt && bits == o.bits && ptr == o.ptr; }
  bool operator!=(const MVal &o) const { return !(*this == o); }
};

MVal observe(const ctx::ContextValue &v)
{
  MVal m;
  m.alt = static_cast<int>(v.index());
  switch (m.alt)
  {
    case 1:
      m.bits = nostd::get<bool>(v) ? 1 : 0;
      break;
    case 2:
      m.bits = static_cast<uint64_t>(nostd::get<int64_t>(v));
      break;
    case 3:
      m.bits = nostd::get<uint64_t>(v);
      break;
    case 4:
    {
      double d = nostd::get<double>(v);
      std::memcpy(&m.bits, &d, sizeof d);
      break;
    }
    case 5:
      m.ptr = nostd::get<nostd::shared_ptr<trace::Span>>(v).get();
      break;
    case 6:
      m.ptr = nostd::get<nostd::shared_ptr<trace::SpanContext>>(v).get();
      break;
    case 7:
      m.ptr = nostd::get<nostd::shared_ptr<bag::Baggage>>(v).get();
      break;
    default:
      break;
  }
  return m;
}

// name of a pooled object for messages ("#2" = third span/span context/baggage of the case's pool)
std::string pointee_name(const void *p);

const char *alt_name(int alt)
{
  static const char *names[] = {"none", "bool", "i64", "u64", "dbl", "span", "spanctx", "baggage"};
  return alt >= 0 && alt <= 7 ? names[alt] : "?";
}

std::string show_val(const MVal &m)
{
  static const char *names[] = {"none", "bool", "i64", "u64", "dbl", "span", "spanctx", "baggage"};
  std::ostringstream o;
  if (m.alt < 0 || m.alt > 7)
  {
    o << "alt?" << m.alt;
    return o.str();
  }
  o << names[m.alt];
  if (m.alt >= 1 && m.alt <= 4)
    o << ":" << (m.alt == 2 ? std::to_string(static_cast<int64_t>(m.bits)) : std::to_string(m.bits));
  else if (m.alt >= 5)
    o << pointee_name(m.ptr);
  return o.str();
}

// objects the shared_ptr alternatives point to; one pool per case (per thread in rt_threads)
// An object that is handed to a context and then let go by the harness: only contexts (and what
// holds contexts: the runtime stack, tokens) keep it alive.  `watch` tells whether it still exists;
// `serial` is what dereferencing it must yield.
struct Owned
{
  int alt = 0;
  const void *ptr = nullptr;
  std::weak_ptr<void> watch;
  uint64_t serial = 0;
};

struct Objects
{
  std::vector<nostd::shared_ptr<trace::Span>> spans;
  std::vector<nostd::shared_ptr<trace::SpanContext>> scs;
  std::vector<nostd::shared_ptr<bag::Baggage>> bags;
  std::vector<Owned> owned;

  static trace::SpanContext owned_span_context(uint64_t serial)
  {
    uint8_t t[16] = {0xaa, 0xbb, 0, 0, 0, 0, 0, 0, 0, 0, 0, 0, 0, 0, 0, 0};
    uint8_t sp[8];
    for (int i = 0; i < 8; ++i)
    {
      t[15 - i] = static_cast<uint8_t>(serial >> (8 * i));
      sp[7 - i] = static_cast<uint8_t>((serial + 1) >> (8 * i));
    }
    return trace::SpanContext(trace::TraceId(t), trace::SpanId(sp), trace::TraceFlags(1), false);
  }
  // (no make_shared: the object's memory must be freed with its last owner so that ASan sees a late use)
  template <class T>
  int remember(int alt, const std::shared_ptr<T> &p, uint64_t serial)
  {
    Owned o;
    o.alt    = alt;
    o.ptr    = p.get();
    o.watch  = std::shared_ptr<void>(p);
    o.serial = serial;
    owned.push_back(std::move(o));
    return static_cast<int>(owned.size() - 1);
  }
  nostd::shared_ptr<trace::Span> new_owned_span(uint64_t serial, int *id)
  {
    std::shared_ptr<trace::Span> p(new trace::DefaultSpan(owned_span_context(serial)));
    *id = remember(5, p, serial);
    return nostd::shared_ptr<trace::Span>(std::move(p));
  }
  nostd::shared_ptr<trace::SpanContext> new_owned_span_context(uint64_t serial, int *id)
  {
    std::shared_ptr<trace::SpanContext> p(new trace::SpanContext(owned_span_context(serial)));
    *id = remember(6, p, serial);
    return nostd::shared_ptr<trace::SpanContext>(std::move(p));
  }
  nostd::shared_ptr<bag::Baggage> new_owned_baggage(uint64_t serial, int *id)
  {
    std::map<std::string, std::string> kv{{"serial", std::to_string(serial)}};
    std::shared_ptr<bag::Baggage> p(new bag::Baggage(kv));
    *id = remember(7, p, serial);
    return nostd::shared_ptr<bag::Baggage>(std::move(p));
  }
  bool alive(int id) const { return !owned[static_cast<size_t>(id)].watch.expired(); }

  Objects()
  {
    const uint8_t t1[16] = {1, 2, 3, 4, 5, 6, 7, 8, 9, 10, 11, 12, 13, 14, 15, 16};
    const uint8_t t2[16] = {0xff, 0, 0, 0, 0, 0, 0, 0, 0, 0, 0, 0, 0, 0, 0, 1};
    const uint8_t s1[8]  = {1, 2, 3, 4, 5, 6, 7, 8};
    const uint8_t s2[8]  = {0, 0, 0, 0, 0, 0, 0, 9};
    trace::SpanContext v1(trace::TraceId(t1), trace::SpanId(s1), trace::TraceFlags(1), false);
    trace::SpanContext v2(trace::TraceId(t2), trace::SpanId(s2), trace::TraceFlags(0), true);
    spans.emplace_back(new trace::DefaultSpan(v1));
    spans.emplace_back(new trace::DefaultSpan(trace::SpanContext::GetInvalid()));
    std::shared_ptr<trace::Tracer> nt(new trace::NoopTracer());
    spans.emplace_back(new trace::NoopSpan(nt));
    spans.emplace_back(new trace::DefaultSpan(v2));
    spans.push_back(nt->StartSpan("noop"));  // the process-wide no-op span singleton
    scs.emplace_back(new trace::SpanContext(v1));
    scs.emplace_back(new trace::SpanContext(false, false));
    bags.emplace_back(new bag::Baggage());
    bags.push_back(bag::Baggage::GetDefault());
  }
  bool ours(const trace::Span *p) const
  {
    for (auto &s : spans)
      if (s.get() == p)
        return true;
    for (auto &o : owned)
      if (o.alt == 5 && o.ptr == p && !o.watch.expired())
        return true;
    return false;
  }
};

thread_local const Objects *t_objects = nullptr;

struct ObjectsInScope
{
  explicit ObjectsInScope(const Objects *o) { t_objects = o; }
  ~ObjectsInScope() { t_objects = nullptr; }
};

std::string pointee_name(const void *p)
{
  if (t_objects)
  {
    for (size_t i = 0; i < t_objects->spans.size(); ++i)
      if (t_objects->spans[i].get() == p)
        return "#" + std::to_string(i);
    for (size_t i = 0; i < t_objects->scs.size(); ++i)
      if (t_objects->scs[i].get() == p)
        return "#" + std::to_string(i);
    for (size_t i = 0; i < t_objects->bags.size(); ++i)
      if (t_objects->bags[i].get() == p)
        return "#" + std::to_string(i);
    for (size_t i = t_objects->owned.size(); i-- > 0;)
      if (t_objects->owned[i].ptr == p)
        return "#own" + std::to_string(i) + (t_objects->owned[i].watch.expired() ? "(destroyed)" : "");
  }
  return p ? "#other" : "#null";
}

// how a value is drawn from the stream; materialised later (possibly on another thread)
struct VSpec
{
  uint8_t alt = 2;
  uint8_t sub = 0;
};

VSpec gen_vspec(vh::Reader &rd)
{
  static const uint8_t alts[] = {2, 1, 3, 4, 5, 6, 7, 0};
  VSpec s;
  s.alt = alts[rd.weighted({50, 6, 8, 8, 12, 3, 3, 2})];
  if (s.alt != 2)
    s.sub = rd.u8();
  return s;
}

// `serial` is unique per case, so that a re-bound key almost always carries a DIFFERENT value than
// the binding it shadows (otherwise a wrong shadowing order would be invisible)
// The shared_ptr alternatives: sub < 128 takes an object of the case's pool (the harness keeps a
// reference for the whole case), sub >= 128 creates a NEW object that only the returned value owns:
// once the caller has dropped that value, contexts are its only owners.
std::pair<ctx::ContextValue, MVal> make_value(VSpec s, uint64_t serial, Objects &o)
{
  ctx::ContextValue v;
  int owned = -1;
  if (s.alt >= 5 && s.alt <= 7 && s.sub >= 128)
  {
    if (s.alt == 5)
      v = o.new_owned_span(serial, &owned);
    else if (s.alt == 6)
      v = o.new_owned_span_context(serial, &owned);
    else
      v = o.new_owned_baggage(serial, &owned);
    MVal m  = observe(v);
    m.owned = owned;
    return {v, m};
  }
  switch (s.alt)
  {
    case 0:
      v = nostd::monostate{};
      break;
    case 1:
      v = static_cast<bool>((serial ^ s.sub) & 1);
      break;
    case 2:
      v = static_cast<int64_t>(s.sub & 1 ? -static_cast<int64_t>(serial) : static_cast<int64_t>(serial));
      break;
    case 3:
      v = static_cast<uint64_t>(0x8000000000000000ull | serial);
      break;
    case 4:
    {
      double d = static_cast<double>(serial) + 0.5;
      switch (s.sub % 5)
      {
        case 1:
          d = std::numeric_limits<double>::quiet_NaN();
          break;
        case 2:
          d = -0.0;
          break;
        case 3:
          d = -std::numeric_limits<double>::infinity();
          break;
        default:
          break;
      }
      v = d;
      break;
    }
    case 5:
      v = o.spans[s.sub % o.spans.size()];
      break;
    case 6:
      v = o.scs[s.sub % o.scs.size()];
      break;
    default:
      v = o.bags[s.sub % o.bags.size()];
      break;
  }
  return {v, observe(v)};
}

// ------------------------------------------------------------------------------------ keys
struct KeyPool
{
  std::vector<std::string> k;
  std::vector<const char *> cls;
  void add(std::string s, const char *c)
  {
    k.push_back(std::move(s));
    cls.push_back(c);
  }
  KeyPool()
  {
    add("a", "plain");                               // 0
    add("b", "plain");                               // 1
    add("", "empty");                                // 2
    add("ab", "prefix");                             // 3
    add(trace::kSpanKey, "span-key");                // 4  "active_span"
    add(std::string("a\0b", 3), "nul");              // 5
    add(std::string("a\0c", 3), "nul");              // 6
    add(std::string("a\0", 2), "nul");               // 7
    add("id", "plain");                              // 8
    add("k1", "prefix");                             // 9
    add("k10", "prefix");                            // 10
    add(std::string(300, 'x') + "1", "long");        // 11
    add(std::string(300, 'x') + "2", "long");        // 12
    add("\xff\x80", "high");                         // 13
    add(trace::kIsRootSpanKey, "root-key");          // 14 "is_root_span"
    add("A", "plain");                               // 15
    add("active_spam", "near-span");                 // 16
    add("active_spa", "near-span");                  // 17
    // 18..27: key lengths around the sizes an implementation may treat specially (inline / small-buffer storage
    // of 8, 16, 24 or 32 bytes).  Reached through the "long" draws only (gen_key), so the decoding of the
    // eighteen keys above - and of every saved replay - is unchanged.  (Seeded C10-m12: keys of up to 16
    // characters stored inline, the move of a 16-character key steals a pointer into the dying node.)
    for (size_t len : {7u, 8u, 15u, 16u, 17u, 23u, 24u, 31u, 32u, 33u})
      add(std::string(len, 'q'), "length-boundary");
  }
};
const KeyPool &pool()
{
  static const KeyPool p;
  return p;
}
constexpr unsigned kKeySpan = 4, kKeyRoot = 14, kKeyId = 8, kKeyEmpty = 2;

unsigned gen_key(vh::Reader &rd)
{
  // half of the draws come from a handful of keys so that re-binding is frequent
  if (rd.chance(50))
    return rd.below(5);
  // one byte: its remainder picks one of the first eighteen keys (as rd.below(18) always did); when that is one of
  // the two long keys, the quotient sends most draws on to a key of boundary length
  unsigned b = rd.u8(), idx = b % 18, q = b / 18;
  if ((idx == 11 || idx == 12) && q >= 4)
    idx = 18 + (q - 4 + (idx == 12 ? 5 : 0)) % 10;
  return idx;
}

std::string show_key(const std::string &k)
{
  if (k.size() > 24)
    return vh::show(k.substr(0, 4)) + "..(" + std::to_string(k.size()) + ").." + vh::show(k.substr(k.size() - 2));
  return "'" + vh::show(k) + "'";
}

// One key argument for one call: a NON NUL-terminated view whose storage is scribbled and freed
// right after the call.
//   mode 0  exact-size heap block (ASan red zones on both sides catch any over-read)
//   mode 1  view into a larger buffer; the bytes after the view spell ANOTHER pool key
//   mode 2  the empty key as string_view{} (data()==nullptr); other keys as mode 0
struct KeyArg
{
  std::unique_ptr<char[]> heap;
  std::string big;
  nostd::string_view view;
  const char *mode_name = "heap";
  KeyArg(const std::string &k, unsigned mode)
  {
    if (mode == 2 && k.empty())
    {
      if (vh::excluded(kNullKey))
        count_excl(kNullKey);
      else
      {
        view      = nostd::string_view();
        mode_name = "nullview";
        return;
      }
    }
    if (mode == 1)
    {
      std::string tail = "#";
      if (k == "a" || k == std::string("a\0", 2))
        tail = "b";
      else if (k == "k1")
        tail = "0";
      else if (k.empty())
        tail = "a";
      else if (k == "active_spa")
        tail = "n";
      big       = "\x01" + k + tail + "junk";
      view      = nostd::string_view(big.data() + 1, k.size());
      mode_name = "inbuf";
      return;
    }
    heap.reset(new char[k.size()]);
    if (!k.empty())
      std::memcpy(heap.get(), k.data(), k.size());
    view = nostd::string_view(heap.get(), k.size());
  }
  void scribble()
  {
    if (heap)
    {
      if (view.size())
        std::memset(heap.get(), 0xdd, view.size());
      heap.reset();
    }
    for (auto &ch : big)
      ch = '\xdd';
    view = nostd::string_view("\xdd\xdd\xdd", 0);
  }
};

// ------------------------------------------------------------------------------------ model
using Map = std::map<std::string, MVal>;

MVal lookup(const Map &m, const std::string &k)
{
  auto it = m.find(k);
  return it == m.end() ? MVal{} : it->second;
}

struct Member
{
  ctx::Context c;
  Map m;
  int ident  = 0;     // observed identity class (operator==)
  bool live  = true;  // false: dropped (ctx_map) / not held by the harness (rt_*)
  int parent = -1;
  size_t chain = 0;  // ctx_map: number of bindings stacked up behind this context
  std::string how;
  // objects owned by contexts only (Objects::owned) that this context can reach, also through a
  // binding that a later one shadows: they must exist as long as this context does
  std::set<int> reach;
};

void add_reach(std::set<int> &r, const MVal &v)
{
  if (v.owned >= 0)
    r.insert(v.owned);
}

// Dereferences a value obtained THROUGH a context: for an object that only contexts own this is a
// use-after-free (ASan) unless the contexts really share its ownership; what the object says is
// compared with what was put into it.
void deref_check(const ctx::ContextValue &v, const MVal &exp, const std::string &who, const std::string &key)
{
  if (exp.owned < 0 || t_objects == nullptr)
    return;
  const Owned &o = t_objects->owned[static_cast<size_t>(exp.owned)];
  CK(!o.watch.expired(), who << ": the " << alt_name(exp.alt) << " bound to key " << show_key(key)
                             << " no longer exists although the context still returns it (a context must share "
                             << "the ownership of what is bound in it)");
  trace::SpanContext want = Objects::owned_span_context(o.serial);
  if (exp.alt == 5)
  {
    trace::SpanContext got = nostd::get<nostd::shared_ptr<trace::Span>>(v)->GetContext();
    CK(got.trace_id() == want.trace_id() && got.span_id() == want.span_id() && got.IsValid(),
       who << ": the span bound to key " << show_key(key) << " does not report the span context it was created with");
  }
  else if (exp.alt == 6)
  {
    const trace::SpanContext &got = *nostd::get<nostd::shared_ptr<trace::SpanContext>>(v);
    CK(got.trace_id() == want.trace_id() && got.span_id() == want.span_id() && got.IsValid(),
       who << ": the span context bound to key " << show_key(key) << " does not hold the ids it was created with");
  }
  else if (exp.alt == 7)
  {
    std::string val;
    bool found = nostd::get<nostd::shared_ptr<bag::Baggage>>(v)->GetValue("serial", val);
    CK(found && val == std::to_string(o.serial),
       who << ": the baggage bound to key " << show_key(key) << " does not hold the entry it was created with");
  }
}

// every object that some still existing context can reach must exist
void check_reachable_exist(const Objects &o, const std::set<int> &reach, const std::string &when)
{
  for (int id : reach)
    CK(o.alive(id), when << ": the " << alt_name(o.owned[static_cast<size_t>(id)].alt) << " #own" << id
                         << " was destroyed although a context that still exists holds a binding to it");
}

// Identity class of a context that was just obtained.  Asserts only what is documented:
// contexts that answer differently are never equal; a copy equals its source.
int classify(const std::vector<Member> &fam, const ctx::Context &c, const Map &m, int copy_of,
             int *next_ident)
{
  int ident = -1;
  for (size_t j = 0; j < fam.size(); ++j)
  {
    if (!fam[j].live)
      continue;
    bool eq = (fam[j].c == c);
    CK(eq == (c == fam[j].c), "operator== is not symmetric for context #" << j);
    if (eq)
    {
      CK(fam[j].m == m, "a new context compares equal to context #"
                            << j << " (" << fam[j].how << ") although the two answer differently");
      if (ident < 0)
        ident = fam[j].ident;
      else
        CK(ident == fam[j].ident, "operator== is not transitive around context #" << j);
    }
  }
  if (copy_of >= 0)
    CK(ident == fam[static_cast<size_t>(copy_of)].ident,
       "a copy does not compare equal to its source context #" << copy_of);
  if (ident < 0)
    ident = (*next_ident)++;
  return ident;
}

// GetValue + HasKey of one context for one key against the model
void check_lookup(const ctx::Context &c, const Map &m, const std::string &key, nostd::string_view view,
                  const std::string &who)
{
  ctx::ContextValue gv = c.GetValue(view);
  MVal got = observe(gv);
  MVal exp = lookup(m, key);
  CK(got == exp, who << " answers " << show_val(got) << " for key " << show_key(key) << ", expected "
                     << show_val(exp));
  deref_check(gv, exp, who, key);
  bool has = c.HasKey(view);
  if (exp.alt != 0)
    CK(has, who << ": HasKey(" << show_key(key) << ") is false but the key is bound to " << show_val(exp));
  else if (m.find(key) == m.end())
    CK(!has, who << ": HasKey(" << show_key(key) << ") is true for a key that was never bound");
  // a key whose most recent binding is the empty alternative: GetValue is pinned above; whether
  // HasKey means "found" or "has a value" is not specified, but shadowing is: the answer must not
  // depend on OLDER bindings of the key.  It is therefore compared with what a fresh context that
  // binds only this key to the empty alternative answers (observed, not assumed).
  else
  {
    static const bool has_for_empty_binding =
        ctx::Context().SetValue("vh.empty.probe", ctx::ContextValue{}).HasKey("vh.empty.probe");
    CK(has == has_for_empty_binding,
       who << ": HasKey(" << show_key(key) << ") is " << has << " for a key whose most recent binding is the empty "
           << "alternative, but " << has_for_empty_binding << " when no older binding exists: an older binding "
           << "shows through (shadowing broken)");
  }
}

void sweep(const std::vector<Member> &fam, const std::string &after)
{
  const KeyPool &kp = pool();
  for (size_t i = 0; i < fam.size(); ++i)
  {
    if (!fam[i].live)
      continue;
    std::string who;
    for (size_t k = 0; k < kp.k.size(); ++k)
    {
      try
      {
        check_lookup(fam[i].c, fam[i].m, kp.k[k], nostd::string_view(kp.k[k].data(), kp.k[k].size()), "");
      }
      catch (vh::Fail &f)
      {
        throw vh::Fail{"after " + after + ": context #" + std::to_string(i) + " (" + fam[i].how + ")" +
                       (i + 1 < fam.size() ? " [obtained earlier]" : " [the new context]") + f.msg};
      }
    }
    bool root = trace::IsRootSpan(fam[i].c);
    MVal rv   = lookup(fam[i].m, trace::kIsRootSpanKey);
    CK(root == (rv.alt == 1 && rv.bits == 1),
       "after " << after << ": IsRootSpan(context #" << i << ") = " << root << " but the binding is "
                << show_val(rv));
    // the span of an EXPLICIT context (nothing is attached on this thread)
    MVal sv = lookup(fam[i].m, trace::kSpanKey);
    auto sp = trace::GetSpan(fam[i].c);
    CK(sp.get() != nullptr, "after " << after << ": GetSpan(context #" << i << ") returned null");
    if (sv.alt == 5)
    {
      CK(sp.get() == sv.ptr, "after " << after << ": GetSpan(context #" << i << ") is not the span bound there ("
                                      << show_val(sv) << ")");
      deref_check(ctx::ContextValue(sp), sv, "after " + after + ": GetSpan(context #" + std::to_string(i) + ")",
                  trace::kSpanKey);
    }
    else
      CK(!sp->GetContext().IsValid() && (t_objects == nullptr || !t_objects->ours(sp.get())),
         "after " << after << ": GetSpan(context #" << i << ") returned a real span although "
                  << show_key(trace::kSpanKey) << " is bound to " << show_val(sv));
  }
}

struct Pair
{
  unsigned key;
  VSpec v;
};

std::vector<Pair> gen_pairs(vh::Reader &rd, bool *reshaped)
{
  unsigned n = static_cast<unsigned>(rd.weighted({35, 15, 30, 20}));  // 1, 0, 2, 3 pairs
  n          = n == 0 ? 1 : n == 1 ? 0 : n;
  if (n == 0 && vh::excluded(kF19))
  {
    count_excl(kF19);
    *reshaped = true;
    n         = 1;
  }
  std::vector<Pair> ps;
  const unsigned N = static_cast<unsigned>(pool().k.size());
  for (unsigned i = 0; i < n; ++i)
  {
    // distinct keys inside one container: which of two equal keys wins is not specified
    unsigned k = gen_key(rd);
    for (unsigned tries = 0; tries < N; ++tries)
    {
      bool dup = false;
      for (auto &p : ps)
        dup = dup || p.key == k;
      if (!dup)
        break;
      k = (k + 1) % N;
    }
    ps.push_back(Pair{k, gen_vspec(rd)});
  }
  return ps;
}

// Runs `f(container)` with the pairs in one of several container types; storage of the keys is
// scribbled afterwards.  f is a generic lambda taking the container by non-const reference.
template <class F>
ctx::Context with_container(unsigned kind, const std::vector<std::pair<std::string, ctx::ContextValue>> &kv,
                            F &&f)
{
  if (kind >= 4)
  {
    // views into exact-size heap blocks (freed right after the call) in a C array, a nostd::span or
    // a std::initializer_list of pairs
    using P = std::pair<nostd::string_view, ctx::ContextValue>;
    std::vector<std::unique_ptr<char[]>> store;
    std::vector<P> vec;
    for (auto &e : kv)
    {
      store.emplace_back(new char[e.first.size()]);
      if (!e.first.empty())
        std::memcpy(store.back().get(), e.first.data(), e.first.size());
      vec.emplace_back(nostd::string_view(store.back().get(), e.first.size()), e.second);
    }
    ctx::Context r;
    const size_t n = vec.size();
    if (kind == 5 || n == 0 || n > 3)
    {
      nostd::span<P> sp(vec.data(), vec.size());
      r = f(sp);
    }
    else if (kind == 4)
    {
      if (n == 1)
      {
        P arr[1] = {vec[0]};
        r        = f(arr);
      }
      else if (n == 2)
      {
        P arr[2] = {vec[0], vec[1]};
        r        = f(arr);
      }
      else
      {
        P arr[3] = {vec[0], vec[1], vec[2]};
        r        = f(arr);
      }
    }
    else
    {
      if (n == 1)
      {
        std::initializer_list<P> il = {vec[0]};
        r                           = f(il);
      }
      else if (n == 2)
      {
        std::initializer_list<P> il = {vec[0], vec[1]};
        r                           = f(il);
      }
      else
      {
        std::initializer_list<P> il = {vec[0], vec[1], vec[2]};
        r                           = f(il);
      }
    }
    for (size_t i = 0; i < store.size(); ++i)
      if (!kv[i].first.empty())
        std::memset(store[i].get(), 0xdd, kv[i].first.size());
    return r;
  }
  switch (kind % 4)
  {
    case 0:
    {
      std::map<std::string, ctx::ContextValue> m(kv.begin(), kv.end());
      ctx::Context r = f(m);
      for (auto &e : m)
        e.second = nostd::monostate{};
      return r;
    }
    case 1:
    {
      // views into exact-size heap blocks, freed right after the call
      std::vector<std::unique_ptr<char[]>> store;
      std::vector<std::pair<nostd::string_view, ctx::ContextValue>> vec;
      for (auto &e : kv)
      {
        store.emplace_back(new char[e.first.size()]);
        if (!e.first.empty())
          std::memcpy(store.back().get(), e.first.data(), e.first.size());
        vec.emplace_back(nostd::string_view(store.back().get(), e.first.size()), e.second);
      }
      ctx::Context r = f(vec);
      for (size_t i = 0; i < store.size(); ++i)
        if (!kv[i].first.empty())
          std::memset(store[i].get(), 0xdd, kv[i].first.size());
      store.clear();
      vec.clear();
      return r;
    }
    case 2:
    {
      std::unordered_map<std::string, ctx::ContextValue> m(kv.begin(), kv.end());
      return f(m);
    }
    default:
    {
      std::vector<std::pair<std::string, ctx::ContextValue>> vec(kv.begin(), kv.end());
      ctx::Context r = f(vec);
      for (auto &e : vec)
      {
        for (auto &ch : e.first)
          ch = '\xdd';
        e.second = nostd::monostate{};
      }
      return r;
    }
  }
}
const char *const kContainerNames[] = {"map",   "vec<view>", "unordered_map",   "vec<string>",
                                       "array", "span",      "initializer_list"};

size_t pick_live(vh::Reader &rd, const std::vector<Member> &fam)
{
  // usually the newest live context, otherwise any live one
  std::vector<size_t> live;
  for (size_t i = 0; i < fam.size(); ++i)
    if (fam[i].live)
      live.push_back(i);
  if (rd.chance(50))
    return live[rd.below(static_cast<uint32_t>(live.size()))];
  return live.back();
}

}  // namespace

// ================================================================================================
VH_TARGET(ctx_map, 4,
          "a history is non-trivial when a key is re-bound in a derived context while an ancestor "
          "holding the older binding is still alive and re-queried, or a container of 0 or >=2 "
          "pairs is used, or a context with live descendants is destroyed (values may be objects "
          "that only contexts own; chains reach thousands of bindings); distinct = distinct "
          "operation text")
{
  vh::Reader &rd   = c.rd;
  const KeyPool &kp = pool();
  Objects objs;
  std::vector<Member> fam;
  int next_ident  = 1;
  uint64_t serial = 0;
  std::vector<char> owned_state;  // per owned object: 0 new, 1 seen shadowed-only, 2 seen unreachable
  unsigned huge_chains = 0;
  ObjectsInScope objects_in_scope(&objs);
  {
    Member root;
    root.how   = "Context()";
    root.ident = 0;
    fam.push_back(root);
  }
  auto add = [&](ctx::Context nc, Map m, int parent, int copy_of, const std::string &how, size_t chain,
                 std::set<int> reach = {}) {
    Member mb;
    mb.c      = std::move(nc);
    mb.m      = std::move(m);
    mb.parent = parent;
    mb.how    = how;
    mb.chain  = chain;
    mb.reach  = std::move(reach);
    mb.ident  = classify(fam, mb.c, mb.m, copy_of, &next_ident);
    fam.push_back(std::move(mb));
    c.note("  -> #" + std::to_string(fam.size() - 1) + "\n");
  };
  auto live_count = [&]() {
    size_t n = 0;
    for (auto &m : fam)
      n += m.live ? 1 : 0;
    return n;
  };

  unsigned nops = 1 + rd.below(28);
  for (unsigned op = 0; op < nops && (op == 0 || !rd.exhausted()); ++op)
  {
    size_t kind = rd.weighted({30, 20, 16, 8, 6, 6, 5, 1});
    if (live_count() >= 32 && kind != 2)
      kind = 5;
    if (kind == 7 && huge_chains >= 2)
      kind = 6;
    std::string text;
    bool mutated = true;
    switch (kind)
    {
      case 0:  // SetValue
      {
        size_t ri    = pick_live(rd, fam);
        unsigned ki  = gen_key(rd);
        VSpec vs     = gen_vspec(rd);
        unsigned mode = static_cast<unsigned>(rd.weighted({5, 3, 2}));
        unsigned route = rd.below(3);
        auto val     = make_value(vs, ++serial, objs);
        KeyArg ka(kp.k[ki], mode);
        ctx::Context res;
        if (route == 0)
          res = fam[ri].c.SetValue(ka.view, val.first);
        else if (route == 1)
          res = ctx::RuntimeContext::SetValue(ka.view, val.first, &fam[ri].c);
        else if (vs.alt == 5 && ki == kKeySpan)
          res = trace::SetSpan(fam[ri].c, nostd::get<nostd::shared_ptr<trace::Span>>(val.first));
        else
          res = fam[ri].c.SetValue(ka.view, val.first);
        ka.scribble();
        val.first = nostd::monostate{};
        text = "SetValue(#" + std::to_string(ri) + "," + show_key(kp.k[ki]) + "," + show_val(val.second) +
               ") key:" + ka.mode_name;
        c.note(text + "\n");
        c.tag("op-SetValue");
        c.tag(std::string("key-") + kp.cls[ki]);
        c.tag(std::string("keyarg-") + ka.mode_name);
        c.tag(std::string("val-") + alt_name(val.second.alt));
        Map m = fam[ri].m;
        if (m.count(kp.k[ki]))
        {
          c.tag("rebind-shadow");
          c.nontrivial = true;
        }
        m[kp.k[ki]] = val.second;
        std::set<int> reach = fam[ri].reach;
        add_reach(reach, val.second);
        if (val.second.owned >= 0)
          c.tag(std::string("val-owned-by-contexts-only-") + alt_name(val.second.alt));
        add(std::move(res), std::move(m), static_cast<int>(ri), -1, text, fam[ri].chain + 1, std::move(reach));
        break;
      }
      case 1:  // SetValues
      case 3:  // a new root: Context(key, value) / Context(container)
      {
        bool reshaped = false;
        size_t ri     = kind == 1 ? pick_live(rd, fam) : 0;
        bool single   = kind == 3 && rd.chance(40);
        std::vector<Pair> ps;
        if (single)
          ps.push_back(Pair{gen_key(rd), gen_vspec(rd)});
        else
          ps = gen_pairs(rd, &reshaped);
        // (the upper quarter of the byte that selects the container kind selects the later kinds,
        // so that what the lower values decode to stays as it was)
        unsigned ck_raw = rd.remaining() ? *rd.cursor() : 0;
        unsigned ck     = rd.below(4);
        if (ck_raw >= 192)
          ck = 4 + ck_raw % 3;
        std::vector<std::pair<std::string, ctx::ContextValue>> kv;
        Map m = kind == 1 ? fam[ri].m : Map{};
        std::set<int> reach = kind == 1 ? fam[ri].reach : std::set<int>{};
        std::string ptxt;
        bool shadow = false;
        for (auto &p : ps)
        {
          auto val = make_value(p.v, ++serial, objs);
          kv.emplace_back(kp.k[p.key], val.first);
          shadow = shadow || m.count(kp.k[p.key]) != 0;
          m[kp.k[p.key]] = val.second;
          add_reach(reach, val.second);
          if (val.second.owned >= 0)
            c.tag(std::string("val-owned-by-contexts-only-") + alt_name(val.second.alt));
          ptxt += (ptxt.empty() ? "" : ",") + show_key(kp.k[p.key]) + "=" + show_val(val.second);
          c.tag(std::string("key-") + kp.cls[p.key]);
        }
        ctx::Context res;
        if (single)
        {
          KeyArg ka(kv[0].first, static_cast<unsigned>(rd.weighted({5, 3, 2})));
          res = ctx::Context(ka.view, kv[0].second);
          ka.scribble();
          text = "Context(" + ptxt + ") key:" + ka.mode_name;
          c.tag("op-Context(key,value)");
        }
        else if (kind == 1)
        {
          res  = with_container(ck, kv, [&](auto &cont) { return fam[ri].c.SetValues(cont); });
          text = "SetValues(#" + std::to_string(ri) + ",{" + ptxt + "}) " + kContainerNames[ck];
          c.tag("op-SetValues-" + std::to_string(ps.size()));
        }
        else
        {
          res = with_container(ck, kv, [&](auto &cont) {
            const auto &cc = cont;
            return ctx::Context(cc);
          });
          text = "Context({" + ptxt + "}) " + kContainerNames[ck];
          c.tag("op-Context(container)-" + std::to_string(ps.size()));
        }
        kv.clear();
        if (!single)
          c.tag(std::string("container-") + kContainerNames[ck]);
        if (reshaped)
          c.tag("reshaped-F19");
        c.note(text + "\n");
        if (shadow)
        {
          c.tag("rebind-shadow");
          c.nontrivial = true;
        }
        if (!single && ps.size() != 1)
          c.nontrivial = true;
        add(std::move(res), std::move(m), kind == 1 ? static_cast<int>(ri) : -1, -1, text,
            (kind == 1 ? fam[ri].chain : 0) + ps.size(), std::move(reach));
        break;
      }
      case 2:  // query through a short-lived key view
      {
        size_t ri     = pick_live(rd, fam);
        unsigned ki   = gen_key(rd);
        if (rd.chance(45))
        {
          // prefer a key the receiver (or an ancestor) has bound
          std::vector<unsigned> bound;
          for (unsigned i = 0; i < kp.k.size(); ++i)
            if (fam[ri].m.count(kp.k[i]))
              bound.push_back(i);
          if (!bound.empty())
            ki = bound[rd.below(static_cast<uint32_t>(bound.size()))];
        }
        unsigned mode = static_cast<unsigned>(rd.weighted({5, 3, 2}));
        bool via_rt   = rd.coin();
        KeyArg ka(kp.k[ki], mode);
        text = std::string(via_rt ? "RuntimeContext::GetValue" : "GetValue") + "(#" + std::to_string(ri) +
               "," + show_key(kp.k[ki]) + ") key:" + ka.mode_name;
        c.note(text + "\n");
        c.tag("op-Query");
        c.tag(std::string("keyarg-") + ka.mode_name);
        c.tag(fam[ri].m.count(kp.k[ki]) ? "query-bound" : "query-absent");
        if (via_rt)
        {
          MVal got = observe(ctx::RuntimeContext::GetValue(ka.view, &fam[ri].c));
          MVal exp = lookup(fam[ri].m, kp.k[ki]);
          CK(got == exp, text << " gave " << show_val(got) << ", expected " << show_val(exp));
        }
        else
          check_lookup(fam[ri].c, fam[ri].m, kp.k[ki], ka.view, text + ": context #" + std::to_string(ri));
        ka.scribble();
        mutated = false;
        break;
      }
      case 4:  // copy
      {
        size_t ri = pick_live(rd, fam);
        ctx::Context d;
        bool assign = rd.coin();
        if (assign)
          d = fam[ri].c;
        else
          d = ctx::Context(fam[ri].c);
        text = std::string(assign ? "copy-assign" : "copy-construct") + "(#" + std::to_string(ri) + ")";
        c.note(text + "\n");
        c.tag("op-Copy");
        CK(d == fam[ri].c && fam[ri].c == d, text << ": the copy does not compare equal to its source");
        add(std::move(d), fam[ri].m, fam[ri].parent, static_cast<int>(ri), text, fam[ri].chain, fam[ri].reach);
        break;
      }
      case 6:  // a long chain: many SetValue calls in a row on the newest result, two keys in turn
      case 7:  // a very long one (hundreds to thousands of bindings behind one context)
      {
        // The list of bindings is released recursively, one nested destructor call per binding, so
        // the length is kept far below what the stack of a sanitizer build takes (measured: > 20000
        // under ASan, > 100000 without).  Whether releasing an arbitrarily long chain must work is
        // not something the statement speaks about.
        const bool huge = kind == 7;
        size_t ri  = pick_live(rd, fam);
        unsigned n = huge ? 300 + rd.below(1800) : 8 + rd.below(56);
        static const unsigned pairs[4][2] = {{0, 1}, {kKeyEmpty, 3}, {9, 10}, {11, 12}};
        unsigned ks = rd.below(4);
        // intermediate results that stay in the family: every 16th; very long chains every 512th
        // or, for an odd length, none (the whole chain then goes away in one release)
        const unsigned keep = huge ? ((n & 1) ? n + 1 : 512) : 16;
        if (fam[ri].chain > (huge ? 3000u : 200u))
        {
          mutated = false;
          break;
        }
        if (huge)
          ++huge_chains;
        text = "SetValue x" + std::to_string(n) + "(#" + std::to_string(ri) + "," + show_key(kp.k[pairs[ks][0]]) +
               "/" + show_key(kp.k[pairs[ks][1]]) + ")";
        c.note(text + "\n");
        c.tag("op-SetValue-chain");
        ctx::Context cur = fam[ri].c;
        Map m            = fam[ri].m;
        int parent       = static_cast<int>(ri);
        for (unsigned i = 0; i < n; ++i)
        {
          unsigned ki = pairs[ks][i & 1];
          auto val    = make_value(VSpec{}, ++serial, objs);
          KeyArg ka(kp.k[ki], 0);
          cur = cur.SetValue(ka.view, val.first);  // the intermediate result is dropped right away
          ka.scribble();
          m[kp.k[ki]] = val.second;
          // a few intermediate contexts stay in the family
          if (i % keep == keep - 1 && i + 1 < n && live_count() < 30)
          {
            add(cur, m, parent, -1, text + " step " + std::to_string(i), fam[ri].chain + i + 1, fam[ri].reach);
            parent = static_cast<int>(fam.size() - 1);
          }
        }
        c.tag("rebind-shadow");
        c.nontrivial = true;
        add(std::move(cur), std::move(m), parent, -1, text, fam[ri].chain + n, fam[ri].reach);
        c.tag(fam.back().chain > 1000  ? "chain>1000"
              : fam.back().chain > 100 ? "chain>100"
              : fam.back().chain > 24  ? "chain25-100"
                                       : "chain<=24");
        break;
      }
      default:  // destroy one context; everything derived from it must keep answering
      {
        size_t ri = pick_live(rd, fam);
        if (ri == 0 || live_count() <= 1)
        {
          mutated = false;
          break;
        }
        bool desc = false;
        for (auto &m : fam)
          desc = desc || (m.live && m.parent == static_cast<int>(ri));
        fam[ri].c    = ctx::Context();
        fam[ri].live = false;
        text         = "Drop(#" + std::to_string(ri) + ")";
        c.note(text + "\n");
        c.tag("op-Drop");
        if (desc)
        {
          c.tag("drop-with-descendants");
          c.nontrivial = true;
        }
        break;
      }
    }
    if (mutated)
    {
      sweep(fam, text);
      // objects that only contexts own: alive while any existing context can reach them, also
      // through a shadowed binding.  (That they go away with their last context is observed and
      // counted, not asserted: the statement does not speak about releasing.)
      std::set<int> reach;
      for (auto &mb : fam)
        if (mb.live)
          reach.insert(mb.reach.begin(), mb.reach.end());
      check_reachable_exist(objs, reach, "after " + text);
      owned_state.resize(objs.owned.size(), 0);
      for (size_t id = 0; id < objs.owned.size(); ++id)
      {
        bool reachable = reach.count(static_cast<int>(id)) != 0;
        if (reachable && owned_state[id] == 0)
        {
          bool visible = false;
          for (auto &mb : fam)
            if (mb.live && mb.reach.count(static_cast<int>(id)))
              for (auto &e : mb.m)
                visible = visible || e.second.owned == static_cast<int>(id);
          if (!visible)
          {
            c.tag("owned-value-reachable-only-through-shadowed-bindings");
            owned_state[id] = 1;
          }
        }
        if (!reachable && owned_state[id] < 2)
        {
          c.tag(objs.alive(static_cast<int>(id)) ? "owned-value-exists-without-any-context"
                                                 : "owned-value-released-with-its-last-context");
          owned_state[id] = 2;
        }
      }
    }
  }
  c.tag("family-" + std::string(fam.size() <= 4 ? "<=4" : fam.size() <= 12 ? "5-12" : "13+"));
}

// ================================================================================================
// The runtime-context machine shared by rt_stack and rt_threads
// ================================================================================================
namespace
{

// std::thread throws std::system_error when the OS refuses a thread (a loaded machine); that is
// not a verdict about the code under test, so callers fall back / skip instead of failing
template <class F>
bool start_thread(std::thread &out, F &&f)
{
  try
  {
    out = std::thread(std::forward<F>(f));
    return true;
  }
  catch (const std::system_error &)
  {
    return false;
  }
}

struct Barrier
{
  std::mutex m;
  std::condition_variable cv;
  int parties  = 0;
  int waiting  = 0;
  uint64_t gen = 0;
  void arrive_and_wait()
  {
    std::unique_lock<std::mutex> l(m);
    if (++waiting >= parties)
    {
      waiting = 0;
      ++gen;
      cv.notify_all();
      return;
    }
    uint64_t g = gen;
    cv.wait(l, [&] { return gen != g; });
  }
  void leave()
  {
    std::unique_lock<std::mutex> l(m);
    --parties;
    if (parties > 0 && waiting >= parties)
    {
      waiting = 0;
      ++gen;
      cv.notify_all();
    }
  }
};

enum Kind : uint8_t
{
  K_QUERY = 0,
  K_ATTACH,
  K_DETACH_TOP,
  K_DERIVE_CUR,
  K_DERIVE_FROM,
  K_ATTACH_BURST,
  K_DETACH_ANY,
  K_DESTROY_ANY,
  K_SCOPE_NEW,
  K_SCOPE_END,
  K_COPY_ATTACH,
  K_UNWIND_BURST,
  K_FOREIGN,
  K_SYNC,
  K_YIELD,
  K_SHARED,  // rt_threads: use a Context OBJECT that the other threads use at the same time
};

struct Op
{
  Kind kind  = K_QUERY;
  uint32_t a = 0, b = 0, d = 0;
  unsigned key  = 0;
  unsigned mode = 0;
  VSpec v;
};

// keys the machine binds and looks up (a subset of the pool + the per-thread marker)
const std::vector<unsigned> &machine_keys()
{
  static const std::vector<unsigned> k = {kKeyId, 0, 1, kKeyEmpty, kKeySpan, 3, kKeyRoot, 16};
  return k;
}
const char *const kOwnerKey   = "owner";
const char *const kForeignKey = "foreign";

Op gen_derive(vh::Reader &rd, Kind kind)
{
  Op o;
  o.kind = kind;
  o.a    = rd.u8();
  o.b    = rd.u8();
  // most derived contexts get a fresh "id" so that almost every frame answers differently
  o.key  = rd.chance(45) ? machine_keys()[rd.below(static_cast<uint32_t>(machine_keys().size()))] : kKeyId;
  o.mode = static_cast<unsigned>(rd.weighted({5, 3, 2}));
  if (o.key == kKeySpan && rd.chance(70))
  {
    o.v.alt = 5;
    o.v.sub = rd.u8();
  }
  else
    o.v = gen_vspec(rd);
  return o;
}

struct Program
{
  std::vector<Op> ops;
  unsigned end_mode = 0;
  unsigned profile  = 0;
};

Program gen_program(vh::Reader &rd, unsigned max_ops, bool foreign, bool threads)
{
  Program p;
  unsigned nf = 1 + rd.below(5);
  for (unsigned i = 0; i < nf; ++i)
    p.ops.push_back(gen_derive(rd, K_DERIVE_FROM));
  p.profile  = static_cast<unsigned>(rd.weighted({4, 3, 3}));
  p.end_mode = static_cast<unsigned>(rd.weighted({5, 2, 3}));
  unsigned n = 1 + rd.below(max_ops);
  unsigned wF = foreign ? 3 : 0, wS = threads ? 8 : 0, wY = threads ? 4 : 0, wH = threads ? 10 : 0;
  for (unsigned i = 0; i < n && (i == 0 || !rd.exhausted()); ++i)
  {
    size_t k;
    if (p.profile == 0)
      k = rd.weighted({6, 20, 12, 8, 6, 4, 10, 8, 10, 6, 4, 2, wF, wS, wY, wH});
    else if (p.profile == 1)
      k = rd.weighted({4, 16, 8, 6, 4, 14, 12, 8, 10, 6, 4, 6, wF, wS, wY, wH});
    else
      k = rd.weighted({3, 10, 5, 5, 3, 28, 12, 8, 8, 5, 3, 8, wF, wS, wY, wH});
    Op o;
    o.kind = static_cast<Kind>(k);
    switch (o.kind)
    {
      case K_QUERY:
        o.key  = machine_keys()[rd.below(static_cast<uint32_t>(machine_keys().size()))];
        o.mode = static_cast<unsigned>(rd.weighted({5, 3, 2}));
        break;
      case K_DERIVE_CUR:
      case K_DERIVE_FROM:
      case K_SHARED:
        o = gen_derive(rd, o.kind);
        break;
      case K_ATTACH_BURST:
        o.a = rd.u8();
        o.b = p.profile == 0 ? 2 + rd.below(3) : p.profile == 1 ? 3 + rd.below(10) : 8 + rd.below(33);
        o.d = static_cast<uint32_t>(rd.weighted({5, 2, 2, 1}) == 0 ? 1 : rd.below(4));  // stride through the family
        break;
      case K_UNWIND_BURST:
        o.b = p.profile == 0 ? 1 + rd.below(3) : 2 + rd.below(12);
        o.a = rd.u8();
        break;
      case K_SYNC:
      case K_YIELD:
        break;
      default:
        o.a = rd.u8();
        o.b = rd.u8();
        break;
    }
    p.ops.push_back(o);
  }
  return p;
}

std::string show_op(const Op &o)
{
  static const char *n[] = {"query", "attach", "detach-top", "derive-cur", "derive-from", "attach-burst",
                            "detach-any", "destroy-any", "scope-new", "scope-end", "copy-attach",
                            "unwind-burst", "foreign", "sync", "yield", "shared-object"};
  std::ostringstream s;
  s << n[o.kind];
  switch (o.kind)
  {
    case K_QUERY:
      s << "(" << show_key(pool().k[o.key]) << ",m" << o.mode << ")";
      break;
    case K_DERIVE_CUR:
    case K_DERIVE_FROM:
    case K_SHARED:
      s << "(" << o.a << "," << o.b << "," << show_key(pool().k[o.key]) << ",alt" << int(o.v.alt) << "/"
        << int(o.v.sub) << ",m" << o.mode << ")";
      break;
    case K_ATTACH_BURST:
      s << "(" << o.a << ",n=" << o.b << ",stride=" << o.d << ")";
      break;
    case K_UNWIND_BURST:
      s << "(n=" << o.b << "," << o.a << ")";
      break;
    case K_SYNC:
    case K_YIELD:
      break;
    default:
      s << "(" << o.a << "," << o.b << ")";
      break;
  }
  return s.str();
}

struct Frame
{
  int fam;
  int creator;  // >=0: index into toks; <0: -(index into scps)-1
};

struct Tok
{
  nostd::unique_ptr<ctx::Token> t;
  int ident      = 0;
  int fam        = -1;
  bool foreign   = false;
  bool detached  = false;  // an explicit Detach was already issued on it
  // a Detach of THIS token already matched an Attach (frames were popped for it): the token has no
  // matching Attach left, presenting it again (Detach / destructor) must change nothing
  bool consumed  = false;
};

struct Scp
{
  std::unique_ptr<trace::Scope> s;
  int ident = 0;
  int fam   = -1;
};

enum Expect
{
  E_FALSE,
  E_TRUE,
  E_ANY
};

constexpr size_t kMaxDepth  = 72;
constexpr size_t kMaxFamily = 64;
constexpr size_t kMaxTokens = 260;

struct Machine
{
  Objects objs;
  std::vector<Member> fam;
  std::vector<Tok> toks;
  std::vector<Scp> scps;
  std::vector<Frame> stack;
  std::vector<char> owned_state;
  std::string log;
  std::vector<std::string> tags;
  bool nontrivial  = false;
  uint64_t serial  = 0;
  int next_ident   = 1;
  size_t max_depth = 0;
  int tid          = -1;
  Barrier *barrier = nullptr;
  // rt_threads: Context objects owned by the driver thread that every thread uses directly (not
  // through a copy) while the others do the same; member shared_first + i is this thread's copy
  std::vector<ctx::Context> *shared = nullptr;
  const std::vector<Map> *shared_m  = nullptr;
  size_t shared_first               = 1;
  // the step being executed, for messages (rendered only when a check fails)
  const char *phase  = "thread start";
  const Op *cur_op   = nullptr;
  size_t cur_index   = 0;
  struct StepText
  {
    const Machine *m;
  };
  StepText step{this};
  friend std::ostream &operator<<(std::ostream &o, const StepText &s)
  {
    if (s.m->cur_op)
      return o << "step " << s.m->cur_index << " " << show_op(*s.m->cur_op);
    return o << s.m->phase;
  }

  void tag(const std::string &t) { tags.push_back(t); }

  explicit Machine(int thread_id) : tid(thread_id)
  {
    Member root;
    root.how   = "Context()";
    root.ident = 0;
    fam.push_back(root);
  }

  size_t add_member(ctx::Context nc, Map m, int copy_of, const std::string &how, bool hold = true,
                    std::set<int> reach = {})
  {
    Member mb;
    mb.m     = std::move(m);
    mb.how   = how;
    mb.reach = std::move(reach);
    mb.ident = classify(fam, nc, mb.m, copy_of, &next_ident);
    mb.live  = hold;
    if (hold)
      mb.c = std::move(nc);
    fam.push_back(std::move(mb));
    return fam.size() - 1;
  }

  // a context that was just derived answers as the model says (all machine keys + the marker)
  void verify_member(size_t fi)
  {
    const KeyPool &kp = pool();
    const Member &mb  = fam[fi];
    for (unsigned ki : machine_keys())
      check_lookup(mb.c, mb.m, kp.k[ki], nostd::string_view(kp.k[ki].data(), kp.k[ki].size()),
                   "new context #" + std::to_string(fi) + " (" + mb.how + ")");
    check_lookup(mb.c, mb.m, kOwnerKey, kOwnerKey, "new context #" + std::to_string(fi) + " (" + mb.how + ")");
  }

  const Member &top() const { return stack.empty() ? fam[0] : fam[static_cast<size_t>(stack.back().fam)]; }

  Expect model_detach(int ident)
  {
    if (stack.empty())
      return ident == fam[0].ident ? E_ANY : E_FALSE;  // nothing to restore; nothing changes
    if (fam[static_cast<size_t>(stack.back().fam)].ident == ident)
    {
      stack.pop_back();
      return E_TRUE;
    }
    for (size_t p = stack.size(); p-- > 0;)
      if (fam[static_cast<size_t>(stack[p].fam)].ident == ident)
      {
        // out of order: everything attached above the match is unwound as well
        tag("detach-out-of-order");
        if (stack.size() - p > 8)
          tag("detach-out-of-order-unwinds>8");
        nontrivial = true;
        stack.resize(p);
        return E_TRUE;
      }
    return E_FALSE;
  }

  // GetCurrent(), value look-ups through the runtime context and the active span against the model
  void check_current()
  {
    const Member &t  = top();
    ctx::Context cur = ctx::RuntimeContext::GetCurrent();
    // rendered only when a check fails
    auto where = [this] {
      std::ostringstream o;
      o << "after " << step << " (model depth " << stack.size() << ", expected current = ";
      if (stack.empty())
        o << "the empty context";
      else
        o << "#" << stack.back().fam << " " << top().how;
      o << ")";
      return o.str();
    };
    if (t.live)
      CK(cur == t.c, where() << ": GetCurrent() is not the expected context");
    const KeyPool &kp = pool();
    for (unsigned ki : machine_keys())
    {
      const std::string &k = kp.k[ki];
      nostd::string_view view(k.data(), k.size());
      ctx::ContextValue gv = (ki & 1) ? cur.GetValue(view) : ctx::RuntimeContext::GetValue(view);
      MVal got = observe(gv);
      MVal exp = lookup(t.m, k);
      CK(got == exp, where() << ": the current context answers " << show_val(got) << " for key "
                           << show_key(k) << ", expected " << show_val(exp));
      if (exp.owned >= 0)
        deref_check(gv, exp, where() + ": the current context", k);
    }
    {
      MVal got = observe(ctx::RuntimeContext::GetValue(kOwnerKey));
      MVal exp = lookup(t.m, kOwnerKey);
      CK(got == exp, where() << ": the current context carries the marker " << show_val(got)
                           << " but this thread's model says " << show_val(exp)
                           << " (a context attached by another thread is visible here?)");
      CK(!cur.HasKey(kForeignKey), where() << ": the current context is one that only a helper thread attached");
    }
    // a context of different content must not compare equal to the current one
    if (stack.size() >= 2)
    {
      const Member &below = fam[static_cast<size_t>(stack[stack.size() - 2].fam)];
      if (below.live && below.m != t.m)
        CK(!(cur == below.c), where() << ": GetCurrent() compares equal to the frame below the top");
    }
    // active span
    MVal sv   = lookup(t.m, trace::kSpanKey);
    auto sp   = trace::Tracer::GetCurrentSpan();
    auto sp2  = trace::GetSpan(cur);
    CK(sp.get() != nullptr && sp2.get() != nullptr, where() << ": GetCurrentSpan()/GetSpan() returned null");
    if (sv.alt == 5)
    {
      CK(sp.get() == sv.ptr, where() << ": Tracer::GetCurrentSpan() is not the span bound in the current context");
      CK(sp2.get() == sv.ptr, where() << ": trace::GetSpan(GetCurrent()) is not the span bound in the current context");
      if (sv.owned >= 0)
        deref_check(ctx::ContextValue(sp), sv, where() + ": Tracer::GetCurrentSpan()", trace::kSpanKey);
    }
    else
    {
      CK(!objs.ours(sp.get()) && !sp->GetContext().IsValid(),
         where() << ": no span is active but Tracer::GetCurrentSpan() returned "
               << (objs.ours(sp.get()) ? "one of the spans used earlier" : "a valid span"));
      CK(!objs.ours(sp2.get()) && !sp2->GetContext().IsValid(),
         where() << ": no span is active but trace::GetSpan(GetCurrent()) returned a real span");
    }
  }

  // Objects that only contexts own must exist as long as a context that can reach them does: the
  // contexts the harness holds, every frame of the stack, and the context inside every token /
  // scope that still exists (a token keeps its context).
  void check_owned()
  {
    if (objs.owned.empty())
      return;
    std::vector<char> reach(objs.owned.size(), 0);
    auto take = [&](int fi) {
      if (fi >= 0)
        for (int id : fam[static_cast<size_t>(fi)].reach)
          reach[static_cast<size_t>(id)] = 1;
    };
    for (size_t i = 0; i < fam.size(); ++i)
      if (fam[i].live)
        take(static_cast<int>(i));
    for (auto &f : stack)
      take(f.fam);
    for (auto &tk : toks)
      if (tk.t.get() != nullptr)
        take(tk.fam);
    for (auto &sc : scps)
      if (sc.s)
        take(sc.fam);
    owned_state.resize(objs.owned.size(), 0);
    for (size_t id = 0; id < objs.owned.size(); ++id)
    {
      if (reach[id])
        CK(objs.alive(static_cast<int>(id)),
           "after " << step << ": the " << alt_name(objs.owned[id].alt) << " #own" << id
                    << " was destroyed although a context that still exists (held by the program, a stack frame "
                    << "or a token) holds a binding to it");
      else if (owned_state[id] == 0)
      {
        // observed, not asserted
        tag(objs.alive(static_cast<int>(id)) ? "owned-value-exists-without-any-context"
                                             : "owned-value-released-with-its-last-context");
        owned_state[id] = 1;
      }
    }
  }

  void push_frame(size_t fi, int creator)
  {
    stack.push_back(Frame{static_cast<int>(fi), creator});
    if (stack.size() > max_depth)
      max_depth = stack.size();
  }

  void do_attach(size_t fi, bool via_copy, const ctx::Context *direct = nullptr)
  {
    Tok tk;
    if (direct != nullptr)
      tk.t = ctx::RuntimeContext::Attach(*direct);  // an object other threads use at the same time
    else if (via_copy)
    {
      // the caller's Context object dies right after the call: the stack must hold its own copy
      std::unique_ptr<ctx::Context> tmp(new ctx::Context(fam[fi].c));
      tk.t = ctx::RuntimeContext::Attach(*tmp);
      tmp.reset();
    }
    else
      tk.t = ctx::RuntimeContext::Attach(fam[fi].c);
    CK(tk.t.get() != nullptr, "Attach returned a null token (" << step << ")");
    CK(*tk.t == fam[fi].c, "the token returned by Attach does not match the attached context (" << step << ")");
    tk.ident = fam[fi].ident;
    tk.fam   = static_cast<int>(fi);
    for (auto &f : stack)
      if (fam[static_cast<size_t>(f.fam)].ident == tk.ident)
      {
        tag("attach-same-context-again");
        break;
      }
    toks.push_back(std::move(tk));
    push_frame(fi, static_cast<int>(toks.size() - 1));
  }

  std::vector<size_t> live_tokens() const
  {
    std::vector<size_t> v;
    for (size_t i = 0; i < toks.size(); ++i)
      if (toks[i].t.get() != nullptr)
        v.push_back(i);
    return v;
  }
  std::vector<size_t> live_scopes() const
  {
    std::vector<size_t> v;
    for (size_t i = 0; i < scps.size(); ++i)
      if (scps[i].s)
        v.push_back(i);
    return v;
  }
  std::vector<size_t> held_members() const
  {
    std::vector<size_t> v;
    for (size_t i = 0; i < fam.size(); ++i)
      if (fam[i].live)
        v.push_back(i);
    return v;
  }

  size_t frames_with(int ident) const
  {
    size_t n = 0;
    for (auto &f : stack)
      n += fam[static_cast<size_t>(f.fam)].ident == ident ? 1 : 0;
    return n;
  }

  // What presenting a token (explicit Detach or its destructor) must do.  Decided per token, as the
  // statement puts it ("restores the context that was current before the MATCHING Attach ... a
  // foreign token changes nothing"): a token whose Detach already succeeded has no matching Attach
  // left.  A token that never matched anything is matched by its context, most recent frame first
  // (the quantifier's "a context attached more than once is matched most-recent-first").
  Expect model_present(Tok &tk)
  {
    if (tk.consumed)
    {
      if (frames_with(tk.ident) != 0)
      {
        tag("consumed-token-again-equal-frame-must-stay");
        nontrivial = true;
      }
      // the empty context's token on an empty stack: the return value is not specified
      return stack.empty() && tk.ident == fam[0].ident ? E_ANY : E_FALSE;
    }
    Expect e = model_detach(tk.ident);
    if (e == E_TRUE)
      tk.consumed = true;
    return e;
  }

  // finding C10-detach-twice, while it is open: a token whose Detach already succeeded is not
  // presented again as long as a frame holding an equal context is on the stack (the step is
  // skipped; the token is released later, when nothing can match it)
  bool must_defer(const Tok &tk) const
  {
    return tk.consumed && avoid_detach_twice() && frames_with(tk.ident) != 0;
  }

  // a clearer message than the general comparison that follows every step
  void check_used_up_token_changed_nothing(const char *what)
  {
    const Member &t = top();
    if (t.live)
      CK(ctx::RuntimeContext::GetCurrent() == t.c,
         step << ": " << what << " a token whose Detach had already succeeded changed the current context: "
              << "the token has no matching Attach left, but a frame that holds an equal context (attached by "
              << "another Attach) was popped (model depth " << stack.size() << ")");
  }

  void explicit_detach(size_t ti)
  {
    Tok &tk = toks[ti];
    if (must_defer(tk))
    {
      count_excl(kDetachTwice);
      tag("reshaped-C10-detach-twice");
      return;
    }
    size_t depth_before = stack.size();
    bool on_stack       = frames_with(tk.ident) != 0;
    bool was_consumed   = tk.consumed;
    Expect e = model_present(tk);
    bool r   = ctx::RuntimeContext::Detach(*tk.t);
    if (e != E_ANY)
      CK(r == (e == E_TRUE), step << ": Detach returned " << r << " but "
                                  << (was_consumed ? "an earlier Detach of this very token already succeeded"
                                      : e == E_TRUE ? "the token's context is on this thread's stack"
                                                    : "the token's context is not on this thread's stack")
                                  << " (depth " << depth_before << ")");
    if (was_consumed && on_stack)
      check_used_up_token_changed_nothing("detaching");
    if (was_consumed)
      tag(on_stack ? "detach-again-equal-frame-untouched" : "detach-again-noop");
    else if (!on_stack)
    {
      tag(tk.foreign ? "detach-foreign-thread-token" : "detach-stale-noop");
      if (e == E_ANY)
        tag("detach-empty-context-token-on-empty-stack");
    }
    tk.detached = true;
    if (e == E_ANY && !was_consumed)
    {
      // whether that Detach counts as a match is as unspecified as its return value: the token is
      // released right away (the stack is empty, nothing can change) so that no later step depends
      // on it
      tk.t.reset();
    }
  }

  void destroy_token(size_t ti)
  {
    Tok &tk = toks[ti];
    if (must_defer(tk))
    {
      count_excl(kDetachTwice);
      tag("reshaped-C10-detach-twice");
      return;
    }
    bool was_consumed = tk.consumed;
    bool equal_frame  = frames_with(tk.ident) != 0;
    model_present(tk);
    tk.t.reset();
    if (was_consumed && equal_frame)
      check_used_up_token_changed_nothing("destroying");
    tag(was_consumed ? "token-destroyed-after-successful-detach"
        : tk.detached ? "token-destroyed-after-detach" : "token-destroyed-attached");
  }

  void end_scope(size_t si)
  {
    model_detach(scps[si].ident);
    scps[si].s.reset();
    tag("scope-end");
  }

  // detach the frame on top through whatever created it
  void detach_top(bool prefer_explicit)
  {
    if (stack.empty())
      return;
    Frame f = stack.back();
    if (f.creator < 0)
    {
      size_t si = static_cast<size_t>(-f.creator - 1);
      if (scps[si].s)
      {
        end_scope(si);
        return;
      }
    }
    else if (toks[static_cast<size_t>(f.creator)].t.get() != nullptr && !toks[static_cast<size_t>(f.creator)].consumed)
    {
      if (prefer_explicit)
        explicit_detach(static_cast<size_t>(f.creator));
      else
        destroy_token(static_cast<size_t>(f.creator));
      return;
    }
    // its creator is gone or used up (an equal context was matched instead): use any live token of
    // that identity that did not match anything yet
    int ident = fam[static_cast<size_t>(f.fam)].ident;
    for (size_t i = toks.size(); i-- > 0;)
      if (toks[i].t.get() != nullptr && toks[i].ident == ident && !toks[i].consumed)
      {
        if (prefer_explicit)
          explicit_detach(i);
        else
          destroy_token(i);
        return;
      }
  }

  void foreign(const Op &o)
  {
    unsigned variant = o.a % 3;
    std::string err;
    if (variant == 2)
    {
      // another thread calls Detach with one of OUR tokens: it is foreign over there
      auto lt = live_tokens();
      if (lt.empty())
        return;
      size_t pick = lt[o.b % lt.size()];
      // A token of the empty context "matches" the helper thread's empty stack: return value and
      // whether that uses the token up are unspecified.  Such a token is only lent out when no
      // frame of this thread could match it afterwards, and it is released right after the visit.
      auto undecidable = [&](size_t i) {
        return toks[i].ident == fam[0].ident && !toks[i].consumed && frames_with(toks[i].ident) != 0;
      };
      for (size_t k = 0; k < lt.size() && undecidable(pick); ++k)
        pick = lt[(o.b + 1 + k) % lt.size()];
      if (undecidable(pick))
        return;
      Tok &tk        = toks[pick];
      ctx::Token *tp = tk.t.get();
      bool is_empty_ctx = tk.ident == fam[0].ident;
      bool release_after = is_empty_ctx && !tk.consumed;
      std::thread th;
      bool started = start_thread(th, [&err, tp, is_empty_ctx] {
        try
        {
          CK(ctx::RuntimeContext::GetCurrent() == ctx::Context(),
             "a new thread starts with a non-empty runtime context");
          bool r = ctx::RuntimeContext::Detach(*tp);
          if (!is_empty_ctx)
            CK(!r, "Detach of a token that belongs to another thread returned true");
          CK(ctx::RuntimeContext::GetCurrent() == ctx::Context(),
             "Detach of another thread's token changed the helper thread's current context");
        }
        catch (vh::Fail &f)
        {
          err = f.msg;
        }
      });
      if (!started)
      {
        tag("thread-create-failed");
        return;
      }
      th.join();
      tag("foreign-detach-of-our-token");
      if (release_after && err.empty())
      {
        tk.t.reset();  // no frame here holds the empty context: nothing changes under any reading
        tag("foreign-detach-of-our-empty-context-token");
      }
    }
    else
    {
      auto hm         = held_members();
      size_t fi       = hm[o.b % hm.size()];
      ctx::Context fc = fam[fi].c.SetValue(kForeignKey, static_cast<int64_t>(++serial));
      nostd::unique_ptr<ctx::Token> handed;
      std::thread th;
      bool started = start_thread(th, [&err, &handed, &fc, variant] {
        try
        {
          CK(ctx::RuntimeContext::GetCurrent() == ctx::Context(),
             "a new thread starts with a non-empty runtime context");
          CK(!ctx::RuntimeContext::GetCurrent().HasKey(kOwnerKey) &&
                 !ctx::RuntimeContext::GetCurrent().HasKey(pool().k[kKeyId]),
             "a new thread sees values of a context attached by the thread that started it");
          auto tk = ctx::RuntimeContext::Attach(fc);
          CK(ctx::RuntimeContext::GetCurrent() == fc, "GetCurrent() on the helper thread is not what it attached");
          if (variant == 1)
          {
            CK(ctx::RuntimeContext::Detach(*tk), "Detach of the helper thread's own top token returned false");
            CK(ctx::RuntimeContext::GetCurrent() == ctx::Context(), "helper thread: Detach did not restore the empty context");
          }
          handed = std::move(tk);  // variant 0: the frame is still attached when the thread ends
        }
        catch (vh::Fail &f)
        {
          err = f.msg;
        }
      });
      if (!started)
      {
        tag("thread-create-failed");
        return;
      }
      th.join();
      if (err.empty() && handed.get() != nullptr)
      {
        Tok tk;
        tk.t       = std::move(handed);
        tk.ident   = next_ident++;  // differs in content ("foreign" key) from everything attachable here
        tk.foreign = true;
        tk.detached = variant == 1;
        tk.consumed = variant == 1;
        toks.push_back(std::move(tk));
      }
      tag(variant == 0 ? "foreign-token-still-attached-there" : "foreign-token-detached-there");
    }
    CK(err.empty(), step << ": " << err);
  }

  void exec(const Op &o)
  {
    const KeyPool &kp = pool();
    switch (o.kind)
    {
      case K_QUERY:
      {
        KeyArg ka(kp.k[o.key], o.mode);
        MVal got = observe(ctx::RuntimeContext::GetValue(ka.view));
        ka.scribble();
        MVal exp = lookup(top().m, kp.k[o.key]);
        CK(got == exp, step << ": RuntimeContext::GetValue gave " << show_val(got) << ", expected "
                            << show_val(exp) << " (model depth " << stack.size() << ")");
        break;
      }
      case K_ATTACH:
      case K_COPY_ATTACH:
      {
        if (stack.size() >= kMaxDepth || toks.size() >= kMaxTokens)
          break;
        auto hm = held_members();
        do_attach(hm[o.a % hm.size()], o.kind == K_COPY_ATTACH);
        tag(o.kind == K_COPY_ATTACH ? "attach-temporary-copy" : "attach");
        break;
      }
      case K_ATTACH_BURST:
      {
        auto hm    = held_members();
        size_t idx = o.a % hm.size();
        for (uint32_t i = 0; i < o.b && stack.size() < kMaxDepth && toks.size() < kMaxTokens; ++i)
        {
          do_attach(hm[idx], false);
          idx = (idx + o.d) % hm.size();  // stride 0: the same context again and again
          check_current();
        }
        tag("attach-burst");
        break;
      }
      case K_DETACH_TOP:
        detach_top((o.b & 1) != 0);
        break;
      case K_UNWIND_BURST:
        for (uint32_t i = 0; i < o.b && !stack.empty(); ++i)
        {
          size_t before = stack.size();
          detach_top(((o.a >> (i % 8)) & 1) != 0);
          if (stack.size() == before)
            break;
          check_current();
        }
        tag("unwind-burst");
        break;
      case K_DERIVE_CUR:
      case K_DERIVE_FROM:
      {
        if (fam.size() >= kMaxFamily)
          break;
        auto val = make_value(o.v, ++serial, objs);
        KeyArg ka(kp.k[o.key], o.mode);
        ctx::Context res;
        Map m;
        std::set<int> reach;
        std::string how;
        if (o.kind == K_DERIVE_CUR)
        {
          res = ctx::RuntimeContext::SetValue(ka.view, val.first);
          m   = top().m;
          reach = top().reach;
          how = "current+" + show_key(kp.k[o.key]) + "=" + show_val(val.second);
        }
        else
        {
          auto hm   = held_members();
          size_t fi = hm[o.a % hm.size()];
          if (o.b % 3 == 0)
            res = ctx::RuntimeContext::SetValue(ka.view, val.first, &fam[fi].c);
          else if (o.b % 3 == 1 && o.key == kKeySpan && val.second.alt == 5)
            res = trace::SetSpan(fam[fi].c, nostd::get<nostd::shared_ptr<trace::Span>>(val.first));
          else
            res = fam[fi].c.SetValue(ka.view, val.first);
          m   = fam[fi].m;
          reach = fam[fi].reach;
          how = "#" + std::to_string(fi) + "+" + show_key(kp.k[o.key]) + "=" + show_val(val.second);
          // sometimes keep an extra copy as its own family member (same identity as its source)
          if (o.b % 7 == 3 && fam.size() + 1 < kMaxFamily)
          {
            ctx::Context cp = fam[fi].c;
            add_member(cp, fam[fi].m, static_cast<int>(fi), "copy of #" + std::to_string(fi), true, fam[fi].reach);
            tag("family-copy");
          }
        }
        ka.scribble();
        val.first      = nostd::monostate{};  // an object made for this binding is now owned by contexts only
        m[kp.k[o.key]] = val.second;
        add_reach(reach, val.second);
        if (val.second.owned >= 0)
          tag(std::string("val-owned-by-contexts-only-") + alt_name(val.second.alt));
        if (tid >= 0 && o.kind == K_DERIVE_FROM && m.find(kOwnerKey) == m.end())
        {
          // rt_threads: everything a thread derives from the empty context carries its marker
          res          = res.SetValue(kOwnerKey, static_cast<int64_t>(tid));
          m[kOwnerKey] = observe(ctx::ContextValue(static_cast<int64_t>(tid)));
        }
        size_t ni = add_member(std::move(res), std::move(m), -1, how, true, std::move(reach));
        verify_member(ni);
        tag(o.kind == K_DERIVE_CUR ? "derive-from-current" : "derive");
        break;
      }
      case K_DETACH_ANY:
      {
        auto lt = live_tokens();
        if (lt.empty())
          break;
        explicit_detach(lt[o.a % lt.size()]);
        break;
      }
      case K_DESTROY_ANY:
      {
        auto lt = live_tokens();
        if (lt.empty())
          break;
        destroy_token(lt[o.a % lt.size()]);
        break;
      }
      case K_SCOPE_NEW:
      {
        if (stack.size() >= kMaxDepth || fam.size() >= kMaxFamily)
          break;
        // (o.b & 4): a span made for this scope that nothing but the scope's context will own
        int owned_id = -1;
        nostd::shared_ptr<trace::Span> span =
            (o.b & 4) ? objs.new_owned_span(++serial, &owned_id) : objs.spans[o.a % objs.spans.size()];
        Scp s;
        if (o.b & 1)
          s.s.reset(new trace::Scope(trace::Tracer::WithActiveSpan(span)));
        else
          s.s.reset(new trace::Scope(span));
        Map m              = top().m;
        std::set<int> reach = top().reach;
        m[trace::kSpanKey] = observe(ctx::ContextValue(span));
        m[trace::kSpanKey].owned = owned_id;
        span = nostd::shared_ptr<trace::Span>();
        if (owned_id >= 0)
        {
          reach.insert(owned_id);
          tag("scope-for-a-span-only-its-context-owns");
        }
        // the context the Scope attached is only reachable through GetCurrent(); half of the time
        // the harness does not keep it, so that the runtime stack is its only owner
        bool hold = (o.b & 2) != 0;
        size_t fi = add_member(ctx::RuntimeContext::GetCurrent(), std::move(m), -1,
                               owned_id >= 0 ? "Scope(span own" + std::to_string(owned_id) + ")"
                                             : "Scope(span" + std::to_string(o.a % objs.spans.size()) + ")",
                               hold, std::move(reach));
        s.ident = fam[fi].ident;
        s.fam   = static_cast<int>(fi);
        scps.push_back(std::move(s));
        push_frame(fi, -static_cast<int>(scps.size() - 1) - 1);
        tag(hold ? "scope-new-held" : "scope-new");
        break;
      }
      case K_SCOPE_END:
      {
        auto ls = live_scopes();
        if (ls.empty())
          break;
        size_t si = ls[o.a % ls.size()];
        if (!stack.empty() && stack.back().creator != -static_cast<int>(si) - 1)
          tag("scope-end-not-on-top");
        end_scope(si);
        break;
      }
      case K_FOREIGN:
        foreign(o);
        break;
      case K_SHARED:
      {
        if (shared == nullptr || shared->empty())
          break;
        size_t si        = o.a % shared->size();
        ctx::Context &sc = (*shared)[si];  // the very object the other threads are using right now
        const Map &sm    = (*shared_m)[si];
        size_t member    = shared_first + si;
        std::string who  = "the shared context object " + std::to_string(si) + " (" + show_op(o) + ")";
        unsigned variant = o.b % 5;
        if (variant == 0)
        {
          const std::string &k = kp.k[o.key];
          KeyArg ka(k, o.mode);
          check_lookup(sc, sm, k, ka.view, who);
          MVal got = observe(ctx::RuntimeContext::GetValue(ka.view, &sc));
          ka.scribble();
          CK(got == lookup(sm, k), who << ": RuntimeContext::GetValue(key, &shared) gave " << show_val(got)
                                       << " for key " << show_key(k) << ", expected " << show_val(lookup(sm, k)));
          check_lookup(sc, sm, kp.k[kKeyId], nostd::string_view(kp.k[kKeyId].data(), kp.k[kKeyId].size()), who);
          check_lookup(sc, sm, kOwnerKey, kOwnerKey, who);
          CK(sc == fam[member].c && fam[member].c == sc,
             who << " no longer compares equal to the copy this thread took of it at the start");
          tag("shared-object-lookup");
        }
        else if (variant == 4)
        {
          if (stack.size() >= kMaxDepth || toks.size() >= kMaxTokens)
            break;
          do_attach(member, false, &sc);
          tag("shared-object-attach");
        }
        else
        {
          if (fam.size() >= kMaxFamily)
            break;
          auto val = make_value(o.v, ++serial, objs);
          Map m    = sm;
          ctx::Context res;
          if (variant == 3)
          {
            // SetValues with two pairs: the drawn key and a second one
            const std::string &k2 = kp.k[o.key == 1 ? 0 : 1];
            std::map<std::string, ctx::ContextValue> cont;
            cont[kp.k[o.key]] = val.first;
            cont[k2]          = static_cast<int64_t>(tid);
            res               = sc.SetValues(cont);
            m[k2]             = observe(ctx::ContextValue(static_cast<int64_t>(tid)));
            tag("shared-object-setvalues");
          }
          else
          {
            KeyArg ka(kp.k[o.key], o.mode);
            res = variant == 1 ? sc.SetValue(ka.view, val.first)
                               : ctx::RuntimeContext::SetValue(ka.view, val.first, &sc);
            ka.scribble();
            tag("shared-object-setvalue");
          }
          val.first      = nostd::monostate{};
          m[kp.k[o.key]] = val.second;
          std::set<int> reach;
          add_reach(reach, val.second);
          size_t ni = add_member(std::move(res), std::move(m), -1,
                                 "shared" + std::to_string(si) + "+" + show_key(kp.k[o.key]) + "=" +
                                     show_val(val.second),
                                 true, std::move(reach));
          verify_member(ni);
          // the shared object itself is untouched
          check_lookup(sc, sm, kp.k[o.key], nostd::string_view(kp.k[o.key].data(), kp.k[o.key].size()), who);
        }
        break;
      }
      case K_SYNC:
        if (barrier)
          barrier->arrive_and_wait();
        break;
      case K_YIELD:
        std::this_thread::yield();
        break;
    }
  }

  // everything still alive is released in a generated order; afterwards the stack must be empty
  void unwind_all(unsigned end_mode)
  {
    cur_op = nullptr;
    phase  = "final unwind";
    size_t guard = 0;
    while (guard++ < 2000)
    {
      auto lt = live_tokens();
      auto ls = live_scopes();
      if (lt.empty() && ls.empty())
        break;
      // (finding C10-detach-twice open: used-up tokens wait until nothing on the stack equals them)
      for (size_t i = lt.size(); i-- > 0;)
        if (must_defer(toks[lt[i]]))
          lt.erase(lt.begin() + static_cast<std::ptrdiff_t>(i));
      CK(!lt.empty() || !ls.empty(), "harness model error: only deferred tokens left on a non-empty stack");
      if (end_mode == 0)
      {
        // stack order: whatever created the top frame goes first; leftovers newest first
        if (!stack.empty())
        {
          size_t before = stack.size();
          detach_top(false);
          if (stack.size() != before)
          {
            check_current();
            continue;
          }
        }
        if (!lt.empty())
          destroy_token(lt.back());
        else
          end_scope(ls.back());
      }
      else if (end_mode == 1)
      {
        // creation order: the first release unwinds everything, the rest must change nothing
        if (!lt.empty())
          destroy_token(lt.front());
        else
          end_scope(ls.front());
      }
      else
      {
        size_t n = lt.size() + ls.size();
        size_t i = (serial * 7 + guard * 13) % n;
        if (i < lt.size())
          destroy_token(lt[i]);
        else
          end_scope(ls[i - lt.size()]);
      }
      check_current();
      if (guard % 4 == 0)
        check_owned();
    }
    CK(stack.empty(), "harness model error: frames left after every token was released");
    check_current();
    check_owned();
    CK(ctx::RuntimeContext::GetCurrent() == ctx::Context(),
       "after releasing every token and scope the current context is not the empty context");
  }

  void run(const Program &p)
  {
    ObjectsInScope objects_in_scope(&objs);
    phase = "thread start";
    check_current();
    size_t i = 0;
    for (auto &o : p.ops)
    {
      cur_op    = &o;
      cur_index = i++;
      exec(o);
      check_current();
      check_owned();
    }
    if (max_depth > 8)
      nontrivial = true;
    tag(max_depth <= 2 ? "depth<=2" : max_depth <= 6 ? "depth3-6" : max_depth <= 14 ? "depth7-14"
        : max_depth <= 30 ? "depth15-30" : max_depth <= 62 ? "depth31-62" : "depth63+");
    unwind_all(p.end_mode);
    static const char *em[] = {"end-lifo", "end-creation-order", "end-scattered"};
    tag(em[p.end_mode % 3]);
  }
};

// pops whatever an earlier case may have left on the calling thread's stack, using only the API
void reset_this_thread()
{
  for (int round = 0; round < 160; ++round)
  {
    // A token that never matched anything is matched by its context.  `b` is made such a token for
    // the current context: its own frame goes away when `z` below it is detached out of order, so
    // that its first (and only successful) Detach takes the frame an earlier case left behind.
    ctx::Context cur = ctx::RuntimeContext::GetCurrent();
    auto z = ctx::RuntimeContext::Attach(ctx::Context("vh.reset", static_cast<int64_t>(round)));
    auto b = ctx::RuntimeContext::Attach(cur);
    ctx::RuntimeContext::Detach(*z);
    ctx::RuntimeContext::Detach(*b);
  }
  CK(ctx::RuntimeContext::GetCurrent() == ctx::Context(),
     "the calling thread's runtime context could not be emptied before the case");
}

void merge(vh::Case &c, Machine &m, const std::string &prefix)
{
  for (auto &t : m.tags)
    c.tag(prefix + t);
  c.nontrivial = c.nontrivial || m.nontrivial;
}

std::string show_program(const Program &p)
{
  std::string s = "profile=" + std::to_string(p.profile) + " end=" + std::to_string(p.end_mode) + "\n";
  for (auto &o : p.ops)
    s += "  " + show_op(o) + "\n";
  return s;
}

}  // namespace

// ================================================================================================
VH_TARGET(rt_stack, 6,
          "a program is non-trivial when a token is detached out of order (frames above it are "
          "unwound), or a token whose Detach already succeeded is presented again while an equal "
          "context is on the stack, or the stack gets deeper than 8 frames; distinct = distinct "
          "program text")
{
  vh::Reader &rd = c.rd;
  bool own_thread = !rd.chance(12);
  Program p       = gen_program(rd, 40, true, false);
  c.note(std::string(own_thread ? "new-thread " : "driver-thread ") + show_program(p));
  c.tag(own_thread ? "runs-on-new-thread" : "runs-on-driver-thread");
  Machine m(-1);
  std::string err;
  auto body = [&](bool fresh) {
    try
    {
      if (!fresh)
        reset_this_thread();
      m.run(p);
    }
    catch (vh::Fail &f)
    {
      err = f.msg;
      // release what is left in a defined order so that nothing leaks into the next case
      m.scps.clear();
      m.toks.clear();
    }
  };
  std::thread th;
  if (own_thread && start_thread(th, [&] { body(true); }))
    th.join();
  else
  {
    if (own_thread)
      c.tag("thread-create-failed");
    body(false);
  }
  merge(c, m, "");
  if (!err.empty())
    c.fail(err);
}

// ================================================================================================
VH_TARGET(rt_threads, 8,
          "a run is non-trivial when at least two threads each attach something and at least one "
          "of them detaches out of order or goes deeper than 8 frames (threads also use shared "
          "Context objects directly, at the same time); distinct = distinct program text (the "
          "schedule is not controlled)")
{
  vh::Reader &rd = c.rd;
  unsigned nthr  = 2 + rd.below(2);
  unsigned nshared = rd.below(4);
  std::vector<Program> progs;
  for (unsigned t = 0; t < nthr; ++t)
  {
    progs.push_back(gen_program(rd, 30, false, true));
    c.note("thread " + std::to_string(t) + " " + show_program(progs.back()));
  }
  c.note("shared=" + std::to_string(nshared) + "\n");
  // contexts every thread may attach; built (and owned) by the driver thread
  std::vector<ctx::Context> shared;
  std::vector<Map> shared_m;
  for (unsigned i = 0; i < nshared; ++i)
  {
    ctx::Context s = ctx::Context(kOwnerKey, static_cast<int64_t>(100 + i))
                         .SetValue(pool().k[kKeyId], static_cast<int64_t>(1000 + i));
    Map m;
    m[kOwnerKey]       = observe(ctx::ContextValue(static_cast<int64_t>(100 + i)));
    m[pool().k[kKeyId]] = observe(ctx::ContextValue(static_cast<int64_t>(1000 + i)));
    shared.push_back(s);
    shared_m.push_back(m);
  }
  // the driver thread holds a marker of its own for the whole run
  reset_this_thread();
  ctx::Context mine = ctx::Context(kOwnerKey, static_cast<int64_t>(99));
  auto my_token     = ctx::RuntimeContext::Attach(mine);

  Barrier barrier;
  barrier.parties = static_cast<int>(nthr);
  std::vector<std::unique_ptr<Machine>> machines(nthr);
  std::vector<std::string> errs(nthr);
  std::vector<std::thread> threads;
  for (unsigned t = 0; t < nthr; ++t)
  {
    std::thread th;
    bool started = start_thread(th, [&, t] {
      try
      {
        machines[t].reset(new Machine(static_cast<int>(t)));
        Machine &m = *machines[t];
        m.barrier  = &barrier;
        m.shared   = &shared;
        m.shared_m = &shared_m;
        CK(ctx::RuntimeContext::GetCurrent() == ctx::Context(),
           "thread " << t << " starts with a non-empty runtime context (the driver thread's marker?)");
        for (size_t i = 0; i < shared.size(); ++i)
        {
          ctx::Context cp = shared[i];  // copied concurrently by every thread
          m.add_member(cp, shared_m[i], -1, "shared" + std::to_string(i));
        }
        barrier.arrive_and_wait();
        m.run(progs[t]);
      }
      catch (vh::Fail &f)
      {
        errs[t] = "thread " + std::to_string(t) + ": " + f.msg;
        if (machines[t])
        {
          machines[t]->scps.clear();
          machines[t]->toks.clear();
        }
      }
      barrier.leave();
    });
    if (started)
      threads.push_back(std::move(th));
    else
    {
      barrier.leave();
      c.tag("thread-create-failed");
    }
  }
  for (auto &th : threads)
    th.join();
  std::string first;
  unsigned attached = 0;
  bool hard         = false;
  for (unsigned t = 0; t < nthr; ++t)
  {
    if (!errs[t].empty() && first.empty())
      first = errs[t];
    if (machines[t])
    {
      for (auto &tg : machines[t]->tags)
        c.tag(tg);
      attached += machines[t]->max_depth > 0 ? 1 : 0;
      hard = hard || machines[t]->nontrivial;
    }
  }
  c.tag("threads-" + std::to_string(nthr));
  c.tag("shared-" + std::to_string(nshared));
  c.nontrivial = attached >= 2 && hard;
  if (!first.empty())
  {
    my_token.reset();
    c.fail(first);
  }
  VH_CHECK(c, ctx::RuntimeContext::GetCurrent() == mine,
           "the driver thread's current context changed while other threads were attaching/detaching");
  VH_CHECK(c, observe(ctx::RuntimeContext::GetValue(kOwnerKey)) ==
                  observe(ctx::ContextValue(static_cast<int64_t>(99))),
           "the driver thread sees another thread's marker");
  VH_CHECK(c, ctx::RuntimeContext::Detach(*my_token), "Detach of the driver thread's marker returned false");
  VH_CHECK(c, ctx::RuntimeContext::GetCurrent() == ctx::Context(),
           "the driver thread's context is not empty after detaching its marker");
}

// ================================================================================================
// Fixed witness of the open known finding C10-detach-twice (independent of the generators): the same
// context attached twice; the second token is detached explicitly and then destroyed.  Its destructor
// presents the used-up token again, which must change nothing - the first frame must stay current.
VH_TARGET(detach_twice_witness, 1, "fixed witness case of known finding C10-detach-twice (not part of the search)")
{
  namespace ctx = opentelemetry::context;
  c.nontrivial  = true;
  ctx::Context a = ctx::Context().SetValue("witness", static_cast<int64_t>(7));
  auto before    = ctx::RuntimeContext::GetCurrent();
  {
    auto t0 = ctx::RuntimeContext::Attach(a);
    {
      auto t1 = ctx::RuntimeContext::Attach(a);
      bool ok = ctx::RuntimeContext::Detach(*t1);
      c.note("Attach(A) t0; Attach(A) t1; Detach(*t1) -> " + std::string(ok ? "true" : "false") + "; ~t1\n");
    }  // ~t1: the token was detached already
    bool still = ctx::RuntimeContext::GetCurrent().HasKey("witness");
    bool ok0   = ctx::RuntimeContext::Detach(*t0);
    VH_CHECK(c, still, "detach twice: destroying a token that had been detached already popped the frame of another "
                       "Attach of an equal context (current no longer holds the attached context)");
    VH_CHECK(c, ok0, "detach twice: the first token could no longer be detached (its frame was taken by the used-up token)");
  }
  (void)before;
}

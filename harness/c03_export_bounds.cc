// C03 (E-SCHED part): batch span/log processors under generated schedules; see batch_sched.h.
#include "batch_sched.h"
#include "reader_sched.h"

#include "opentelemetry/sdk/logs/simple_log_record_processor.h"
#include "opentelemetry/sdk/trace/simple_processor.h"

const char *vh_property_id = "C03";

namespace
{
void run(vh::Case &c, bool logs)
{
  // mostly the bounds-biased scenario shapes, but also the delivery- and control-biased ones
  static const int biases[] = {3, 2, 1};
  int bias                  = biases[c.rd.weighted({6, 2, 2})];
  bs::Cfg cfg               = bs::gen_cfg(c.rd, logs, bias);
  c.tag("bias-" + std::to_string(bias));
  c.note(bs::describe(cfg));
  bs::History h;
  if (logs)
    bs::run_scenario<bs::LogTraits>(c, cfg, h);
  else
    bs::run_scenario<bs::SpanTraits>(c, cfg, h);
  c.note(bs::schedule_text());
  VH_CHECK(c, !h.rs.leaked_threads, "a thread of the processor was still alive after destruction");
  bs::common_tags(c, cfg, h);
  bs::check_bounds(c, cfg, h);
  bool dropped_full = false, export_after_flush = false;
  for (auto &t : c.tags)
    if (t == "drop-queue-full")
      dropped_full = true;
  {
    uint64_t first_flush = UINT64_MAX;
    for (auto &f : h.ctl)
      if (f.is_flush)
        first_flush = std::min(first_flush, f.call);
    for (auto &e : h.exports)
      if (e.entry > first_flush)
        export_after_flush = true;
    if (export_after_flush)
      c.tag("export-after-flush");
  }
  (void)dropped_full;
  (void)export_after_flush;
  c.nontrivial = !h.exports.empty() && (export_after_flush || h.rs.preemptions > 0);
}
}  // namespace

VH_TARGET(bsp_sched, 4, "BatchSpanProcessor: non-trivial when a batch was exported after an earlier ForceFlush call, or the schedule preempted a running thread while exports happened; distinct = distinct (scenario, schedule taken)")
{
  run(c, false);
}

VH_TARGET(blp_sched, 4, "BatchLogRecordProcessor: non-trivial when a batch was exported after an earlier ForceFlush call, or the schedule preempted a running thread while exports happened; distinct = distinct (scenario, schedule taken)")
{
  run(c, true);
}

VH_TARGET(reader_sched, 4, "PeriodicExportingMetricReader: non-trivial when 2+ Exports happened and the schedule preempted a running thread or a ForceFlush overlapped an Export; distinct = distinct (scenario, schedule taken)")
{
  rs::Cfg cfg = rs::gen_cfg(c.rd);
  c.note(rs::describe(cfg));
  rs::History h;
  rs::run_scenario(c, cfg, h);
  c.note(bs::schedule_text());
  VH_CHECK(c, !h.rs.leaked_threads, "a thread of the reader was still alive after Shutdown and destruction");
  rs::common_tags(c, cfg, h);
  rs::check_bounds(c, cfg, h);
  c.nontrivial = h.exports.size() >= 2 && (h.rs.preemptions > 0 || rs::flush_overlaps_export(h));
}

// ------------------------------------------------------------------------------------------------
// simple processors called from 2..3 threads: the spin lock must serialise Export
namespace
{
template <class Processor, class Traits>
void run_simple(vh::Case &c, const bs::Cfg &cfg, bs::History &h)
{
  vsh::ByteSource src(c.rd, 56);
  vsched::Options opt;
  opt.step_budget = 600000;
  c.note(std::string(" schedule-mode=") + src.mode_name() + "\n");
  h.rs = vsched::run(&src, opt, vsh::fatal, [&](vsched::Scheduler &s) {
    std::unique_ptr<typename Traits::Exporter> ex(new typename Traits::Exporter(cfg, h, s));
    Processor P(std::move(ex));
    std::vector<std::unique_ptr<vsched::thread>> ts;
    for (size_t p = 0; p < cfg.producers.size(); ++p)
      ts.emplace_back(new vsched::thread([&, p]() {
        int seq = 0;
        for (auto &op : cfg.producers[p])
        {
          if (op.kind == bs::Op::SLEEP)
            vsched::this_thread::sleep_for(std::chrono::microseconds(op.arg));
          else if (op.kind == bs::Op::PRODUCE)
          {
            bs::ProduceRec r;
            r.producer = static_cast<int>(p);
            r.seq      = seq++;
            r.call     = s.stamp();
            r.call_ns  = s.now_ns();
            auto rec   = P.MakeRecordable();
            Traits::tag(*rec, r.producer, r.seq);
            Traits::emit(P, std::move(rec));
            r.ret       = s.stamp();
            r.ret_ns    = s.now_ns();
            r.own_steps = 0;
            h.produced.push_back(r);
          }
          else if (op.kind == bs::Op::FLUSH)
            P.ForceFlush(op.arg < 0 ? (std::chrono::microseconds::max)() : std::chrono::microseconds(op.arg));
          else if (op.kind == bs::Op::SHUTDOWN)
            P.Shutdown();
        }
      }));
    for (auto &t : ts)
      t->join();
    P.Shutdown();
  });
}
struct SimpleSpanT
{
  using Exporter = bs::SpanTraits::Exporter;
  static void tag(opentelemetry::sdk::trace::Recordable &r, int p, int s)
  {
    r.SetName("p" + std::to_string(p) + "#" + std::to_string(s));
  }
  static void emit(opentelemetry::sdk::trace::SimpleSpanProcessor &P, std::unique_ptr<opentelemetry::sdk::trace::Recordable> r)
  {
    P.OnEnd(std::move(r));
  }
};
struct SimpleLogT
{
  using Exporter = bs::LogTraits::Exporter;
  static void tag(opentelemetry::sdk::logs::Recordable &r, int p, int s)
  {
    r.SetEventId(static_cast<int64_t>(p) * 1000 + s, "");
  }
  static void emit(opentelemetry::sdk::logs::SimpleLogRecordProcessor &P, std::unique_ptr<opentelemetry::sdk::logs::Recordable> r)
  {
    P.OnEmit(std::move(r));
  }
};
}  // namespace

VH_TARGET(simple_sched, 4,
          "Simple span/log processor driven from 2..3 threads: non-trivial when two threads were inside "
          "OnEnd/OnEmit at overlapping logical times (contention on the spin lock) or the schedule preempted "
          "a running thread; distinct = distinct (scenario, schedule taken)")
{
  vh::Reader &rd = c.rd;
  bs::Cfg cfg;
  cfg.logs = rd.coin();
  static const int64_t lat[] = {0, 300, 3000};
  cfg.export_latency_us      = lat[rd.below(3)];
  unsigned nt                = 2 + rd.below(2);
  for (unsigned t = 0; t < nt; ++t)
  {
    std::vector<bs::Op> prog;
    unsigned n = 1 + rd.below(4);
    for (unsigned i = 0; i < n; ++i)
    {
      if (rd.chance(25))
        prog.push_back(bs::Op{bs::Op::SLEEP, rd.coin() ? 200 : 2000});
      // ForceFlush (with a generated timeout) and, rarely, Shutdown race the other threads' OnEnd/OnEmit
      unsigned what = static_cast<unsigned>(rd.weighted({70, 25, 5}));
      if (what == 1)
      {
        static const int64_t to[] = {-1, 1000, 100, 0};
        prog.push_back(bs::Op{bs::Op::FLUSH, to[rd.below(4)]});
      }
      else if (what == 2)
        prog.push_back(bs::Op{bs::Op::SHUTDOWN, -1});
      else
        prog.push_back(bs::Op{bs::Op::PRODUCE, 0});
    }
    cfg.producers.push_back(prog);
  }
  // exporters whose Export reports failure
  cfg.export_fail_every = rd.chance(30) ? 1 + static_cast<int>(rd.below(3)) : 0;
  c.note(std::string(cfg.logs ? "simple-logs" : "simple-spans") + " export_latency=" + bs::show_us(cfg.export_latency_us) +
         " fail_every=" + std::to_string(cfg.export_fail_every) + "\n");
  bool any_flush = false, any_shutdown = false;
  for (size_t i = 0; i < cfg.producers.size(); ++i)
  {
    std::string p = " T" + std::to_string(i) + ":";
    for (auto &op : cfg.producers[i])
    {
      p += op.kind == bs::Op::SLEEP ? " sleep" : op.kind == bs::Op::PRODUCE ? " produce"
           : op.kind == bs::Op::FLUSH ? " flush(" + bs::show_us(op.arg) + ")" : " shutdown";
      any_flush    = any_flush || op.kind == bs::Op::FLUSH;
      any_shutdown = any_shutdown || op.kind == bs::Op::SHUTDOWN;
    }
    c.note(p + "\n");
  }
  if (any_flush)
    c.tag("flush-races-onend");
  if (any_shutdown)
    c.tag("shutdown-races-onend");
  if (cfg.export_fail_every)
    c.tag("failing-export");
  bs::History h;
  if (cfg.logs)
    run_simple<opentelemetry::sdk::logs::SimpleLogRecordProcessor, SimpleLogT>(c, cfg, h);
  else
    run_simple<opentelemetry::sdk::trace::SimpleSpanProcessor, SimpleSpanT>(c, cfg, h);
  c.note(bs::schedule_text());
  VH_CHECK(c, h.max_in_flight <= 1, "Export was entered while a previous Export on the same exporter was still "
                                    "running (simple processor, " << h.max_in_flight << " in flight)");
  // (what a simple processor delivers is not this property's subject: only tagged)
  std::set<std::pair<int, int>> seen;
  for (auto &e : h.exports)
  {
    if (e.tags.size() != 1)
      c.tag("simple-batch-size-not-1");
    for (auto &t : e.tags)
      if (!seen.insert(t).second)
        c.tag("simple-delivered-twice");
  }
  if (seen.size() != h.produced.size())
    c.tag(any_shutdown ? "simple-not-all-delivered(shutdown)" : "simple-not-all-delivered");
  bool overlap = false;
  for (size_t i = 0; i < h.produced.size(); ++i)
    for (size_t j = i + 1; j < h.produced.size(); ++j)
      if (h.produced[i].producer != h.produced[j].producer && h.produced[i].call < h.produced[j].ret &&
          h.produced[j].call < h.produced[i].ret)
        overlap = true;
  if (overlap)
    c.tag("overlapping-onend");
  if (h.rs.preemptions)
    c.tag("preempted");
  c.nontrivial = overlap || h.rs.preemptions > 0;
}

// C16  B3 (single / multi header) and Jaeger propagation: round-trip identity, the sampling
//      decision, the documented extraction variants, robustness on arbitrary header bytes.
//
// Targets
//   rt_inject_extract   every valid span context x every flags byte, Inject -> Extract through the
//                       three propagators; the injected carrier must itself be a canonical header
//                       (strict reference reader) that decodes to the same context
//   ex_struct           structured near-valid headers (field classes + byte edits), single / multi /
//                       both styles at once / Jaeger, against two-sided reference extractors
//   b3_single_bytes     arbitrary bytes as the `b3` header            (also libFuzzer entries)
//   b3_multi_bytes      arbitrary bytes, '\n'-separated into X-B3-TraceId / X-B3-SpanId /
//                       X-B3-Sampled / b3 (so that the precedence rule is explored too)
//   jaeger_bytes        arbitrary bytes as the `uber-trace-id` header
//   b3_helpers          the public static TraceIdFromHex / SpanIdFromHex / TraceFlagsFromHex called
//                       directly (null view, empty, every length, upper case, over-long, odd values)
//
// Oracle.  The reference extractors below are written from the property statement, the B3
// specification (openzipkin/b3-propagation), the Jaeger client documentation ("Propagation format")
// and the behaviour the repository's own tests document.  For a carrier they give the SET of
// acceptable outcomes: "caller's context returned unchanged" and/or one or more remote contexts
// (trace id, span id, sampled yes/no/either).  Documented shapes have exactly one acceptable
// outcome; shapes the documents leave open (short / odd-length / upper-case B3 ids, over-long ids
// that only carry extra leading zeros, blanks at the ends of a header value, undocumented sampling
// values, extra fields, a malformed single header next to valid multi headers, ...) accept either
// the reference's context or the unchanged context - never a context with other ids, zero ids, a
// non-remote context, a flags byte other than 0x00 / 0x01 or a trace state.
#include <algorithm>
#include <array>
#include <cstdint>
#include <cstring>
#include <memory>
#include <sstream>
#include <string>
#include <utility>
#include <vector>

#include "opentelemetry/context/context.h"
#include "opentelemetry/context/propagation/text_map_propagator.h"
#include "opentelemetry/nostd/shared_ptr.h"
#include "opentelemetry/nostd/string_view.h"
#include "opentelemetry/nostd/variant.h"
#include "opentelemetry/trace/context.h"
#include "opentelemetry/trace/default_span.h"
#include "opentelemetry/trace/propagation/b3_propagator.h"
#include "opentelemetry/trace/propagation/jaeger.h"
#include "opentelemetry/trace/span_context.h"
#include "opentelemetry/trace/span_id.h"
#include "opentelemetry/trace/trace_flags.h"
#include "opentelemetry/trace/trace_id.h"
#include "opentelemetry/trace/trace_state.h"
#include "vh.h"
#include "vh_guard.h"

const char *vh_property_id = "C16";

namespace
{
namespace trace   = opentelemetry::trace;
namespace context = opentelemetry::context;
namespace nostd   = opentelemetry::nostd;
namespace prop    = opentelemetry::trace::propagation;

using Tid = std::array<uint8_t, 16>;
using Sid = std::array<uint8_t, 8>;

// header names, spelled out here on purpose (the documents, not the code, are the reference)
const char kB3[]        = "b3";
const char kB3Trace[]   = "X-B3-TraceId";
const char kB3Span[]    = "X-B3-SpanId";
const char kB3Sampled[] = "X-B3-Sampled";
const char kUber[]      = "uber-trace-id";

std::string hex(const uint8_t *p, size_t n)
{
  return vh::hex_encode(p, n);
}
template <class A>
std::string hex(const A &a)
{
  return vh::hex_encode(a.data(), a.size());
}

// ------------------------------------------------------------------------------------- carrier
// Values live in exact-size heap blocks (no terminator, no slack): a read one byte past a header
// value is an ASan report.  Absent headers read as a default (null, 0) view.
// In "guard page" cases (a fixed function of the case's length, see set_guard_mode) Get() hands out a copy
// that ends exactly at an inaccessible page instead: an over-read by code ASan does not see (strtoul and
// other libc functions it does not intercept) is then a SIGSEGV.
bool g_guard_mode = false;
void set_guard_mode(vh::Case &c)
{
  g_guard_mode = (c.rd.remaining() % 4) == 3;
  if (g_guard_mode)
    c.tag("carrier:values-end-at-a-guard-page");
}
class Carrier : public context::propagation::TextMapCarrier
{
public:
  struct Entry
  {
    std::string key;
    std::unique_ptr<char[]> val;
    size_t len;
    std::shared_ptr<vh::GuardedBytes> guard;
  };
  nostd::string_view Get(nostd::string_view key) const noexcept override
  {
    std::string k(key.data(), key.size());
    for (auto &e : entries_)
      if (e.key == k)
        return e.guard ? nostd::string_view(e.guard->data(), e.guard->size()) : nostd::string_view(e.val.get(), e.len);
    return nostd::string_view();
  }
  void Set(nostd::string_view key, nostd::string_view value) noexcept override
  {
    put(std::string(key.data(), key.size()), std::string(value.data(), value.size()));
    ++sets_;
  }
  void put(const std::string &k, const std::string &v)
  {
    std::unique_ptr<char[]> p(new char[v.size()]);
    std::memcpy(p.get(), v.data(), v.size());
    std::shared_ptr<vh::GuardedBytes> g;
    if (g_guard_mode)
      g.reset(new vh::GuardedBytes(v));
    for (auto &e : entries_)
      if (e.key == k)
      {
        e.val   = std::move(p);
        e.len   = v.size();
        e.guard = g;
        return;
      }
    entries_.push_back(Entry{k, std::move(p), v.size(), g});
  }
  bool has(const std::string &k) const
  {
    for (auto &e : entries_)
      if (e.key == k)
        return true;
    return false;
  }
  std::string get(const std::string &k) const
  {
    for (auto &e : entries_)
      if (e.key == k)
        return std::string(e.val.get(), e.len);
    return std::string();
  }
  std::string show() const
  {
    std::string s = "{";
    for (auto &e : entries_)
      s += (s.size() > 1 ? ", " : "") + e.key + ": '" + vh::show(std::string(e.val.get(), e.len)) + "'";
    return s + "}";
  }
  std::vector<Entry> entries_;
  unsigned sets_ = 0;
};

// ------------------------------------------------------------------------ reference extractors
enum class Tri
{
  No,
  Yes,
  Either
};
const char *tri(Tri t)
{
  return t == Tri::No ? "0" : t == Tri::Yes ? "1" : "0|1";
}

struct RefCtx
{
  Tid t;
  Sid s;
  Tri sampled;
  const char *from;
};

struct Expect
{
  bool anything        = false;  // outside every document: only the universal checks apply
  bool allow_unchanged = true;
  std::vector<RefCtx> ok;  // acceptable installed contexts
  std::vector<std::string> tags;
  bool must() const { return !anything && !allow_unchanged; }
  bool must_not() const { return !anything && ok.empty(); }
  std::string show() const
  {
    if (anything)
      return "anything";
    std::string s;
    for (auto &r : ok)
      s += std::string(s.empty() ? "" : " or ") + "context(" + hex(r.t) + "," + hex(r.s) +
           ",sampled=" + tri(r.sampled) + ",from " + r.from + ")";
    if (allow_unchanged)
      s += std::string(s.empty() ? "" : " or ") + "caller's context unchanged";
    return s;
  }
};

bool is_hex(char ch)
{
  return (ch >= '0' && ch <= '9') || (ch >= 'a' && ch <= 'f') || (ch >= 'A' && ch <= 'F');
}
int hexval(char ch)
{
  if (ch >= '0' && ch <= '9')
    return ch - '0';
  if (ch >= 'a' && ch <= 'f')
    return ch - 'a' + 10;
  return ch - 'A' + 10;
}
bool all_lower_hex(const std::string &s)
{
  for (char ch : s)
    if (!((ch >= '0' && ch <= '9') || (ch >= 'a' && ch <= 'f')))
      return false;
  return true;
}

enum class Q
{
  Bad,   // no id can be derived: the header must not install a context
  Gray,  // an id can be derived, but the documents do not oblige a reader to accept this spelling
  Good   // documented spelling: must be accepted
};

struct HexRef
{
  Q q = Q::Bad;
  std::vector<uint8_t> val;
  std::string cls;
};

struct HexPolicy
{
  size_t nbytes;
  bool (*good_len)(size_t);
  bool upper_good;
};

bool len_b3_trace(size_t n)
{
  return n == 16 || n == 32;  // B3: "encoded as 16 or 32 lower-hex characters"
}
bool len_b3_span(size_t n)
{
  return n == 16;  // B3: "16 lower-hex characters"
}
bool len_jaeger_trace(size_t n)
{
  return n >= 1 && n <= 32;  // Jaeger: variable length, receivers MUST accept shorter and 0-pad
}
bool len_jaeger_span(size_t n)
{
  return n >= 1 && n <= 16;
}
const HexPolicy kB3TracePol{16, len_b3_trace, false};
const HexPolicy kB3SpanPol{8, len_b3_span, false};
// the repository's jaeger test documents upper-case ids as accepted
const HexPolicy kJgTracePol{16, len_jaeger_trace, true};
const HexPolicy kJgSpanPol{8, len_jaeger_span, true};

// the C-locale isspace set: what the W3C propagator of the same repository trims off a header value
bool is_blank(char ch)
{
  return ch == ' ' || ch == '\t' || ch == '\n' || ch == '\v' || ch == '\f' || ch == '\r';
}

HexRef ref_hex(const std::string &raw, const HexPolicy &p)
{
  HexRef r;
  r.val.assign(p.nbytes, 0);
  // Blanks at the ends of an id field.  The statement and the B3 / Jaeger documents are silent about
  // them; a reader that trims header values (as the W3C propagator next door does) derives the id
  // that is left, a reader that does not sees a non-hex field.  Both are right: Gray.  A blank INSIDE
  // the digits leaves no id to derive and stays Bad.
  size_t b = 0, e = raw.size();
  while (b < e && is_blank(raw[b]))
    ++b;
  while (e > b && is_blank(raw[e - 1]))
    --e;
  const bool padded   = b > 0 || e < raw.size();
  const std::string s = raw.substr(b, e - b);
  if (s.empty())
  {
    r.cls = padded ? "blank-only" : "empty";
    return r;
  }
  bool upper = false;
  for (char ch : s)
  {
    if (!is_hex(ch))
    {
      r.cls = "nonhex";
      return r;
    }
    upper = upper || (ch >= 'A' && ch <= 'F');
  }
  const size_t max = 2 * p.nbytes;
  std::string d    = s;
  bool over        = false;
  if (d.size() > max)
  {
    size_t ex = d.size() - max;
    for (size_t i = 0; i < ex; ++i)
      if (d[i] != '0')
      {
        r.cls = "overlong";  // the value does not fit the id
        return r;
      }
    d    = d.substr(ex);
    over = true;
  }
  d       = std::string(max - d.size(), '0') + d;  // "left-padded with zeros"
  bool nz = false;
  for (size_t i = 0; i < p.nbytes; ++i)
  {
    r.val[i] = static_cast<uint8_t>((hexval(d[2 * i]) << 4) | hexval(d[2 * i + 1]));
    nz       = nz || r.val[i] != 0;
  }
  if (!nz)
  {
    r.cls = "zero";
    return r;
  }
  if (over)
  {
    r.q   = Q::Gray;
    r.cls = "overlong-zero-prefix";
  }
  else if (!p.good_len(s.size()))
  {
    r.q   = Q::Gray;
    r.cls = (s.size() % 2) ? "odd-length" : "short";
  }
  else if (upper && !p.upper_good)
  {
    r.q   = Q::Gray;
    r.cls = "uppercase";
  }
  else
  {
    r.q   = Q::Good;
    r.cls = s.size() == max ? "full" : (s.size() == max / 2 ? "half" : "short-ok");
    if (upper)
      r.cls += "-upper";
  }
  if (padded)
  {
    r.q   = Q::Gray;
    r.cls = "blank-padded";
  }
  return r;
}

std::vector<std::string> split_all(const std::string &v, char sep)
{
  std::vector<std::string> f;
  size_t i = 0;
  for (;;)
  {
    size_t e = v.find(sep, i);
    if (e == std::string::npos)
    {
      f.push_back(v.substr(i));
      return f;
    }
    f.push_back(v.substr(i, e - i));
    i = e + 1;
  }
}

RefCtx make_ctx(const HexRef &t, const HexRef &s, Tri sampled, const char *from)
{
  RefCtx r;
  std::copy(t.val.begin(), t.val.end(), r.t.begin());
  std::copy(s.val.begin(), s.val.end(), r.s.begin());
  r.sampled = sampled;
  r.from    = from;
  return r;
}

// b3: {TraceId}-{SpanId}[-{SamplingState}[-{ParentSpanId}]]
Expect ref_b3_single(const std::string &v)
{
  Expect e;
  std::vector<std::string> f = split_all(v, '-');
  if (f.size() < 2)
  {
    // a lone sampling state ("0", "1", "d") is a valid b3 header, but it carries no ids
    e.tags.push_back(v == "0" || v == "1" || v == "d" ? "single:sampling-only" : "single:one-field");
    return e;
  }
  HexRef t = ref_hex(f[0], kB3TracePol), s = ref_hex(f[1], kB3SpanPol);
  e.tags.push_back("single:tid-" + t.cls);
  e.tags.push_back("single:sid-" + s.cls);
  if (t.q == Q::Bad || s.q == Q::Bad)
    return e;
  bool gray = t.q == Q::Gray || s.q == Q::Gray;
  Tri sampled;
  if (f.size() == 2)
  {
    sampled = Tri::No;  // "missing sampling field as not sampled"
    e.tags.push_back("single:flag-missing");
  }
  else if (f[2] == "1")
  {
    sampled = Tri::Yes;
    e.tags.push_back("single:flag-1");
  }
  else if (f[2] == "0")
  {
    sampled = Tri::No;
    e.tags.push_back("single:flag-0");
  }
  else if (f[2] == "d")
  {
    sampled = Tri::Yes;  // "B3 debug flag 'd' as sampled"
    e.tags.push_back("single:flag-d");
  }
  else if (f[2].empty())
  {
    sampled = Tri::No;  // an empty field is a missing field; a reader may also call it malformed
    gray    = true;
    e.tags.push_back("single:flag-empty");
  }
  else
  {
    sampled = Tri::Either;  // undocumented value ("true", "D", "2", ...)
    gray    = true;
    e.tags.push_back("single:flag-other");
  }
  if (f.size() >= 4)
  {
    bool pok = f[3].size() == 16 && all_lower_hex(f[3]);
    e.tags.push_back(pok ? "single:parent-ok" : "single:parent-odd");
    gray = gray || !pok;
  }
  if (f.size() > 4)
  {
    gray = true;
    e.tags.push_back("single:extra-fields");
  }
  e.ok.push_back(make_ctx(t, s, sampled, "b3"));
  e.allow_unchanged = gray;
  return e;
}

Expect ref_b3_multi(const std::string &tid, const std::string &sid, const std::string &smp)
{
  Expect e;
  HexRef t = ref_hex(tid, kB3TracePol), s = ref_hex(sid, kB3SpanPol);
  e.tags.push_back("multi:tid-" + t.cls);
  e.tags.push_back("multi:sid-" + s.cls);
  if (t.q == Q::Bad || s.q == Q::Bad)
    return e;
  bool gray = t.q == Q::Gray || s.q == Q::Gray;
  Tri sampled;
  if (smp.empty())
  {
    sampled = Tri::No;
    e.tags.push_back("multi:flag-missing");
  }
  else if (smp == "1")
  {
    sampled = Tri::Yes;
    e.tags.push_back("multi:flag-1");
  }
  else if (smp == "0")
  {
    sampled = Tri::No;
    e.tags.push_back("multi:flag-0");
  }
  else
  {
    // 'd' is the single-header spelling of debug (multi uses X-B3-Flags), "true"/"false" are legacy
    sampled = Tri::Either;
    gray    = true;
    e.tags.push_back("multi:flag-other");
  }
  e.ok.push_back(make_ctx(t, s, sampled, "X-B3-*"));
  e.allow_unchanged = gray;
  return e;
}

// both styles: "B3 single header taking precedence over multi headers".  A documented single
// header decides alone - also the documented sampling-only forms "0", "1", "d", which carry no ids (nothing
// is installed then).  When the single header is malformed or in a gray spelling, a reader may reject it -
// and then may or may not fall back to the multi headers.
Expect ref_b3(const std::string &b3, const std::string &tid, const std::string &sid,
              const std::string &smp)
{
  if (b3.empty())  // a carrier cannot tell an empty header from an absent one
    return ref_b3_multi(tid, sid, smp);
  Expect s = ref_b3_single(b3);
  bool multi_present = !tid.empty() || !sid.empty() || !smp.empty();
  if (!multi_present)
    return s;
  s.tags.push_back("single+multi");
  if (s.must())
  {
    s.tags.push_back("single-wins");
    return s;
  }
  // a lone sampling state ("0", "1", "d") is a documented, valid single header that carries no ids: it
  // takes precedence too, so the multi headers next to it must not be used (nothing is installed)
  if (b3 == "0" || b3 == "1" || b3 == "d")
  {
    s.tags.push_back("sampling-only-single-wins");
    return s;
  }
  Expect m = ref_b3_multi(tid, sid, smp);
  s.allow_unchanged = true;
  for (auto &r : m.ok)
    s.ok.push_back(r);
  if (!m.ok.empty())
    s.tags.push_back("odd-single+usable-multi");
  return s;
}

// uber-trace-id: {trace-id}:{span-id}:{parent-span-id}:{flags}
Expect ref_jaeger(const std::string &v)
{
  Expect e;
  if (v.find("%3A") != std::string::npos || v.find("%3a") != std::string::npos)
  {
    // the Jaeger documentation mentions URL-encoded values; whether a reader decodes them is open
    e.anything = true;
    e.tags.push_back("jaeger:url-encoded");
    return e;
  }
  std::vector<std::string> f = split_all(v, ':');
  if (f.size() < 3)
  {
    e.tags.push_back("jaeger:too-few-fields");
    return e;
  }
  HexRef t = ref_hex(f[0], kJgTracePol), s = ref_hex(f[1], kJgSpanPol);
  e.tags.push_back("jaeger:tid-" + t.cls);
  e.tags.push_back("jaeger:sid-" + s.cls);
  if (t.q == Q::Bad || s.q == Q::Bad)
    return e;
  bool gray = t.q == Q::Gray || s.q == Q::Gray;
  {
    // deprecated field, "0" on the sending side; hex of at most 16 digits is the documented form
    const std::string &p = f[2];
    bool pok             = !p.empty() && p.size() <= 16 &&
               std::all_of(p.begin(), p.end(), [](char ch) { return is_hex(ch); });
    e.tags.push_back(pok ? "jaeger:parent-ok" : "jaeger:parent-odd");
    gray = gray || !pok;
  }
  Tri sampled;
  if (f.size() == 3)
  {
    sampled = Tri::No;  // missing sampling field
    gray    = true;
    e.tags.push_back("jaeger:flags-missing");
  }
  else
  {
    const std::string &fl = f[3];
    bool hexonly = std::all_of(fl.begin(), fl.end(), [](char ch) { return is_hex(ch); });
    if (fl.empty())
    {
      sampled = Tri::No;
      gray    = true;
      e.tags.push_back("jaeger:flags-empty");
    }
    else if (hexonly && fl.size() <= 2)
    {
      // "one byte bitmap, as one or two hex digits (leading zero may be omitted)"
      unsigned val = 0;
      for (char ch : fl)
        val = val * 16 + static_cast<unsigned>(hexval(ch));
      if (val & 1)
        sampled = Tri::Yes;
      else if (val & 2)
        sampled = Tri::Either;  // debug without sampled: "should only be set when sampled is set"
      else
        sampled = Tri::No;
      e.tags.push_back((val & 1) ? "jaeger:flags-sampled" : "jaeger:flags-unsampled");
      if (val & 0xfe)
        e.tags.push_back("jaeger:flags-other-bits");
    }
    else
    {
      sampled = Tri::Either;
      gray    = true;
      e.tags.push_back(hexonly ? "jaeger:flags-overlong" : "jaeger:flags-nonhex");
    }
  }
  if (f.size() > 4)
  {
    gray = true;
    e.tags.push_back("jaeger:extra-fields");
  }
  e.ok.push_back(make_ctx(t, s, sampled, "uber-trace-id"));
  e.allow_unchanged = gray;
  return e;
}

// --------------------------------------------------------------------------- caller's context
const Tid kPriorT = {{0x70, 0x72, 0x69, 0x6f, 0x72, 0x2d, 0x74, 0x72, 0x61, 0x63, 0x65, 0x2d, 0x69, 0x64,
                      0x21, 0x21}};
const Sid kPriorS = {{0x70, 0x72, 0x69, 0x6f, 0x72, 0x2d, 0x69, 0x64}};

nostd::shared_ptr<trace::Span> span_of(const Tid &t, const Sid &s, uint8_t flags, bool remote)
{
  trace::SpanContext sc(trace::TraceId(nostd::span<const uint8_t, 16>(t.data(), 16)),
                        trace::SpanId(nostd::span<const uint8_t, 8>(s.data(), 8)),
                        trace::TraceFlags(flags), remote);
  return nostd::shared_ptr<trace::Span>(new trace::DefaultSpan(sc));
}

struct Caller
{
  int kind = 0;  // 0 empty context, 1 unrelated value, 2 unrelated value + a local current span
  context::Context ctx;
};

Caller make_caller(int kind)
{
  Caller c;
  c.kind = kind;
  if (kind >= 1)
    c.ctx = context::Context("other", static_cast<int64_t>(7));
  if (kind >= 2)
    c.ctx = c.ctx.SetValue(trace::kSpanKey, span_of(kPriorT, kPriorS, 1, false));
  return c;
}

bool same_ids(const trace::SpanContext &sc, const uint8_t *t, const uint8_t *s)
{
  return std::memcmp(sc.trace_id().Id().data(), t, 16) == 0 &&
         std::memcmp(sc.span_id().Id().data(), s, 8) == 0;
}

// the caller's own Context object must never change
void check_caller_intact(vh::Case &c, const Caller &caller, const char *what)
{
  auto v = caller.ctx.GetValue(trace::kSpanKey);
  if (caller.kind == 2)
  {
    VH_CHECK(c, nostd::holds_alternative<nostd::shared_ptr<trace::Span>>(v),
             what << ": the caller's context lost its span");
    auto sc = nostd::get<nostd::shared_ptr<trace::Span>>(v)->GetContext();
    VH_CHECK(c, same_ids(sc, kPriorT.data(), kPriorS.data()) && !sc.IsRemote() && sc.IsSampled(),
             what << ": the span of the caller's context changed to " << hex(sc.trace_id().Id().data(), 16));
  }
  else
    VH_CHECK(c, nostd::holds_alternative<nostd::monostate>(v),
             what << ": a span appeared in the caller's own context");
  if (caller.kind >= 1)
  {
    auto o = caller.ctx.GetValue("other");
    VH_CHECK(c, nostd::holds_alternative<int64_t>(o) && nostd::get<int64_t>(o) == 7,
             what << ": the caller's context lost its other value");
  }
}

// Runs Extract and compares the outcome with the reference's set of acceptable outcomes.
// returns true when a context was installed
bool check_extract(vh::Case &c, context::propagation::TextMapPropagator &p, const char *pname,
                   std::unique_ptr<Carrier> car, int caller_kind, const Expect &ex)
{
  Caller caller        = make_caller(caller_kind);
  std::string cshow    = car->show();
  context::Context out = p.Extract(*car, caller.ctx);
  car.reset();  // the header storage is gone: the result must not point into it
  check_caller_intact(c, caller, pname);
  bool unchanged = (out == caller.ctx);
  auto v         = out.GetValue(trace::kSpanKey);
  if (unchanged)
  {
    VH_CHECK(c, ex.anything || ex.allow_unchanged,
             pname << ".Extract(" << cshow << ") returned the caller's context unchanged; expected "
                   << ex.show());
    return false;
  }
  VH_CHECK(c, nostd::holds_alternative<nostd::shared_ptr<trace::Span>>(v),
           pname << ".Extract(" << cshow << ") returned a different context that holds no span");
  trace::SpanContext sc = nostd::get<nostd::shared_ptr<trace::Span>>(v)->GetContext();
  std::ostringstream got;
  got << "context(" << hex(sc.trace_id().Id().data(), 16) << "," << hex(sc.span_id().Id().data(), 8)
      << ",sampled=" << sc.IsSampled() << ",remote=" << sc.IsRemote() << ")";
  // universal part of the statement: whatever the bytes were, an installed context has non-zero ids
  VH_CHECK(c, sc.trace_id().IsValid() && sc.span_id().IsValid(),
           pname << ".Extract(" << cshow << ") installed a context with a zero id: " << got.str());
  VH_CHECK(c, sc.IsRemote(), pname << ".Extract(" << cshow << ") installed a non-remote context "
                                   << got.str());
  // B3 and Jaeger headers carry a sampling decision and nothing else of the W3C flags byte or of the
  // trace state: no other flag bit (0x02 is the W3C random-trace-id flag; Jaeger's debug / firehose
  // bits are not W3C flags) and no trace state member can come out of them (assumption in c16.py)
  const uint8_t got_flags = sc.trace_flags().flags();
  VH_CHECK(c, (got_flags & 0xfe) == 0,
           pname << ".Extract(" << cshow << ") installed " << got.str() << " with the flags byte 0x"
                 << hex(&got_flags, 1) << ": a bit other than 'sampled' leaked out of the header");
  const bool null_state = !sc.trace_state();
  VH_CHECK(c, !null_state && sc.trace_state()->Empty(),
           pname << ".Extract(" << cshow << ") installed " << got.str()
                 << (null_state ? " with a null trace state" : " with a non-empty trace state"));
  if (caller.kind >= 1)
  {
    auto o = out.GetValue("other");
    VH_CHECK(c, nostd::holds_alternative<int64_t>(o) && nostd::get<int64_t>(o) == 7,
             pname << ".Extract: the returned context lost the caller's other value");
  }
  if (ex.anything)
    return true;
  bool match = false;
  for (auto &r : ex.ok)
  {
    if (!same_ids(sc, r.t.data(), r.s.data()))
      continue;
    if (r.sampled == Tri::Either || (r.sampled == Tri::Yes) == sc.IsSampled())
      match = true;
  }
  VH_CHECK(c, match, pname << ".Extract(" << cshow << ") installed " << got.str() << "; expected "
                           << ex.show());
  return true;
}

// ---------------------------------------------------------------------------------- generators
template <size_t N>
std::array<uint8_t, N> gen_id(vh::Reader &rd, const char *&cls)
{
  std::array<uint8_t, N> a{};
  switch (rd.weighted({4, 5, 3, 2, 2, 2, 2, 2}))
  {
    case 0:
      cls      = "one";
      a[N - 1] = 1;
      break;
    case 1:
    {
      cls          = "random";
      uint8_t fill = rd.u8();
      a.fill(fill);
      a[0]     = rd.u8();
      a[1]     = rd.u8();
      a[N / 2] = rd.u8();
      a[N - 2] = rd.u8();
      a[N - 1] = rd.u8();
      break;
    }
    case 2:
      cls = "low-half";  // a 64-bit trace id
      for (size_t i = N / 2; i < N; ++i)
        a[i] = static_cast<uint8_t>(0x11 * (i % 15 + 1));
      a[N / 2] = rd.u8();
      a[N - 1] = rd.u8();
      break;
    case 3:
      cls = "high-half";
      for (size_t i = 0; i < N / 2; ++i)
        a[i] = static_cast<uint8_t>(0x11 * (i % 15 + 1));
      a[0] = rd.u8();
      break;
    case 4:
      cls = "all-ff";
      a.fill(0xff);
      break;
    case 5:
    {
      cls                      = "letters";
      static const uint8_t l[] = {0xab, 0xcd, 0xef, 0xfa, 0xdc, 0xbe, 0xa0, 0x0f};
      for (size_t i = 0; i < N; ++i)
        a[i] = l[(i + rd.below(8)) % 8];
      break;
    }
    case 6:
    {
      cls          = "single-bit";
      unsigned bit = rd.below(static_cast<uint32_t>(8 * N));
      a[bit / 8]   = static_cast<uint8_t>(1u << (bit % 8));
      break;
    }
    default:
      cls = "zero-nibbles";
      for (size_t i = 0; i < N; ++i)
        a[i] = (i % 2) ? static_cast<uint8_t>(rd.below(16)) : static_cast<uint8_t>(rd.below(16) << 4);
      a[0] &= 0x0f;
      break;
  }
  if (std::all_of(a.begin(), a.end(), [](uint8_t b) { return b == 0; }))
    a[N - 1] = 1;
  return a;
}

const char kLowerHex[] = "0123456789abcdef";

// n lower-hex digits from few choices: a filler digit with generated ends
std::string gen_digits(vh::Reader &rd, size_t n, bool nonzero)
{
  std::string s(n, kLowerHex[rd.below(16)]);
  if (n >= 1)
    s[0] = kLowerHex[rd.below(16)];
  if (n >= 2)
    s[n - 1] = kLowerHex[rd.below(16)];
  if (n >= 4)
  {
    s[1]     = kLowerHex[rd.below(16)];
    s[n - 2] = kLowerHex[rd.below(16)];
  }
  if (n >= 20)
    s[n / 2] = kLowerHex[rd.below(16)];
  if (nonzero && n >= 1 && s.find_first_not_of('0') == std::string::npos)
    s[n - 1] = '1';
  return s;
}

const char kOddChars[] = {'g', 'G', 'x', ' ', '-', ':', '\0', '\x80', '\xff', '/', '@', '`', '\t', '+', 'O'};

// an id field of `nbytes` drawn from the classes that matter to a hex reader
std::string gen_hex_field(vh::Reader &rd, size_t nbytes)
{
  const size_t full = 2 * nbytes;
  switch (rd.weighted({34, 12, 4, 2, 5, 6, 4, 4, 3, 3, 8, 5, 2}))
  {
    case 0:
      return gen_digits(rd, full, true);
    case 1:
      return gen_digits(rd, full / 2, true);
    case 2:
      return std::string(full, '0');
    case 3:
      return std::string(full / 2, '0');
    case 4:
    {
      std::string s = gen_digits(rd, rd.coin() ? full : full / 2, true);
      s[rd.below(static_cast<uint32_t>(s.size()))] = static_cast<char>('A' + rd.below(6));
      for (auto &ch : s)
        if (ch >= 'a' && ch <= 'f' && rd.coin())
          ch = static_cast<char>(ch - 'a' + 'A');
      return s;
    }
    case 5:
    {
      size_t lens[] = {1, full - 1, full / 2 - 1, full / 2 + 1, 3};
      return gen_digits(rd, lens[rd.below(5)], true);
    }
    case 6:
    {
      std::string s = gen_digits(rd, full + 1, true);
      if (s[0] == '0')
        s[0] = '1';
      return s;
    }
    case 7:
      return std::string(1 + rd.below(4), '0') + gen_digits(rd, full, true);
    case 8:
    {
      size_t lens[] = {full * 2, full + 17, 100, full + 2};
      return gen_digits(rd, lens[rd.below(4)], true);
    }
    case 9:
      return "";
    case 10:
    {
      std::string s = gen_digits(rd, rd.chance(70) ? full : 1 + rd.below(static_cast<uint32_t>(full)), true);
      char odd      = kOddChars[rd.below(sizeof(kOddChars))];
      size_t pos    = rd.below(static_cast<uint32_t>(s.size() + 1));
      if (rd.coin() && pos < s.size())
        s[pos] = odd;
      else
        s.insert(s.begin() + static_cast<long>(pos), odd);
      return s;
    }
    case 11:
      return gen_digits(rd, 1 + rd.below(static_cast<uint32_t>(full - 1)), true);
    default:
      return std::string(1 + 2 * rd.below(4), '0');
  }
}

std::string gen_b3_flag(vh::Reader &rd, bool *absent)
{
  *absent                 = false;
  static const char *o[]  = {"1", "0", "d", nullptr, "", "D", "true", "false", "2", "11", "01", "1 ", "x", "3", "00"};
  size_t i = rd.weighted({22, 16, 14, 14, 4, 3, 2, 2, 2, 2, 2, 1, 1, 2, 1});
  if (!o[i])
  {
    *absent = true;
    return "";
  }
  return o[i];
}

void apply_edit(vh::Reader &rd, std::string &s)
{
  static const char alpha[] = {'0', '1', 'a', 'f', 'A', 'g', '-', ':', 'd', ' ', '\0', '\x80', '7', 'e'};
  size_t pos = rd.below(static_cast<uint32_t>(s.size() + 1));
  char ch    = alpha[rd.below(sizeof(alpha))];
  switch (rd.below(5))
  {
    case 0:
      s.insert(s.begin() + static_cast<long>(pos), ch);
      break;
    case 1:
      if (pos < s.size())
        s.erase(pos, 1);
      break;
    case 2:
      if (pos < s.size())
        s[pos] = ch;
      break;
    case 3:
      s.resize(pos);
      break;
    default:
      if (pos < s.size())
        s.insert(s.begin() + static_cast<long>(pos), s[pos]);
      break;
  }
}

// blanks at the ends of a header value (what an HTTP stack may leave there, what a trimming reader drops)
void pad_blanks(vh::Reader &rd, std::string &v)
{
  static const char bl[] = {' ', '\t', ' ', '\t', '\r', '\n', '\v', '\f'};
  unsigned where         = 1 + rd.below(3);  // 1 leading, 2 trailing, 3 both
  size_t n               = 1 + rd.below(2);
  char ch                = bl[rd.below(sizeof(bl))];
  if (where & 1)
    v.insert(static_cast<size_t>(0), n, ch);
  if (where & 2)
    v.append(n, ch);
}

// decoy header of the other family: an extractor that reads it installs ids nobody expects
const char kDecoyB3[]   = "decade0000000000decade0000000001-decade0000000002-1";
const char kDecoyUber[] = "decade0000000000decade0000000003:decade0000000004:0:01";

void emit_tags(vh::Case &c, const Expect &ex)
{
  for (auto &t : ex.tags)
    c.tag(t);
  c.tag(ex.anything ? "verdict:anything" : ex.must() ? "verdict:must-install"
                                         : ex.must_not() ? "verdict:must-not-install"
                                                         : "verdict:either");
}

bool some_hex_id(const std::string &v, char sep)
{
  // near the grammar: at least two fields and one of the first two is a non-empty all-hex string
  std::vector<std::string> f = split_all(v, sep);
  if (f.size() < 2)
    return false;
  for (size_t i = 0; i < 2; ++i)
    if (!f[i].empty() && std::all_of(f[i].begin(), f[i].end(), [](char ch) { return is_hex(ch); }))
      return true;
  return false;
}

// how the multi-header values get onto the carrier
struct MultiShape
{
  // bit i set: header i (0 X-B3-TraceId, 1 X-B3-SpanId, 2 X-B3-Sampled) is left OFF the carrier when
  // its value is empty (Get() then returns the null view); bit clear: stored as an empty value
  unsigned absent_mask = 0;
  // a X-B3-Flags header (the multi-header spelling of "debug" in the B3 document); nullptr = none
  const char *x_b3_flags = nullptr;
};

void run_b3(vh::Case &c, const std::string &b3, const std::string &tid, const std::string &sid,
            const std::string &smp, bool have_b3, bool have_multi, int caller_kind, bool decoy,
            const MultiShape &shape = MultiShape())
{
  Expect ex = ref_b3(have_b3 ? b3 : "", have_multi ? tid : "", have_multi ? sid : "",
                     have_multi ? smp : "");
  if (shape.x_b3_flags)
  {
    // The statement names only 'd'.  "X-B3-Flags: 1" is debug (implies accept) in the B3 document,
    // any other value "can be ignored": the header never changes the ids, and with the value 1 a
    // reader may report the context as sampled.
    bool debug = std::string(shape.x_b3_flags) == "1";
    c.tag(debug ? "x-b3-flags:1" : "x-b3-flags:other");
    if (debug)
      for (auto &r : ex.ok)
        if (r.sampled == Tri::No)
          r.sampled = Tri::Either;
  }
  emit_tags(c, ex);
  // the two B3 propagators share the documented extraction rules: both are asked
  prop::B3Propagator single;
  prop::B3PropagatorMultiHeader multi;
  context::propagation::TextMapPropagator *ps[] = {&single, &multi};
  const char *names[]                           = {"B3Propagator", "B3PropagatorMultiHeader"};
  bool installed                                = false;
  for (int i = 0; i < 2; ++i)
  {
    std::unique_ptr<Carrier> car(new Carrier);
    if (decoy)
      car->put(kUber, kDecoyUber);
    if (have_multi)
    {
      // an empty value is either stored as such (a non-null view of length 0) or the header is left
      // off (this carrier then returns the null view): "missing" in both spellings
      const char *keys[]        = {kB3Trace, kB3Span, kB3Sampled};
      const std::string *vals[] = {&tid, &sid, &smp};
      for (unsigned k = 0; k < 3; ++k)
      {
        if (vals[k]->empty() && (shape.absent_mask & (1u << k)))
        {
          if (i == 0)
            c.tag(std::string("multi:header-absent:") + keys[k]);
          continue;
        }
        if (vals[k]->empty() && i == 0)
          c.tag(std::string("multi:header-empty:") + keys[k]);
        car->put(keys[k], *vals[k]);
      }
      if (shape.x_b3_flags)
        car->put("X-B3-Flags", shape.x_b3_flags);
    }
    if (have_b3)
      car->put(kB3, b3);
    installed = check_extract(c, *ps[i], names[i], std::move(car), caller_kind, ex);
  }
  c.tag(installed ? "outcome:installed" : "outcome:unchanged");
}

void run_jaeger(vh::Case &c, const std::string &v, bool present, int caller_kind, bool decoy)
{
  Expect ex = ref_jaeger(present ? v : "");
  emit_tags(c, ex);
  prop::JaegerPropagator jp;
  std::unique_ptr<Carrier> car(new Carrier);
  if (decoy)
    car->put(kB3, kDecoyB3);
  if (present)
    car->put(kUber, v);
  bool installed = check_extract(c, jp, "JaegerPropagator", std::move(car), caller_kind, ex);
  c.tag(installed ? "outcome:installed" : "outcome:unchanged");
}

}  // namespace

// ================================================================================================
VH_TARGET(rt_inject_extract, 1,
          "a round trip is non-trivial when the flags byte carries a bit other than 'sampled', or "
          "an id has a zero half / leading zero nibble / a single bit set, or the carrier already "
          "held multi headers of another context or an earlier injection by the same propagator; distinct = distinct (flags, ids, remote, "
          "caller, stale) text")
{
  set_guard_mode(c);
  vh::Reader &rd = c.rd;
  uint8_t flags  = rd.u8();  // every flags byte, uniformly
  const char *tcls = "", *scls = "";
  Tid t = gen_id<16>(rd, tcls);
  Sid s = gen_id<8>(rd, scls);
  // 0: a valid context (the statement's domain); 1..3: not a valid context -> nothing may be installed
  size_t mode      = rd.weighted({92, 3, 3, 2});
  bool remote      = rd.coin();
  int caller_kind  = static_cast<int>(rd.below(3));
  bool stale_multi = rd.chance(25);
  bool with_state  = rd.chance(20);
  bool sweep       = rd.chance(30);
  bool reused      = rd.chance(30);
  if (mode == 1)
    t.fill(0);
  if (mode == 2)
    s.fill(0);
  std::ostringstream d;
  d << "flags=0x" << hex(&flags, 1) << " trace_id=" << hex(t) << "[" << tcls << "] span_id=" << hex(s)
    << "[" << scls << "] mode=" << mode << " remote=" << remote << " caller=" << caller_kind
    << " stale_multi=" << stale_multi << " tracestate=" << with_state << " sweep=" << sweep << " reused=" << reused << "\n";
  c.note(d.str());
  c.tag(flags == 0   ? "flags:00"
        : flags == 1 ? "flags:01"
        : (flags & 1) ? "flags:other-bits+sampled"
                      : "flags:other-bits+unsampled");
  c.tag(std::string("tid:") + tcls);
  c.tag(std::string("sid:") + scls);
  c.tag(mode == 0 ? "src:valid" : "src:invalid");
  if (stale_multi)
    c.tag("stale-multi-headers");
  if (reused)
    c.tag("reused-carrier");
  c.nontrivial = mode == 0 && ((flags & 0xfe) != 0 || stale_multi || reused ||
                               (std::string(tcls) != "one" && std::string(tcls) != "random") ||
                               (std::string(scls) != "one" && std::string(scls) != "random"));

  auto source_ctx = [&](uint8_t fl) {
    if (mode == 3)
      return context::Context("unrelated", true);  // no span at all
    trace::SpanContext sc(trace::TraceId(nostd::span<const uint8_t, 16>(t.data(), 16)),
                          trace::SpanId(nostd::span<const uint8_t, 8>(s.data(), 8)), trace::TraceFlags(fl),
                          remote,
                          with_state ? trace::TraceState::FromHeader("k1=v1,k2=v2")
                                     : trace::TraceState::GetDefault());
    return context::Context(trace::kSpanKey,
                            nostd::shared_ptr<trace::Span>(new trace::DefaultSpan(sc)));
  };

  prop::B3Propagator single;
  prop::B3PropagatorMultiHeader multi;
  prop::JaegerPropagator jaeger;
  struct P
  {
    context::propagation::TextMapPropagator *p;
    const char *name;
    int kind;
  } ps[] = {{&single, "B3Propagator", 0}, {&multi, "B3PropagatorMultiHeader", 1}, {&jaeger, "JaegerPropagator", 2}};

  auto round_trip = [&](const P &p, uint8_t fl, bool detailed) {
    // open finding F15 (multi-header Inject derives X-B3-Sampled from the low hex digit of the flags
    // byte): when it is listed as open, the multi-header propagator only sees flags 0x00 / 0x01
    if (p.kind == 1 && (fl & 0xfe) != 0 && vh::excluded("F15"))
    {
      if (detailed)
        vh::count_excluded("F15");
      fl &= 1;
    }
    std::unique_ptr<Carrier> car(new Carrier);
    bool stale = detailed && stale_multi && p.kind == 0 && mode == 0;
    if (stale)
    {
      // multi headers of another context are already on the carrier: the injected single header
      // must still decide ("single header taking precedence")
      car->put(kB3Trace, "5ca1ab1e5ca1ab1e5ca1ab1e5ca1ab1e");
      car->put(kB3Span, "5ca1ab1e5ca1ab1e");
      car->put(kB3Sampled, (fl & 1) ? "0" : "1");
    }
    else if (reused && mode == 0)
    {
      // a header map that served an earlier request: the same propagator has already injected
      // another context (other ids, the opposite sampled decision).  "Injecting and extracting the
      // result" must still give the context injected last.
      uint8_t ot[16], os[8];
      for (size_t i = 0; i < 16; ++i)
        ot[i] = static_cast<uint8_t>(~t[i]);
      for (size_t i = 0; i < 8; ++i)
        os[i] = static_cast<uint8_t>(~s[i]);
      ot[15] |= 1;  // valid whatever t and s are
      os[7] |= 1;
      trace::SpanContext osc(trace::TraceId(nostd::span<const uint8_t, 16>(ot, 16)),
                             trace::SpanId(nostd::span<const uint8_t, 8>(os, 8)),
                             trace::TraceFlags(static_cast<uint8_t>((fl & 1) ^ 1)), false);
      context::Context earlier(trace::kSpanKey, nostd::shared_ptr<trace::Span>(new trace::DefaultSpan(osc)));
      p.p->Inject(*car, earlier);
    }
    context::Context src = source_ctx(fl);
    p.p->Inject(*car, src);
    Expect want, wrote;
    std::string wrote_show = car->show();
    std::vector<std::string> keys;
    for (auto &e : car->entries_)
      keys.push_back(e.key);
    if (mode == 0)
    {
      want.allow_unchanged = false;
      RefCtx r;
      r.t       = t;
      r.s       = s;
      r.sampled = (fl & 1) ? Tri::Yes : Tri::No;
      r.from    = "the injected context";
      want.ok.push_back(r);
      wrote = p.kind == 2 ? ref_jaeger(car->get(kUber))
                          : ref_b3(car->get(kB3), stale ? "" : car->get(kB3Trace),
                                   stale ? "" : car->get(kB3Span), stale ? "" : car->get(kB3Sampled));
    }
    // the statement's round trip: same ids, same sampled decision, remote.
    // mode != 0: not a valid span context; whatever Inject does, Extract must not install anything
    check_extract(c, *p.p, p.name, std::move(car), detailed ? caller_kind : 0, want);
    if (mode == 0)
    {
      // what was written must itself be a documented header that reads back as the same context
      bool canon = wrote.must() && wrote.ok.size() == 1 && wrote.ok[0].t == t && wrote.ok[0].s == s &&
                   wrote.ok[0].sampled == want.ok[0].sampled;
      VH_CHECK(c, canon, p.name << ".Inject(trace_id=" << hex(t) << ", span_id=" << hex(s) << ", flags=0x"
                                << hex(&fl, 1) << ") wrote " << wrote_show
                                << ", which a reader of the documented format takes as: " << wrote.show()
                                << "; expected exactly " << want.show());
      // Fields() is documented as "the fields set in the carrier by the inject method"
      std::vector<std::string> fields;
      p.p->Fields([&fields](nostd::string_view f) {
        fields.emplace_back(f.data(), f.size());
        return true;
      });
      for (auto &k : keys)
      {
        bool own = std::find(fields.begin(), fields.end(), k) != fields.end() ||
                   (stale && (k == kB3Trace || k == kB3Span || k == kB3Sampled));
        VH_CHECK(c, own, p.name << ".Inject wrote the header " << k << ", which Fields() does not list");
      }
    }
  };

  for (auto &p : ps)
    round_trip(p, flags, true);
  if (sweep)
  {
    // the same ids under all 256 flag bytes
    c.tag("sweep-256-flags");
    for (unsigned fl = 0; fl < 256; ++fl)
      for (auto &p : ps)
        round_trip(p, static_cast<uint8_t>(fl), false);
  }
}

// ================================================================================================
VH_TARGET(ex_struct, 1,
          "a header case is non-trivial when the reference extractor derives at least one id "
          "(non-empty all-hex field among the first two) AND the case has an oddity: a non-canonical "
          "id spelling (incl. blanks at the ends of a header value), a sampling value other than 0/1, a "
          "missing/extra field (multi headers empty or really absent), both B3 styles present, or a byte "
          "edit; distinct = distinct header text (absent headers and a X-B3-Flags header are part of it)")
{
  set_guard_mode(c);
  vh::Reader &rd  = c.rd;
  size_t kind     = rd.weighted({30, 22, 18, 30});  // single, multi, both, jaeger
  int caller_kind = static_cast<int>(rd.below(3));
  bool decoy      = rd.chance(30);
  unsigned nedit  = static_cast<unsigned>(rd.weighted({70, 20, 10}));
  std::ostringstream d;
  if (kind <= 2)
  {
    std::string b3, tid, sid, smp;
    bool have_b3 = kind == 0 || kind == 2, have_multi = kind == 1 || kind == 2;
    if (have_b3)
    {
      if (rd.chance(4))
      {
        static const char *lone[] = {"0", "1", "d", "-", "--"};
        b3                        = lone[rd.below(5)];
      }
      else
      {
        b3 = gen_hex_field(rd, 16) + "-" + gen_hex_field(rd, 8);
        bool absent;
        std::string fl = gen_b3_flag(rd, &absent);
        if (!absent)
        {
          b3 += "-" + fl;
          switch (rd.weighted({50, 25, 5, 5, 5, 5, 5}))
          {
            case 0:
              break;
            case 1:
              b3 += "-" + gen_digits(rd, 16, false);
              break;
            case 2:
              b3 += "-";
              break;
            case 3:
              b3 += "-" + gen_digits(rd, 1 + rd.below(15), false);
              break;
            case 4:
              b3 += "-zz";
              break;
            case 5:
              b3 += "-" + gen_digits(rd, 16, false) + "-" + gen_digits(rd, 1 + rd.below(4), false);
              break;
            default:
              b3 += "-" + gen_digits(rd, 15, false) + "A";
              break;
          }
        }
      }
    }
    bool smp_absent = false;
    if (have_multi)
    {
      tid = gen_hex_field(rd, 16);
      sid = gen_hex_field(rd, 8);
      smp = gen_b3_flag(rd, &smp_absent);
    }
    for (unsigned i = 0; i < nedit; ++i)
    {
      std::string *tg[] = {&b3, &tid, &sid, &smp};
      size_t w          = have_b3 && have_multi ? rd.below(4) : have_b3 ? 0 : 1 + rd.below(3);
      apply_edit(rd, *tg[w]);
    }
    // late draws (an exhausted stream gives the old shapes): blanks at the ends of one header value,
    // which empty multi headers are really absent, a X-B3-Flags header
    if (rd.chance(12))
    {
      std::string *tg[] = {&b3, &tid, &sid, &smp};
      size_t w          = have_b3 && have_multi ? rd.below(4) : have_b3 ? 0 : 1 + rd.below(3);
      pad_blanks(rd, *tg[w]);
      c.tag("gen:blank-padded");
    }
    MultiShape shape;
    if (have_multi)
    {
      shape.absent_mask = rd.below(8);
      if (smp_absent)
        shape.absent_mask |= 4;  // gen_b3_flag said "no sampling field at all"
      static const char *xf[] = {nullptr, "1", "0", "d"};
      shape.x_b3_flags        = xf[rd.weighted({86, 9, 3, 2})];
    }
    d << "kind=" << (kind == 0 ? "b3-single" : kind == 1 ? "b3-multi" : "b3-both");
    if (have_b3)
      d << " b3='" << vh::show(b3) << "'";
    if (have_multi)
    {
      const std::string *vals[] = {&tid, &sid, &smp};
      const char *keys[]        = {kB3Trace, kB3Span, kB3Sampled};
      for (unsigned k = 0; k < 3; ++k)
      {
        if (vals[k]->empty() && (shape.absent_mask & (1u << k)))
          d << " " << keys[k] << " absent";
        else
          d << " " << keys[k] << "='" << vh::show(*vals[k]) << "'";
      }
      if (shape.x_b3_flags)
        d << " X-B3-Flags='" << shape.x_b3_flags << "'";
    }
    d << " caller=" << caller_kind << " decoy=" << decoy << "\n";
    c.note(d.str());
    c.tag(kind == 0 ? "kind:b3-single" : kind == 1 ? "kind:b3-multi" : "kind:b3-both");
    Expect ex    = ref_b3(have_b3 ? b3 : "", tid, sid, smp);
    bool derived = !ex.ok.empty();
    c.nontrivial = derived && (!ex.must() || kind == 2 || nedit > 0 ||
                               std::any_of(ex.tags.begin(), ex.tags.end(), [](const std::string &t) {
                                 return t.find("flag-d") != std::string::npos ||
                                        t.find("flag-missing") != std::string::npos ||
                                        t.find("-half") != std::string::npos;
                               }));
    run_b3(c, b3, tid, sid, smp, have_b3, have_multi, caller_kind, decoy, shape);
  }
  else
  {
    std::string v = gen_hex_field(rd, 16) + ":" + gen_hex_field(rd, 8);
    static const char *parents[] = {"0", nullptr, "", "xyz", "00000000000000001", "0000000000000000"};
    size_t pi                    = rd.weighted({50, 25, 7, 6, 6, 6});
    v += ":" + (parents[pi] ? std::string(parents[pi]) : gen_digits(rd, 16, false));
    static const char *fls[] = {"1",  "0",  "01", "00", "ff", "f",   "3",   "03", "2", "02", "",
                                nullptr, "001", "100", "g",  "0g", "1 ", "8",   "09", "fe", "7"};
    size_t fi = rd.weighted({12, 10, 12, 10, 4, 4, 4, 3, 3, 3, 4, 5, 3, 3, 3, 2, 2, 2, 2, 3, 2});
    if (fls[fi])
      v += ":" + std::string(fls[fi]);
    if (rd.chance(6))
      v += rd.coin() ? ":" : ":1";
    for (unsigned i = 0; i < nedit; ++i)
      apply_edit(rd, v);
    if (rd.chance(12))
    {
      pad_blanks(rd, v);
      c.tag("gen:blank-padded");
    }
    d << "kind=jaeger uber-trace-id='" << vh::show(v) << "' caller=" << caller_kind << " decoy=" << decoy
      << "\n";
    c.note(d.str());
    c.tag("kind:jaeger");
    Expect ex    = ref_jaeger(v);
    c.nontrivial = !ex.ok.empty() &&
                   (!ex.must() || nedit > 0 ||
                    std::any_of(ex.tags.begin(), ex.tags.end(), [](const std::string &t) {
                      return t.find("short-ok") != std::string::npos || t.find("-half") != std::string::npos ||
                             t.find("-upper") != std::string::npos || t.find("other-bits") != std::string::npos;
                    }));
    run_jaeger(c, v, true, caller_kind, decoy);
  }
}

// ================================================================================================
VH_TARGET(b3_single_bytes, 1,
          "arbitrary bytes as the b3 header; non-trivial when the value has at least two '-' "
          "separated fields and one of the first two is a non-empty all-hex string (near the "
          "grammar); distinct = distinct byte string")
{
  set_guard_mode(c);
  std::string v = c.rd.bytes(c.rd.remaining());
  c.note("b3(" + std::to_string(v.size()) + ")='" + vh::show(v) + "'\n");
  c.nontrivial = some_hex_id(v, '-');
  run_b3(c, v, "", "", "", true, false, static_cast<int>(v.size() % 3), (v.size() & 4) != 0);
}

VH_TARGET(b3_multi_bytes, 1,
          "arbitrary bytes split at the first three line feeds into X-B3-TraceId, X-B3-SpanId, "
          "X-B3-Sampled and (the rest) b3 - a header whose line is never reached is absent from the "
          "carrier, an empty line is an empty value; non-trivial when X-B3-TraceId or X-B3-SpanId is a "
          "non-empty all-hex string, or the b3 part is near the grammar; distinct = distinct byte "
          "string")
{
  set_guard_mode(c);
  std::string all = c.rd.bytes(c.rd.remaining());
  std::string part[4];
  size_t pos = 0;
  int nparts = 0;
  for (int i = 0; i < 4; ++i)
  {
    size_t e = i < 3 ? all.find('\n', pos) : std::string::npos;
    nparts   = i + 1;
    if (e == std::string::npos)
    {
      part[i] = all.substr(pos);
      pos     = all.size();
      break;
    }
    part[i] = all.substr(pos, e - pos);
    pos     = e + 1;
  }
  // a header whose line was never reached is absent (null view); an empty line is an empty value
  MultiShape shape;
  for (int i = nparts; i < 3; ++i)
    shape.absent_mask |= 1u << i;
  c.note("X-B3-TraceId='" + vh::show(part[0]) + "' X-B3-SpanId='" + vh::show(part[1]) + "' X-B3-Sampled='" +
         vh::show(part[2]) + "' b3='" + vh::show(part[3]) + "' lines=" + std::to_string(nparts) + "\n");
  auto hexish = [](const std::string &s) {
    return !s.empty() && std::all_of(s.begin(), s.end(), [](char ch) { return is_hex(ch); });
  };
  c.nontrivial = hexish(part[0]) || hexish(part[1]) || some_hex_id(part[3], '-');
  run_b3(c, part[3], part[0], part[1], part[2], !part[3].empty(), true, static_cast<int>(all.size() % 3),
         (all.size() & 4) != 0, shape);
}

VH_TARGET(jaeger_bytes, 1,
          "arbitrary bytes as the uber-trace-id header; non-trivial when the value has at least two "
          "':' separated fields and one of the first two is a non-empty all-hex string; distinct = "
          "distinct byte string")
{
  set_guard_mode(c);
  std::string v = c.rd.bytes(c.rd.remaining());
  c.note("uber-trace-id(" + std::to_string(v.size()) + ")='" + vh::show(v) + "'\n");
  c.nontrivial = some_hex_id(v, ':');
  run_jaeger(c, v, true, static_cast<int>(v.size() % 3), (v.size() & 4) != 0);
}

// ================================================================================================
// The public static helpers of the B3 extractor, called directly.  Extract only ever hands them
// fields that passed its own hex test; a caller of the public functions need not.
//
// OBSERVATION C16-fromhex-nonhex (decided: outside this property - the statement speaks of Inject and
// Extract, and Extract validates with IsValidHex before it calls the helpers; same decision as for the
// W3C helpers in C09; proposed_fixes/C16-fromhex-nonhex.diff shows a repair): a byte
// that is no hex digit in the argument of TraceIdFromHex / SpanIdFromHex reaches detail::HexToBinary,
// where HexToInt() == -1 is shifted left (undefined before C++20; UBSan: "left shift of negative
// value -1") and or-ed into the id: "zz..." comes back as a valid-looking non-zero id.  The helpers
// are therefore called with hex digits only (recorded assumption); the shape stays switched off.
const bool kHoldBack_fromhex_nonhex = true;

VH_TARGET(b3_helpers, 1,
          "a direct call of TraceIdFromHex / SpanIdFromHex / TraceFlagsFromHex is non-trivial when the "
          "argument is not the canonical spelling (full-length lower-hex id; '0' / '1'): a 64-bit or "
          "shorter or odd-length id, upper case, over-long, empty, the null view, 'd', an undocumented or "
          "multi-byte sampling value; distinct = distinct (helper, argument) text")
{
  set_guard_mode(c);
  vh::Reader &rd = c.rd;
  size_t which   = rd.below(3);  // 0 TraceIdFromHex, 1 SpanIdFromHex, 2 TraceFlagsFromHex
  bool null_view = false;
  std::string in;
  const char *cls = "";
  if (which < 2)
  {
    const size_t full = which == 0 ? 32 : 16;
    switch (rd.weighted({26, 14, 14, 10, 8, 6, 5, 5, 12}))
    {
      case 0:
        cls = "full";
        in  = gen_digits(rd, full, true);
        break;
      case 1:
        cls = "half";
        in  = gen_digits(rd, full / 2, true);
        break;
      case 2:
        cls = "short";
        in  = gen_digits(rd, 1 + rd.below(static_cast<uint32_t>(full - 1)), rd.chance(90));
        break;
      case 3:
        cls = "uppercase";
        in  = gen_digits(rd, rd.coin() ? full : 1 + rd.below(static_cast<uint32_t>(full)), true);
        for (auto &ch : in)
          if (ch >= 'a' && ch <= 'f' && rd.coin())
            ch = static_cast<char>(ch - 'a' + 'A');
        break;
      case 4:
        cls = "overlong-zero-prefix";
        in  = std::string(1 + rd.below(5), '0') + gen_digits(rd, full, true);
        break;
      case 5:
      {
        cls           = "overlong";
        size_t lens[] = {full + 1, full + 2, 2 * full, 100, full + 17};
        in            = gen_digits(rd, lens[rd.below(5)], true);
        if (in[0] == '0')
          in[0] = '7';
        break;
      }
      case 6:
        cls = "empty";
        break;
      case 7:
        cls       = "null-view";
        null_view = true;
        break;
      default:
      {
        cls = "nonhex";
        in  = gen_digits(rd, rd.chance(60) ? full : 1 + rd.below(static_cast<uint32_t>(full)), true);
        char odd   = kOddChars[rd.below(sizeof(kOddChars))];
        size_t pos = rd.below(static_cast<uint32_t>(in.size()));
        in[pos]    = odd;
        if (rd.chance(30))
          in[rd.below(static_cast<uint32_t>(in.size()))] = static_cast<char>(rd.u8());
        bool still = std::any_of(in.begin(), in.end(), [](char ch) { return !is_hex(ch); });
        if (still && (kHoldBack_fromhex_nonhex || vh::excluded("C16-fromhex-nonhex")))
        {
          if (!kHoldBack_fromhex_nonhex)
            vh::count_excluded("C16-fromhex-nonhex");
          c.tag("nonhex-argument-not-generated");
          for (auto &ch : in)
            if (!is_hex(ch))
              ch = 'e';
          cls = "full";  // re-shaped: an all-hex argument
          if (in.size() != full)
            cls = "short";
        }
        else if (!still)
          cls = in.size() == full ? "full" : "short";
        break;
      }
    }
  }
  else
  {
    static const char *o[] = {"1", "0", "d", "", nullptr, "D", "true", "false", "11", "01", "1 ", " 1", "d1", "2"};
    size_t i               = rd.weighted({16, 14, 14, 8, 8, 4, 4, 3, 4, 4, 3, 3, 3, 3, 12});
    if (i < sizeof(o) / sizeof(o[0]))
    {
      if (o[i])
        in = o[i];
      else
        null_view = true;
      cls = !o[i] ? "null-view" : in.empty() ? "empty" : in == "1" || in == "0" ? "canonical" : in == "d" ? "debug" : "other";
    }
    else
    {
      in  = rd.bytes(1 + rd.below(3));
      cls = "raw-bytes";
      if (in.empty())
        cls = "empty";
    }
  }
  const char *names[] = {"TraceIdFromHex", "SpanIdFromHex", "TraceFlagsFromHex"};
  c.note(std::string(names[which]) + "(" + (null_view ? std::string("null view") : "'" + vh::show(in) + "'") + ")\n");
  c.tag(std::string("helper:") + names[which]);
  c.tag(std::string("arg:") + cls);

  // exact-size heap block, no terminator: one byte too far is an ASan report
  std::unique_ptr<char[]> blk(new char[in.size()]);
  std::memcpy(blk.get(), in.data(), in.size());
  nostd::string_view arg = null_view ? nostd::string_view() : nostd::string_view(blk.get(), in.size());

  if (which == 2)
  {
    c.nontrivial        = !(in == "0" || in == "1") || null_view;
    trace::TraceFlags f = prop::B3PropagatorExtractor::TraceFlagsFromHex(arg);
    blk.reset();
    const uint8_t fb = f.flags();
    VH_CHECK(c, (fb & 0xfe) == 0, "TraceFlagsFromHex('" << vh::show(in) << "') returned the flags byte 0x"
                                                        << hex(&fb, 1) << ": only the sampled bit can come out of B3");
    if (in == "1" || in == "d")
      VH_CHECK(c, f.IsSampled(), "TraceFlagsFromHex('" << in << "') is not sampled");
    else if (in == "0" || in.empty())
      VH_CHECK(c, !f.IsSampled(), "TraceFlagsFromHex(" << (null_view ? "null view" : "'" + in + "'")
                                                       << ") is sampled; a missing field / '0' is not sampled");
    // anything else is an undocumented value: either decision
    return;
  }

  const HexPolicy &pol = which == 0 ? kB3TracePol : kB3SpanPol;
  HexRef ref           = ref_hex(in, pol);
  std::vector<uint8_t> got(pol.nbytes, 0);
  if (which == 0)
  {
    trace::TraceId id = prop::B3PropagatorExtractor::TraceIdFromHex(arg);
    std::memcpy(got.data(), id.Id().data(), 16);
  }
  else
  {
    trace::SpanId id = prop::B3PropagatorExtractor::SpanIdFromHex(arg);
    std::memcpy(got.data(), id.Id().data(), 8);
  }
  blk.reset();
  c.tag("ref:" + ref.cls);
  c.nontrivial  = !(ref.q == Q::Good && ref.cls == "full");
  bool all_hex  = std::all_of(in.begin(), in.end(), [](char ch) { return is_hex(ch); });
  bool got_zero = std::all_of(got.begin(), got.end(), [](uint8_t b) { return b == 0; });
  std::string g = hex(got.data(), got.size()), w = hex(ref.val.data(), ref.val.size());
  if (ref.q == Q::Good)
    // the documented spellings (16 / 32 lower-hex digits; a 64-bit trace id is left-padded with zeros)
    VH_CHECK(c, got == ref.val, names[which] << "('" << in << "') = " << g << "; expected " << w);
  else if (ref.q == Q::Gray)
    // other lengths / upper case / extra leading zeros: the value the digits spell, or "no id" (all zero)
    VH_CHECK(c, got == ref.val || got_zero,
             names[which] << "('" << in << "') = " << g << "; expected " << w << " or the zero id");
  else if (all_hex && in.size() <= 2 * pol.nbytes)
    // all zeros / empty / null view: the value is zero
    VH_CHECK(c, got_zero, names[which] << "('" << in << "') = " << g << "; the digits spell the zero id");
  else if (!all_hex)
    // bytes that are no hex digits: no id can be derived; the invalid (all-zero) id is the helper's
    // only way to say so and what Extract tests after the call - a non-zero id here is made of bytes
    // that were not in the argument (part of candidate C16-fromhex-nonhex)
    VH_CHECK(c, got_zero, names[which] << "('" << vh::show(in) << "') = " << g
                                       << ": a non-zero id out of an argument that is not hex");
  // an over-long value that does not fit: only the sanitizers decide
}

// C01 (E-SCHED part): batch span/log processors under generated schedules; see batch_sched.h.
#include "batch_sched.h"

const char *vh_property_id = "C01";

namespace
{
void run(vh::Case &c, bool logs)
{
  // mostly this property's own scenario shapes, but also the shapes biased towards the other two
  // batch-processor properties (the oracle is a predicate over any history)
  static const int biases[] = {1, 2, 3};
  int bias                  = biases[c.rd.weighted({6, 2, 2})];
  bs::Cfg cfg               = bs::gen_cfg(c.rd, logs, bias);
  c.tag("bias-" + std::to_string(bias));
  c.note(bs::describe(cfg));
  bs::History h;
  if (logs)
    bs::run_scenario<bs::LogTraits>(c, cfg, h);
  else
    bs::run_scenario<bs::SpanTraits>(c, cfg, h);
  c.note(bs::schedule_text());
  VH_CHECK(c, !h.rs.leaked_threads, "a thread of the processor was still alive after destruction");
  bs::common_tags(c, cfg, h);
  bs::check_delivery(c, cfg, h);
  bool dropped_full = false, export_after_flush = false;
  for (auto &t : c.tags)
    if (t == "drop-queue-full")
      dropped_full = true;
  {
    uint64_t first_flush = UINT64_MAX;
    for (auto &f : h.ctl)
      if (f.is_flush)
        first_flush = std::min(first_flush, f.call);
    for (auto &e : h.exports)
      if (e.entry > first_flush)
        export_after_flush = true;
    if (export_after_flush)
      c.tag("export-after-flush");
  }
  (void)dropped_full;
  (void)export_after_flush;
  c.nontrivial = !h.exports.empty() && (cfg.producers.size() >= 2 || h.rs.preemptions > 0 || dropped_full);
}
}  // namespace

VH_TARGET(bsp_sched, 4, "BatchSpanProcessor: non-trivial when at least one batch was exported and (2+ producer threads, or the schedule preempted a running thread, or a record was dropped at a full queue); distinct = distinct (scenario, schedule taken)")
{
  run(c, false);
}

VH_TARGET(blp_sched, 4, "BatchLogRecordProcessor: non-trivial when at least one batch was exported and (2+ producer threads, or the schedule preempted a running thread, or a record was dropped at a full queue); distinct = distinct (scenario, schedule taken)")
{
  run(c, true);
}

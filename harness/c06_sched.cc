// C06 (engine E-SCHED): counters recorded CONCURRENTLY with collections, under generated schedules.
//
// The whole metrics SDK (every file under sdk/src/metrics and sdk/include/opentelemetry/sdk/metrics,
// plus spin_lock_mutex.h) is compiled from token-renamed copies against the scheduler shim, so every
// lock operation and every atomic access of Meter / SyncMetricStorage / TemporalMetricStorage /
// the aggregations is a scheduling point and the interleaving of recorder threads with collecting
// readers is part of the generated case.  This reaches race windows of a few instructions (e.g. between
// SyncMetricStorage::Collect releasing its lock and TemporalMetricStorage looking at the interval it was
// handed) that real-thread stress hits only by luck.
//
// Scenario: a MeterProvider with 1..2 readers (delta / cumulative), one meter "m", one counter or up-down
// counter "c" (long or double), optionally created by a recorder thread itself while a reader already
// collects, optionally behind a view whose attribute allow-list is empty (every attribute set lands in
// the one series {}); 1..3 recorder threads x 1..4 Add calls over up to 3 attribute sets (through a shared
// handle or handles of their own, which they may release and request again between two Adds; the last
// recorder may record on a second meter "m2" which it obtains itself - GetMeter and the first
// registration of a storage race the collections); one collecting thread per reader issuing 0..3 Collect
// calls; optionally a further reader is registered (AddMetricReader, by the main thread, while no Collect
// call is in progress but recorders still run) after those collector threads have been joined, followed
// by a second round of collecting threads for all readers; a final Collect per reader after everything
// has been joined.
// Oracle (the statement of C06, per reader, stream and attribute set; logical stamps of the scheduler
// decide what a collection must / may contain):
//   delta      : the points over all collections add up exactly to what was recorded
//   cumulative : points never exceed what had been recorded when the Collect returned, never fall below
//                what had been recorded when it was called (monotonic counters: never decrease), and the
//                final point equals the total
//   intervals  : a reader's successive delta points abut (start == previous end, first == SDK start);
//                cumulative points start at SDK start; every interval ends inside the Collect call that
//                delivered it (virtual clock)
//   late reader: "may not receive any in-flight meter data" (MeterProvider::AddMetricReader): a measurement
//                whose Add call began before the registration returned may or may not be counted for it
//                (two-sided bounds instead of equalities; its first delta interval may start anywhere
//                from SDK start on); measurements after the registration are counted exactly once, and
//                the readers that were there from the start keep the exact oracle across the registration
#include <map>
#include <memory>
#include <string>
#include <unordered_map>
#include <vector>

#include "opentelemetry/metrics/sync_instruments.h"
#include "opentelemetry/sdk/common/global_log_handler.h"
#include "opentelemetry/sdk/metrics/data/metric_data.h"
#include "opentelemetry/sdk/metrics/data/point_data.h"
#include "opentelemetry/sdk/metrics/meter_context.h"
#include "opentelemetry/sdk/metrics/meter_provider.h"
#include "opentelemetry/sdk/metrics/metric_reader.h"
#include "opentelemetry/sdk/metrics/view/attributes_processor.h"
#include "opentelemetry/sdk/metrics/view/instrument_selector.h"
#include "opentelemetry/sdk/metrics/view/meter_selector.h"
#include "opentelemetry/sdk/metrics/view/view.h"
#include "opentelemetry/sdk/metrics/view/view_registry.h"
#include "opentelemetry/sdk/resource/resource.h"
#include "sched_harness.h"
#include "vh.h"

// The same scenario engine also serves C08 (-DVH_PROP_ID="C08": "the total over all reported series equals
// everything recorded", here with measurements racing collections) and C07 (-DVH_SCHED_HIST: the instrument is
// a histogram; the sum of a series' points is conserved, bucket counts add up to count in every point).
#ifndef VH_PROP_ID
#  define VH_PROP_ID "C06"
#endif
const char *vh_property_id = VH_PROP_ID;

namespace
{
namespace otel = opentelemetry;
namespace sdkm = opentelemetry::sdk::metrics;
namespace om   = opentelemetry::metrics;
namespace nostd = opentelemetry::nostd;

class NullLog : public otel::sdk::common::internal_log::LogHandler
{
public:
  void Handle(otel::sdk::common::internal_log::LogLevel, const char *, int, const char *,
              const otel::sdk::common::AttributeMap &) noexcept override
  {}
};

class MReader : public sdkm::MetricReader
{
public:
  explicit MReader(bool delta) : delta_(delta) {}
  sdkm::AggregationTemporality GetAggregationTemporality(sdkm::InstrumentType) const noexcept override
  {
    vsched::point();  // an exporter's temporality selector may take time
    return delta_ ? sdkm::AggregationTemporality::kDelta : sdkm::AggregationTemporality::kCumulative;
  }
  bool OnForceFlush(std::chrono::microseconds) noexcept override { return true; }
  bool OnShutDown(std::chrono::microseconds) noexcept override { return true; }
  bool delta() const { return delta_; }

private:
  bool delta_;
};

enum Kind
{
  kCtrLong,
  kCtrDouble,
  kUdLong,
  kUdDouble,
  kHistLong,
  kHistDouble
};
const char *const kKindName[] = {"Counter<uint64>", "Counter<double>", "UpDownCounter<int64>", "UpDownCounter<double>",
                                 "Histogram<uint64>", "Histogram<double>"};

struct Handle
{
  nostd::unique_ptr<om::Counter<uint64_t>> cl;
  nostd::unique_ptr<om::Counter<double>> cd;
  nostd::unique_ptr<om::UpDownCounter<int64_t>> ul;
  nostd::unique_ptr<om::UpDownCounter<double>> ud;
  nostd::unique_ptr<om::Histogram<uint64_t>> hl;
  nostd::unique_ptr<om::Histogram<double>> hd;
  void create(om::Meter &m, int kind)
  {
    switch (kind)
    {
      case kHistLong:
        hl = m.CreateUInt64Histogram("c", "", "");
        break;
      case kHistDouble:
        hd = m.CreateDoubleHistogram("c", "", "");
        break;
      case kCtrLong:
        cl = m.CreateUInt64Counter("c", "", "");
        break;
      case kCtrDouble:
        cd = m.CreateDoubleCounter("c", "", "");
        break;
      case kUdLong:
        ul = m.CreateInt64UpDownCounter("c", "", "");
        break;
      default:
        ud = m.CreateDoubleUpDownCounter("c", "", "");
        break;
    }
  }
  void add(int kind, int64_t v, int set)
  {
    static const char *const vals[] = {"", "a", "b"};
    std::map<std::string, std::string> attrs;
    if (set > 0)
      attrs["k"] = vals[set];
    otel::common::KeyValueIterableView<std::map<std::string, std::string>> view(attrs);
    switch (kind)
    {
      case kHistLong:
        hl->Record(static_cast<uint64_t>(v), view, otel::context::Context{});
        break;
      case kHistDouble:
        hd->Record(static_cast<double>(v), view, otel::context::Context{});
        break;
      case kCtrLong:
        if (set == 0)
          cl->Add(static_cast<uint64_t>(v));
        else
          cl->Add(static_cast<uint64_t>(v), view);
        break;
      case kCtrDouble:
        if (set == 0)
          cd->Add(static_cast<double>(v));
        else
          cd->Add(static_cast<double>(v), view);
        break;
      case kUdLong:
        if (set == 0)
          ul->Add(v);
        else
          ul->Add(v, view);
        break;
      default:
        if (set == 0)
          ud->Add(static_cast<double>(v));
        else
          ud->Add(static_cast<double>(v), view);
        break;
    }
  }
};

struct AddOp
{
  int64_t value;
  int set;
  bool yield_before;
  bool renew_handle = false;  // own handle only: release it and request the instrument again before this Add
};
struct Cfg
{
  int kind = 0;
  std::vector<bool> reader_delta;
  bool create_in_thread = false;  // recorder 0 creates the instrument (the others wait for it)
  bool own_handles      = false;  // every recorder requests its own handle
  std::vector<std::vector<AddOp>> recorders;
  std::vector<std::vector<int>> collectors;  // per reader: sleep (us, 0 = yield) before each Collect
  // later additions (a zero byte each = absent)
  bool view_drops_attributes = false;          // a view with an empty attribute allow-list
  int late_reader            = 0;              // 0 none, 1 a delta reader, 2 a cumulative reader joins late
  std::vector<std::vector<int>> collectors_b;  // second round, per reader including the late one
  bool second_meter = false;                   // the last recorder records on meter "m2", obtained by itself
};

constexpr int kStreams = 2;  // 0: meter "m", 1: meter "m2"

struct Point
{
  int stream;
  int set;
  int64_t value;  // integer units (doubles are generated as integers)
  uint64_t start_ns, end_ns;
};
struct CollectRec
{
  int reader;
  uint64_t call, ret;  // logical stamps
  uint64_t t_call = 0, t_ret = 0;  // virtual clock
  bool ok;
  size_t n_md[kStreams]      = {0, 0};
  uint64_t md_start[kStreams] = {0, 0}, md_end[kStreams] = {0, 0};
  std::vector<Point> points;
  std::string problem;
};
struct AddRec
{
  uint64_t call, ret;
  int stream;
  int set;  // after the view
  int64_t value;
};

Cfg gen_cfg(vh::Reader &rd)
{
  Cfg c;
#ifdef VH_SCHED_HIST
  c.kind = kHistLong + static_cast<int>(rd.below(2));
#else
  c.kind = static_cast<int>(rd.below(4));
#endif
  unsigned nr = 1 + static_cast<unsigned>(rd.weighted({5, 5}));
  for (unsigned r = 0; r < nr; ++r)
    c.reader_delta.push_back(!rd.coin());  // zero byte: delta
  unsigned nrec = 1 + static_cast<unsigned>(rd.weighted({4, 4, 2}));
  for (unsigned t = 0; t < nrec; ++t)
  {
    std::vector<AddOp> ops;
    unsigned n = 1 + rd.below(4);
    for (unsigned i = 0; i < n; ++i)
    {
      AddOp a;
      a.value = 1 + static_cast<int64_t>(rd.below(9));
      if ((c.kind == kUdLong || c.kind == kUdDouble) && rd.chance(30))
        a.value = -a.value;
      a.set          = static_cast<int>(rd.weighted({6, 3, 1}));
      a.yield_before = rd.chance(30);
      ops.push_back(a);
    }
    c.recorders.push_back(ops);
  }
  for (unsigned r = 0; r < nr; ++r)
  {
    std::vector<int> prog;
    unsigned n = rd.below(4);
    for (unsigned i = 0; i < n; ++i)
      prog.push_back(rd.coin() ? 0 : 50);
    c.collectors.push_back(prog);
  }
  c.create_in_thread = rd.chance(25);
  c.own_handles      = rd.chance(25);
  // ---- later additions
  c.view_drops_attributes = rd.chance(20);
  c.late_reader           = static_cast<int>(rd.weighted({6, 2, 2}));
  if (c.late_reader)
    for (unsigned r = 0; r < nr + 1; ++r)
    {
      std::vector<int> prog;
      unsigned n = rd.below(3);
      for (unsigned i = 0; i < n; ++i)
        prog.push_back(rd.coin() ? 0 : 50);
      c.collectors_b.push_back(prog);
    }
  c.second_meter = nrec >= 2 && rd.chance(20);
  if (c.own_handles || c.second_meter)
    for (size_t t = 0; t < c.recorders.size(); ++t)
      if ((c.own_handles && t > 0) || (c.second_meter && t + 1 == c.recorders.size()))
        for (size_t i = 1; i < c.recorders[t].size(); ++i)
          c.recorders[t][i].renew_handle = rd.chance(25);
  return c;
}

std::string describe(const Cfg &c)
{
  std::string s = std::string(kKindName[c.kind]) + " readers=";
  for (bool d : c.reader_delta)
    s += d ? "D" : "C";
  s += c.create_in_thread ? " created-by-recorder-0" : "";
  s += c.own_handles ? " own-handles" : "";
  s += c.view_drops_attributes ? " view-drops-all-attributes" : "";
  s += c.late_reader ? (c.late_reader == 1 ? " late-reader=D" : " late-reader=C") : "";
  s += "\n";
  for (size_t t = 0; t < c.recorders.size(); ++t)
  {
    s += " R" + std::to_string(t) + (c.second_meter && t + 1 == c.recorders.size() ? "(on meter m2, obtained by itself)" : "") + ":";
    for (auto &a : c.recorders[t])
      s += std::string(a.yield_before ? " y" : " ") + (a.renew_handle ? "renew-handle," : "") + "add(" +
           std::to_string(a.value) + ",set" + std::to_string(a.set) + ")";
    s += "\n";
  }
  for (size_t r = 0; r < c.collectors.size(); ++r)
  {
    s += " collector" + std::to_string(r) + ":";
    for (int w : c.collectors[r])
      s += w ? " sleep,collect" : " yield,collect";
    s += c.late_reader ? " | joined\n" : " | final collect\n";
  }
  for (size_t r = 0; r < c.collectors_b.size(); ++r)
  {
    s += " round-2 collector" + std::to_string(r) + (r + 1 == c.collectors_b.size() ? "(late)" : "") + ":";
    for (int w : c.collectors_b[r])
      s += w ? " sleep,collect" : " yield,collect";
    s += " | final collect\n";
  }
  return s;
}

uint64_t ns_of(otel::common::SystemTimestamp t)
{
  return static_cast<uint64_t>(t.time_since_epoch().count());
}
}  // namespace

static void sched_body(vh::Case &c)
{
  static NullLog *quiet = [] {
    auto *h = new NullLog;
    otel::sdk::common::internal_log::GlobalLogHandler::SetLogHandler(
        nostd::shared_ptr<otel::sdk::common::internal_log::LogHandler>(h));
    return h;
  }();
  (void)quiet;
  Cfg cfg = gen_cfg(c.rd);
  c.note(describe(cfg));
  std::vector<AddRec> adds;
  std::vector<CollectRec> collects;
  uint64_t sdk_start = 0, created_call = 0, created_ret = 0, reg_call = 0, reg_ret = 0;
  bool never_created = false;
  std::vector<bool> reader_delta = cfg.reader_delta;  // grows when the late reader joins
  const int late_index           = cfg.late_reader ? static_cast<int>(cfg.reader_delta.size()) : -1;

  vsh::ByteSource src(c.rd, 40);
  vsched::Options opt;
  opt.step_budget = 1500000;
  c.note(std::string(" schedule-mode=") + src.mode_name() + "\n");
  vsched::RunStats rs = vsched::run(&src, opt, vsh::fatal, [&](vsched::Scheduler &s) {
    std::unique_ptr<sdkm::ViewRegistry> reg(new sdkm::ViewRegistry);
    if (cfg.view_drops_attributes)
    {
      // every attribute is dropped: all measurements of the stream land in the series {}
      static const sdkm::InstrumentType types[] = {sdkm::InstrumentType::kCounter, sdkm::InstrumentType::kCounter,
                                                   sdkm::InstrumentType::kUpDownCounter,
                                                   sdkm::InstrumentType::kUpDownCounter,
                                                   sdkm::InstrumentType::kHistogram,
                                                   sdkm::InstrumentType::kHistogram};
      reg->AddView(std::unique_ptr<sdkm::InstrumentSelector>(new sdkm::InstrumentSelector(types[cfg.kind], "c", "")),
                   std::unique_ptr<sdkm::MeterSelector>(new sdkm::MeterSelector("", "", "")),
                   std::unique_ptr<sdkm::View>(new sdkm::View(
                       "", "", "", sdkm::AggregationType::kDefault, nullptr,
                       std::unique_ptr<sdkm::AttributesProcessor>(
                           new sdkm::FilteringAttributesProcessor(std::unordered_map<std::string, bool>{})))));
    }
    std::unique_ptr<sdkm::MeterContext> ctx(
        new sdkm::MeterContext(std::move(reg), otel::sdk::resource::Resource::Create({})));
    sdk_start = ns_of(ctx->GetSDKStartTime());
    sdkm::MeterProvider provider(std::move(ctx));
    std::vector<std::shared_ptr<MReader>> readers;
    for (bool d : cfg.reader_delta)
    {
      readers.emplace_back(new MReader(d));
      provider.AddMetricReader(readers.back());
    }
    if (cfg.late_reader)
      readers.reserve(readers.size() + 1);  // (collector threads of round 1 hold no reference into it anyway)
    auto meter = provider.GetMeter("m", "1", "");
    Handle shared;
    bool created = false;
    auto create  = [&](Handle &h) {
      uint64_t c0 = s.stamp();
      h.create(*meter, cfg.kind);
      if (!created)
      {
        created_call = c0;
        created_ret  = s.stamp();
        created      = true;
      }
    };
    if (!cfg.create_in_thread)
      create(shared);

    auto collect = [&](int r) {
      CollectRec rec;
      rec.reader      = r;
      MReader *reader = readers[static_cast<size_t>(r)].get();
      rec.t_call      = ns_of(vsched::system_clock::now());
      rec.call        = s.stamp();
      rec.ok          = reader->Collect([&](sdkm::ResourceMetrics &rm) {
        for (auto &sm : rm.scope_metric_data_)
        {
          int stream = -1;
          if (sm.scope_)
            stream = sm.scope_->GetName() == "m" ? 0 : sm.scope_->GetName() == "m2" ? 1 : -1;
          if (stream < 0)
          {
            rec.problem = "metrics of a scope nobody created";
            continue;
          }
          for (auto &md : sm.metric_data_)
          {
            ++rec.n_md[stream];
            rec.md_start[stream] = ns_of(md.start_ts);
            rec.md_end[stream]   = ns_of(md.end_ts);
            if (md.instrument_descriptor.name_ != "c")
              rec.problem = "a stream nobody configured";
            if ((md.aggregation_temporality == sdkm::AggregationTemporality::kDelta) != reader->delta())
              rec.problem = "a point with the wrong temporality";
            for (auto &p : md.point_data_attr_)
            {
              Point pt;
              pt.stream   = stream;
              pt.start_ns = ns_of(md.start_ts);
              pt.end_ns   = ns_of(md.end_ts);
              auto it     = p.attributes.find("k");
              pt.set      = 0;
              if (it != p.attributes.end())
              {
                const std::string *sv = nostd::get_if<std::string>(&it->second);
                pt.set                = sv && *sv == "a" ? 1 : sv && *sv == "b" ? 2 : -1;
              }
              if (pt.set < 0 || p.attributes.size() > 1 || (pt.set == 0 && !p.attributes.empty()))
                rec.problem = "a series with attributes nobody recorded";
              if (nostd::holds_alternative<sdkm::HistogramPointData>(p.point_data) && cfg.kind >= kHistLong)
              {
                auto &hp      = nostd::get<sdkm::HistogramPointData>(p.point_data);
                uint64_t cnts = 0;
                for (uint64_t x : hp.counts_)
                  cnts += x;
                if (cnts != hp.count_)
                  rec.problem = "a histogram point whose bucket counts do not add up to its count";
                if (nostd::holds_alternative<int64_t>(hp.sum_))
                  pt.value = nostd::get<int64_t>(hp.sum_);
                else
                {
                  double d = nostd::get<double>(hp.sum_);
                  pt.value = static_cast<int64_t>(d);
                  if (static_cast<double>(pt.value) != d)
                    rec.problem = "a fractional sum although only integers were recorded";
                }
                // every recorded value is between 1 and 9: count and sum must be consistent
                if (static_cast<int64_t>(hp.count_) > pt.value || static_cast<int64_t>(hp.count_) * 9 < pt.value)
                  rec.problem = "a histogram point whose count and sum cannot both be right (values are 1..9)";
                rec.points.push_back(pt);
                continue;
              }
              if (!nostd::holds_alternative<sdkm::SumPointData>(p.point_data))
              {
                rec.problem = "a point that is not a sum";
                continue;
              }
              auto &sp = nostd::get<sdkm::SumPointData>(p.point_data);
              if (nostd::holds_alternative<int64_t>(sp.value_))
                pt.value = nostd::get<int64_t>(sp.value_);
              else
              {
                double d = nostd::get<double>(sp.value_);
                pt.value = static_cast<int64_t>(d);
                if (static_cast<double>(pt.value) != d)
                  rec.problem = "a fractional sum although only integers were recorded";
              }
              rec.points.push_back(pt);
            }
          }
        }
        return true;
      });
      rec.ret   = s.stamp();
      rec.t_ret = ns_of(vsched::system_clock::now());
      collects.push_back(rec);
    };

    std::vector<std::unique_ptr<vsched::thread>> recorders, round1, round2;
    for (size_t t = 0; t < cfg.recorders.size(); ++t)
      recorders.emplace_back(new vsched::thread([&, t]() {
        Handle own;
        Handle *h       = &shared;
        bool on_m2      = cfg.second_meter && t + 1 == cfg.recorders.size();
        om::Meter *mine = meter.get();
        nostd::shared_ptr<om::Meter> m2;
        if (cfg.create_in_thread && t == 0)
          create(shared);
        else if (!on_m2)
        {
          // wait for recorder 0.  Not by yielding only: a thread that never blocks keeps the virtual clock
          // from advancing, and recorder 0 may be asleep in the slow path of a spin lock (sleep_for(1ms))
          for (int guard = 0; !created && guard < 100000; ++guard)
            if (guard < 40)
              vsched::this_thread::yield();
            else
              vsched::this_thread::sleep_for(std::chrono::microseconds(20));
          if (!created)
          {
            never_created = true;
            return;
          }
        }
        if (on_m2)
        {
          m2   = provider.GetMeter("m2", "1", "");
          mine = m2.get();
        }
        if (on_m2 || (cfg.own_handles && t > 0))
        {
          own.create(*mine, cfg.kind);
          h = &own;
        }
        for (auto &a : cfg.recorders[t])
        {
          if (a.yield_before)
            vsched::this_thread::yield();
          if (a.renew_handle && h == &own)
          {
            own = Handle();  // the handle goes away while other handles record and readers collect ...
            own.create(*mine, cfg.kind);  // ... and the instrument is requested again
          }
          AddRec r;
          r.stream = on_m2 ? 1 : 0;
          r.set    = cfg.view_drops_attributes ? 0 : a.set;
          r.value  = a.value;
          r.call   = s.stamp();
          h->add(cfg.kind, a.value, a.set);
          r.ret = s.stamp();
          adds.push_back(r);
        }
      }));
    auto spawn_collectors = [&](const std::vector<std::vector<int>> &progs,
                                std::vector<std::unique_ptr<vsched::thread>> &out) {
      for (size_t r = 0; r < progs.size(); ++r)
        out.emplace_back(new vsched::thread([&, r]() {
          for (int w : progs[r])
          {
            if (w)
              vsched::this_thread::sleep_for(std::chrono::microseconds(w));
            else
              vsched::this_thread::yield();
            collect(static_cast<int>(r));
          }
        }));
    };
    spawn_collectors(cfg.collectors, round1);
    for (auto &t : round1)
      t->join();
    if (cfg.late_reader)
    {
      // no Collect call is in progress (AddMetricReader is documented as not thread safe); the recorders
      // may still be running: recording does not involve the list of readers
      reg_call = s.stamp();
      reader_delta.push_back(cfg.late_reader == 1);
      readers.emplace_back(new MReader(cfg.late_reader == 1));
      provider.AddMetricReader(readers.back());
      reg_ret = s.stamp();
      spawn_collectors(cfg.collectors_b, round2);
    }
    for (auto &t : recorders)
      t->join();
    for (auto &t : round2)
      t->join();
    for (size_t r = 0; r < readers.size(); ++r)
      collect(static_cast<int>(r));
    // release the handles before the provider goes away
    shared = Handle();
  });
  c.note(" sched=");
  {
    std::string sch;
    for (auto &d : vsh::last_trace())
    {
      if (sch.size() > 400)
        break;
      sch.push_back(static_cast<char>(d.spurious ? (d.chosen ? 'S' : 's') : ('0' + (d.chosen > 9 ? 9 : d.chosen))));
    }
    c.note(sch + "\n");
  }
  VH_CHECK(c, !rs.leaked_threads, "a logical thread was still alive at the end of the scenario");
  VH_CHECK(c, !never_created, "recorder 0 did not finish creating the instrument within 2 s of virtual time");

  // ---- oracle
  bool monotonic = cfg.kind == kCtrLong || cfg.kind == kCtrDouble || cfg.kind >= kHistLong;
  bool late_saw_in_flight = false, late_missed_in_flight = false;
  for (size_t r = 0; r < reader_delta.size(); ++r)
    for (int stream = 0; stream < kStreams; ++stream)
    {
      bool delta      = reader_delta[r];
      bool late       = static_cast<int>(r) == late_index;
      std::string who = "reader" + std::to_string(r) + (delta ? "(delta" : "(cumulative") + (late ? ", registered late)" : ")") +
                        (stream ? " meter m2" : "");
      // a measurement counts for certain unless this is the late reader and its Add call had begun before
      // the registration returned
      auto certain = [&](const AddRec &a) { return !late || a.call > reg_ret; };
      std::map<int, int64_t> sum_seen, last_cum;
      std::map<int, bool> in_final;
      uint64_t prev_end = sdk_start;
      bool empty_since  = false;  // a collection without a MetricData for the stream since the last delivery
      bool first_of_late = late;
      size_t k = 0, n_of_reader = 0;
      for (auto &cr : collects)
        n_of_reader += cr.reader == static_cast<int>(r);
      for (auto &cr : collects)
      {
        if (cr.reader != static_cast<int>(r))
          continue;
        ++k;
        bool final_one = k == n_of_reader;
        std::string at = who + " collection #" + std::to_string(k) + (final_one ? " (final, after join)" : "");
        VH_CHECK(c, cr.ok, at << ": Collect returned false");
        VH_CHECK(c, cr.problem.empty(), at << ": " << cr.problem);
        VH_CHECK(c, cr.n_md[stream] <= 1, at << ": " << cr.n_md[stream] << " MetricData for the one stream");
        if (cr.n_md[stream])
          VH_CHECK(c, cr.t_call < cr.md_end[stream] && cr.md_end[stream] < cr.t_ret,
                   at << ": the interval ends at " << cr.md_end[stream] << ", outside the Collect call that delivered it ("
                      << cr.t_call << " .. " << cr.t_ret << ", virtual ns)");
        std::map<int, int> per_set;
        for (auto &p : cr.points)
        {
          if (p.stream != stream)
            continue;
          VH_CHECK(c, ++per_set[p.set] == 1, at << ": attribute set " << p.set << " reported twice in one collection");
          // what had certainly / possibly been recorded for this set
          int64_t lo = 0, hi = 0;
          for (auto &a : adds)
          {
            if (a.set != p.set || a.stream != stream)
              continue;
            if (a.ret < cr.call && certain(a))
            {
              lo += a.value;
              hi += a.value;
            }
            else if (a.call < cr.ret)
            {
              // concurrent with the collection (or in flight when the late reader joined): may or may not
              // be included
              if (a.value > 0)
                hi += a.value;
              else
                lo += a.value;
            }
          }
          if (delta)
            sum_seen[p.set] += p.value;
          else
          {
            VH_CHECK(c, p.start_ns == sdk_start, at << ": a cumulative point starts at " << p.start_ns << ", SDK start is " << sdk_start);
            VH_CHECK(c, p.value >= lo && p.value <= hi,
                     at << " set" << p.set << ": cumulative value " << p.value << " but between " << lo << " and " << hi
                        << " had been recorded when the Collect call began / returned");
            if (monotonic && last_cum.count(p.set))
              VH_CHECK(c, p.value >= last_cum[p.set], at << " set" << p.set << ": cumulative value fell from " << last_cum[p.set]
                                                         << " to " << p.value);
            last_cum[p.set] = p.value;
            if (final_one)
              in_final[p.set] = true;
          }
          VH_CHECK(c, p.end_ns >= p.start_ns, at << ": interval ends before it starts");
        }
        if (delta && cr.n_md[stream] >= 1)
        {
          // abutting intervals: each starts where the previous one handed to this reader ended, whether or
          // not a collection that delivered nothing for the stream happened in between; the first interval
          // of the late reader may start anywhere from SDK start on
          if (first_of_late)
            VH_CHECK(c, cr.md_start[stream] >= sdk_start && cr.md_start[stream] <= cr.md_end[stream],
                     at << ": the first delta interval of the late reader starts at " << cr.md_start[stream]
                        << " (SDK start " << sdk_start << ", end " << cr.md_end[stream] << ")");
          else if (!empty_since || true)  // strict: an idle collection does not move the start (see the sequential harness)
            VH_CHECK(c, cr.md_start[stream] == prev_end, at << ": the delta interval starts at " << cr.md_start[stream]
                                                            << " but the previous one ended at " << prev_end
                                                            << " (SDK start " << sdk_start << ")");
          else
            VH_CHECK(c, cr.md_start[stream] >= prev_end && cr.md_start[stream] <= cr.md_end[stream],
                     at << ": the delta interval starts at " << cr.md_start[stream] << ", before the previous one ended ("
                        << prev_end << ")");
          prev_end      = cr.md_end[stream];
          empty_since   = false;
          first_of_late = false;
        }
        else if (delta)
          empty_since = true;
      }
      // totals: [lo, hi] is one point unless this is the late reader
      std::map<int, int64_t> lo_total, hi_total;
      std::map<int, bool> any;
      for (auto &a : adds)
      {
        if (a.stream != stream)
          continue;
        any[a.set] = true;
        if (certain(a) || a.value < 0)
          lo_total[a.set] += a.value;
        if (certain(a) || a.value > 0)
          hi_total[a.set] += a.value;
      }
      for (auto &t : any)
      {
        int set      = t.first;
        int64_t seen = delta ? sum_seen[set] : last_cum[set];
        if (!delta && !in_final.count(set))
        {
          // either-region: a series whose running total is 0 may be absent
          VH_CHECK(c, lo_total[set] <= 0 && 0 <= hi_total[set], who << " set" << set
                                                                    << ": the final cumulative collection has no point although "
                                                                    << lo_total[set] << " was recorded");
          seen = 0;
        }
        if (!late)
          VH_CHECK(c, seen == lo_total[set], who << " set" << set
                                                 << (delta ? ": the delta points of all collections add up to "
                                                           : ": the final cumulative point is ")
                                                 << seen << " but " << lo_total[set] << " was recorded");
        else
        {
          VH_CHECK(c, lo_total[set] <= seen && seen <= hi_total[set],
                   who << " set" << set
                       << (delta ? ": the delta points of all collections add up to " : ": the final cumulative point is ") << seen
                       << " but everything recorded after the registration is " << lo_total[set]
                       << " and everything recorded at all allows at most " << hi_total[set]);
          if (lo_total[set] != hi_total[set])
            (seen == lo_total[set] ? late_missed_in_flight : late_saw_in_flight) = true;
        }
      }
      for (auto &sv : sum_seen)
        VH_CHECK(c, any.count(sv.first), who << ": points for attribute set " << sv.first << " which nobody recorded");
      for (auto &sv : last_cum)
        VH_CHECK(c, any.count(sv.first), who << ": points for attribute set " << sv.first << " which nobody recorded");
    }
  bool overlap = false, reg_overlap = false;
  for (auto &cr : collects)
  {
    for (auto &a : adds)
      overlap = overlap || (a.call < cr.ret && cr.call < a.ret);
    overlap = overlap || (created_call < cr.ret && cr.call < created_ret);
  }
  if (cfg.late_reader)
    for (auto &a : adds)
      reg_overlap = reg_overlap || (a.call < reg_ret && reg_call < a.ret);
  bool renewed = false;
  for (auto &prog : cfg.recorders)
    for (auto &a : prog)
      renewed = renewed || a.renew_handle;
  if (overlap)
    c.tag("collect-overlaps-add-or-create");
  if (reg_overlap)
    c.tag("late-registration-overlaps-add");
  if (rs.preemptions)
    c.tag("preempted");
  if (cfg.create_in_thread)
    c.tag("instrument-created-by-a-recorder-thread");
  if (cfg.own_handles)
    c.tag("one-handle-per-recorder");
  if (renewed)
    c.tag("handle-released-and-requested-again-between-adds");
  if (cfg.second_meter)
    c.tag("second-meter-obtained-by-a-recorder-thread");
  if (cfg.view_drops_attributes)
    c.tag("view-drops-all-attributes");
  if (cfg.late_reader)
    c.tag(cfg.late_reader == 1 ? "late-reader-delta" : "late-reader-cumulative");
  if (late_saw_in_flight)
    c.tag("late-reader-received-measurements-from-before-its-registration");
  if (late_missed_in_flight)
    c.tag("late-reader-missed-measurements-from-before-its-registration");
  c.tag("readers-" + std::to_string(cfg.reader_delta.size()));
  c.nontrivial = overlap || reg_overlap || rs.preemptions > 0;
}

#ifdef VH_SCHED_HIST
VH_TARGET(hist_sched, 4,
          "a case is non-trivial when a Collect call overlapped an Add call (or the instrument's creation, or the "
          "registration of the late reader overlapped an Add call) by logical stamps, or the schedule preempted a "
          "running thread; distinct = distinct (scenario, schedule taken)")
{
  sched_body(c);
}
#else
VH_TARGET(meter_sched, 4,
          "a case is non-trivial when a Collect call overlapped an Add call (or the instrument's creation, or the "
          "registration of the late reader overlapped an Add call) by logical stamps, or the schedule preempted a "
          "running thread; distinct = distinct (scenario, schedule taken)")
{
  sched_body(c);
}
#endif

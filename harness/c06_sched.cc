// C06 (engine E-SCHED): counters recorded CONCURRENTLY with collections, under generated schedules.
//
// The whole metrics SDK (every file under sdk/src/metrics and sdk/include/opentelemetry/sdk/metrics,
// plus spin_lock_mutex.h) is compiled from token-renamed copies against the scheduler shim, so every
// lock operation and every atomic access of Meter / SyncMetricStorage / TemporalMetricStorage /
// the aggregations is a scheduling point and the interleaving of recorder threads with collecting
// readers is part of the generated case.  This reaches race windows of a few instructions (e.g. between
// SyncMetricStorage::Collect releasing its lock and TemporalMetricStorage looking at the interval it was
// handed) that real-thread stress hits only by luck.
//
// Scenario: a MeterProvider with 1..2 readers (delta / cumulative), one meter, one counter or up-down
// counter (long or double), optionally created by a recorder thread itself while a reader already
// collects; 1..3 recorder threads x 1..4 Add calls over up to 3 attribute sets; one collecting thread per
// reader issuing 0..3 Collect calls; a final Collect per reader after everything has been joined.
// Oracle (the statement of C06, per reader and attribute set):
//   delta      : the points over all collections add up exactly to what was recorded
//   cumulative : points never exceed what had been recorded when the Collect returned, never fall below
//                what had been recorded when it was called (monotonic counters: never decrease), and the
//                final point equals the total
//   intervals  : a reader's successive delta points abut (start == previous end, first == SDK start);
//                cumulative points start at SDK start
#include <map>
#include <memory>
#include <string>
#include <vector>

#include "opentelemetry/metrics/sync_instruments.h"
#include "opentelemetry/sdk/common/global_log_handler.h"
#include "opentelemetry/sdk/metrics/data/metric_data.h"
#include "opentelemetry/sdk/metrics/data/point_data.h"
#include "opentelemetry/sdk/metrics/meter_context.h"
#include "opentelemetry/sdk/metrics/meter_provider.h"
#include "opentelemetry/sdk/metrics/metric_reader.h"
#include "opentelemetry/sdk/metrics/view/view_registry.h"
#include "opentelemetry/sdk/resource/resource.h"
#include "sched_harness.h"
#include "vh.h"

const char *vh_property_id = "C06";

namespace
{
namespace otel = opentelemetry;
namespace sdkm = opentelemetry::sdk::metrics;
namespace om   = opentelemetry::metrics;
namespace nostd = opentelemetry::nostd;

class NullLog : public otel::sdk::common::internal_log::LogHandler
{
public:
  void Handle(otel::sdk::common::internal_log::LogLevel, const char *, int, const char *,
              const otel::sdk::common::AttributeMap &) noexcept override
  {}
};

class MReader : public sdkm::MetricReader
{
public:
  explicit MReader(bool delta) : delta_(delta) {}
  sdkm::AggregationTemporality GetAggregationTemporality(sdkm::InstrumentType) const noexcept override
  {
    vsched::point();  // an exporter's temporality selector may take time
    return delta_ ? sdkm::AggregationTemporality::kDelta : sdkm::AggregationTemporality::kCumulative;
  }
  bool OnForceFlush(std::chrono::microseconds) noexcept override { return true; }
  bool OnShutDown(std::chrono::microseconds) noexcept override { return true; }
  bool delta() const { return delta_; }

private:
  bool delta_;
};

enum Kind
{
  kCtrLong,
  kCtrDouble,
  kUdLong,
  kUdDouble
};
const char *const kKindName[] = {"Counter<uint64>", "Counter<double>", "UpDownCounter<int64>", "UpDownCounter<double>"};

struct Handle
{
  nostd::unique_ptr<om::Counter<uint64_t>> cl;
  nostd::unique_ptr<om::Counter<double>> cd;
  nostd::unique_ptr<om::UpDownCounter<int64_t>> ul;
  nostd::unique_ptr<om::UpDownCounter<double>> ud;
  void create(om::Meter &m, int kind)
  {
    switch (kind)
    {
      case kCtrLong:
        cl = m.CreateUInt64Counter("c", "", "");
        break;
      case kCtrDouble:
        cd = m.CreateDoubleCounter("c", "", "");
        break;
      case kUdLong:
        ul = m.CreateInt64UpDownCounter("c", "", "");
        break;
      default:
        ud = m.CreateDoubleUpDownCounter("c", "", "");
        break;
    }
  }
  void add(int kind, int64_t v, int set)
  {
    static const char *const vals[] = {"", "a", "b"};
    std::map<std::string, std::string> attrs;
    if (set > 0)
      attrs["k"] = vals[set];
    otel::common::KeyValueIterableView<std::map<std::string, std::string>> view(attrs);
    switch (kind)
    {
      case kCtrLong:
        if (set == 0)
          cl->Add(static_cast<uint64_t>(v));
        else
          cl->Add(static_cast<uint64_t>(v), view);
        break;
      case kCtrDouble:
        if (set == 0)
          cd->Add(static_cast<double>(v));
        else
          cd->Add(static_cast<double>(v), view);
        break;
      case kUdLong:
        if (set == 0)
          ul->Add(v);
        else
          ul->Add(v, view);
        break;
      default:
        if (set == 0)
          ud->Add(static_cast<double>(v));
        else
          ud->Add(static_cast<double>(v), view);
        break;
    }
  }
};

struct AddOp
{
  int64_t value;
  int set;
  bool yield_before;
};
struct Cfg
{
  int kind = 0;
  std::vector<bool> reader_delta;
  bool create_in_thread = false;  // recorder 0 creates the instrument (the others wait for it)
  bool own_handles      = false;  // every recorder requests its own handle
  std::vector<std::vector<AddOp>> recorders;
  std::vector<std::vector<int>> collectors;  // per reader: sleep (us, 0 = yield) before each Collect
};

struct Point
{
  int set;
  int64_t value;  // integer units (doubles are generated as integers)
  uint64_t start_ns, end_ns;
};
struct CollectRec
{
  int reader;
  uint64_t call, ret;
  bool ok;
  size_t n_md = 0;
  uint64_t md_start = 0, md_end = 0;
  std::vector<Point> points;
  std::string problem;
};
struct AddRec
{
  uint64_t call, ret;
  int set;
  int64_t value;
};

Cfg gen_cfg(vh::Reader &rd)
{
  Cfg c;
  c.kind      = static_cast<int>(rd.below(4));
  unsigned nr = 1 + static_cast<unsigned>(rd.weighted({5, 5}));
  for (unsigned r = 0; r < nr; ++r)
    c.reader_delta.push_back(!rd.coin());  // zero byte: delta
  unsigned nrec = 1 + static_cast<unsigned>(rd.weighted({4, 4, 2}));
  for (unsigned t = 0; t < nrec; ++t)
  {
    std::vector<AddOp> ops;
    unsigned n = 1 + rd.below(4);
    for (unsigned i = 0; i < n; ++i)
    {
      AddOp a;
      a.value = 1 + static_cast<int64_t>(rd.below(9));
      if (c.kind >= kUdLong && rd.chance(30))
        a.value = -a.value;
      a.set          = static_cast<int>(rd.weighted({6, 3, 1}));
      a.yield_before = rd.chance(30);
      ops.push_back(a);
    }
    c.recorders.push_back(ops);
  }
  for (unsigned r = 0; r < nr; ++r)
  {
    std::vector<int> prog;
    unsigned n = rd.below(4);
    for (unsigned i = 0; i < n; ++i)
      prog.push_back(rd.coin() ? 0 : 50);
    c.collectors.push_back(prog);
  }
  c.create_in_thread = rd.chance(25);
  c.own_handles      = rd.chance(25);
  return c;
}

std::string describe(const Cfg &c)
{
  std::string s = std::string(kKindName[c.kind]) + " readers=";
  for (bool d : c.reader_delta)
    s += d ? "D" : "C";
  s += c.create_in_thread ? " created-by-recorder-0" : "";
  s += c.own_handles ? " own-handles" : "";
  s += "\n";
  for (size_t t = 0; t < c.recorders.size(); ++t)
  {
    s += " R" + std::to_string(t) + ":";
    for (auto &a : c.recorders[t])
      s += std::string(a.yield_before ? " y" : " ") + "add(" + std::to_string(a.value) + ",set" + std::to_string(a.set) + ")";
    s += "\n";
  }
  for (size_t r = 0; r < c.collectors.size(); ++r)
  {
    s += " collector" + std::to_string(r) + ":";
    for (int w : c.collectors[r])
      s += w ? " sleep,collect" : " yield,collect";
    s += " | final collect\n";
  }
  return s;
}

uint64_t ns_of(otel::common::SystemTimestamp t)
{
  return static_cast<uint64_t>(t.time_since_epoch().count());
}
}  // namespace

VH_TARGET(meter_sched, 4,
          "a case is non-trivial when a Collect call overlapped an Add call (or the instrument's creation) by "
          "logical stamps, or the schedule preempted a running thread; distinct = distinct (scenario, schedule taken)")
{
  static NullLog *quiet = [] {
    auto *h = new NullLog;
    otel::sdk::common::internal_log::GlobalLogHandler::SetLogHandler(
        nostd::shared_ptr<otel::sdk::common::internal_log::LogHandler>(h));
    return h;
  }();
  (void)quiet;
  Cfg cfg = gen_cfg(c.rd);
  c.note(describe(cfg));
  std::vector<AddRec> adds;
  std::vector<CollectRec> collects;
  uint64_t sdk_start = 0, created_call = 0, created_ret = 0;

  vsh::ByteSource src(c.rd, 40);
  vsched::Options opt;
  opt.step_budget = 1500000;
  c.note(std::string(" schedule-mode=") + src.mode_name() + "\n");
  vsched::RunStats rs = vsched::run(&src, opt, vsh::fatal, [&](vsched::Scheduler &s) {
    std::unique_ptr<sdkm::ViewRegistry> reg(new sdkm::ViewRegistry);
    std::unique_ptr<sdkm::MeterContext> ctx(
        new sdkm::MeterContext(std::move(reg), otel::sdk::resource::Resource::Create({})));
    sdk_start = ns_of(ctx->GetSDKStartTime());
    sdkm::MeterProvider provider(std::move(ctx));
    std::vector<std::shared_ptr<MReader>> readers;
    for (bool d : cfg.reader_delta)
    {
      readers.emplace_back(new MReader(d));
      provider.AddMetricReader(readers.back());
    }
    auto meter = provider.GetMeter("m", "1", "");
    Handle shared;
    bool created = false;
    auto create  = [&](Handle &h) {
      uint64_t c0 = s.stamp();
      h.create(*meter, cfg.kind);
      if (!created)
      {
        created_call = c0;
        created_ret  = s.stamp();
        created      = true;
      }
    };
    if (!cfg.create_in_thread)
      create(shared);

    auto collect = [&](int r) {
      CollectRec rec;
      rec.reader = r;
      rec.call   = s.stamp();
      rec.ok     = readers[static_cast<size_t>(r)]->Collect([&](sdkm::ResourceMetrics &rm) {
        for (auto &sm : rm.scope_metric_data_)
          for (auto &md : sm.metric_data_)
          {
            ++rec.n_md;
            rec.md_start    = ns_of(md.start_ts);
            rec.md_end      = ns_of(md.end_ts);
            bool want_delta = readers[static_cast<size_t>(r)]->delta();
            if ((md.aggregation_temporality == sdkm::AggregationTemporality::kDelta) != want_delta)
              rec.problem = "a point with the wrong temporality";
            for (auto &p : md.point_data_attr_)
            {
              Point pt;
              pt.start_ns = ns_of(md.start_ts);
              pt.end_ns   = ns_of(md.end_ts);
              auto it     = p.attributes.find("k");
              pt.set      = 0;
              if (it != p.attributes.end())
              {
                const std::string *sv = nostd::get_if<std::string>(&it->second);
                pt.set                = sv && *sv == "a" ? 1 : sv && *sv == "b" ? 2 : -1;
              }
              if (pt.set < 0 || p.attributes.size() > 1 || (pt.set == 0 && !p.attributes.empty()))
                rec.problem = "a series with attributes nobody recorded";
              if (!nostd::holds_alternative<sdkm::SumPointData>(p.point_data))
              {
                rec.problem = "a point that is not a sum";
                continue;
              }
              auto &sp = nostd::get<sdkm::SumPointData>(p.point_data);
              if (nostd::holds_alternative<int64_t>(sp.value_))
                pt.value = nostd::get<int64_t>(sp.value_);
              else
              {
                double d = nostd::get<double>(sp.value_);
                pt.value = static_cast<int64_t>(d);
                if (static_cast<double>(pt.value) != d)
                  rec.problem = "a fractional sum although only integers were recorded";
              }
              rec.points.push_back(pt);
            }
          }
        return true;
      });
      rec.ret = s.stamp();
      collects.push_back(rec);
    };

    std::vector<std::unique_ptr<vsched::thread>> ts;
    for (size_t t = 0; t < cfg.recorders.size(); ++t)
      ts.emplace_back(new vsched::thread([&, t]() {
        Handle own;
        Handle *h = &shared;
        if (cfg.create_in_thread && t == 0)
          create(shared);
        else
          for (int guard = 0; !created && guard < 100000; ++guard)
            vsched::this_thread::yield();
        if (cfg.own_handles && t > 0)
        {
          own.create(*meter, cfg.kind);
          h = &own;
        }
        for (auto &a : cfg.recorders[t])
        {
          if (a.yield_before)
            vsched::this_thread::yield();
          AddRec r;
          r.set   = a.set;
          r.value = a.value;
          r.call  = s.stamp();
          h->add(cfg.kind, a.value, a.set);
          r.ret = s.stamp();
          adds.push_back(r);
        }
      }));
    for (size_t r = 0; r < cfg.collectors.size(); ++r)
      ts.emplace_back(new vsched::thread([&, r]() {
        for (int w : cfg.collectors[r])
        {
          if (w)
            vsched::this_thread::sleep_for(std::chrono::microseconds(w));
          else
            vsched::this_thread::yield();
          collect(static_cast<int>(r));
        }
      }));
    for (auto &t : ts)
      t->join();
    for (size_t r = 0; r < readers.size(); ++r)
      collect(static_cast<int>(r));
    // release the handles before the provider goes away
    shared = Handle();
  });
  c.note(" sched=");
  {
    std::string sch;
    for (auto &d : vsh::last_trace())
    {
      if (sch.size() > 400)
        break;
      sch.push_back(static_cast<char>(d.spurious ? (d.chosen ? 'S' : 's') : ('0' + (d.chosen > 9 ? 9 : d.chosen))));
    }
    c.note(sch + "\n");
  }
  VH_CHECK(c, !rs.leaked_threads, "a logical thread was still alive at the end of the scenario");

  // ---- oracle
  bool monotonic = cfg.kind == kCtrLong || cfg.kind == kCtrDouble;
  for (size_t r = 0; r < cfg.reader_delta.size(); ++r)
  {
    bool delta      = cfg.reader_delta[r];
    std::string who = "reader" + std::to_string(r) + (delta ? "(delta)" : "(cumulative)");
    std::map<int, int64_t> sum_seen, last_cum;
    std::map<int, bool> in_final;
    uint64_t prev_end = sdk_start;
    bool empty_since  = false;  // a collection without a MetricData for the stream since the last delivery
    size_t k          = 0, n_of_reader = 0;
    for (auto &cr : collects)
      n_of_reader += cr.reader == static_cast<int>(r);
    for (auto &cr : collects)
    {
      if (cr.reader != static_cast<int>(r))
        continue;
      ++k;
      bool final_one = k == n_of_reader;
      std::string at = who + " collection #" + std::to_string(k) + (final_one ? " (final, after join)" : "");
      VH_CHECK(c, cr.ok, at << ": Collect returned false");
      VH_CHECK(c, cr.problem.empty(), at << ": " << cr.problem);
      VH_CHECK(c, cr.n_md <= 1, at << ": " << cr.n_md << " MetricData for the one stream");
      std::map<int, int> per_set;
      for (auto &p : cr.points)
      {
        VH_CHECK(c, ++per_set[p.set] == 1, at << ": attribute set " << p.set << " reported twice in one collection");
        // what had certainly / possibly been recorded for this set
        int64_t lo = 0, hi = 0, lo_neg = 0, hi_pos = 0;
        for (auto &a : adds)
        {
          if (a.set != p.set)
            continue;
          if (a.ret < cr.call)
          {
            lo += a.value;
            hi += a.value;
          }
          else if (a.call < cr.ret)
          {
            // concurrent with the collection: may or may not be included
            if (a.value > 0)
              hi_pos += a.value;
            else
              lo_neg += a.value;
          }
        }
        if (delta)
          sum_seen[p.set] += p.value;
        else
        {
          VH_CHECK(c, p.start_ns == sdk_start, at << ": a cumulative point starts at " << p.start_ns << ", SDK start is " << sdk_start);
          VH_CHECK(c, p.value >= lo + lo_neg && p.value <= hi + hi_pos,
                   at << " set" << p.set << ": cumulative value " << p.value << " but between " << (lo + lo_neg) << " and "
                      << (hi + hi_pos) << " had been recorded (measurements that had returned before the Collect call: " << lo
                      << ")");
          if (monotonic && last_cum.count(p.set))
            VH_CHECK(c, p.value >= last_cum[p.set], at << " set" << p.set << ": cumulative value fell from " << last_cum[p.set]
                                                       << " to " << p.value);
          last_cum[p.set] = p.value;
          if (final_one)
            in_final[p.set] = true;
        }
        VH_CHECK(c, p.end_ns >= p.start_ns, at << ": interval ends before it starts");
      }
      if (delta && cr.n_md >= 1)
      {
        // abutting intervals; a collection that delivered nothing for the stream may or may not have
        // moved the start (the same two-sided rule as the sequential C06 harness)
        if (!empty_since)
          VH_CHECK(c, cr.md_start == prev_end, at << ": the delta interval starts at " << cr.md_start
                                                  << " but the previous one ended at " << prev_end << " (SDK start "
                                                  << sdk_start << ")");
        else
          VH_CHECK(c, cr.md_start >= prev_end && cr.md_start <= cr.md_end,
                   at << ": the delta interval starts at " << cr.md_start << ", before the previous one ended (" << prev_end << ")");
        prev_end    = cr.md_end;
        empty_since = false;
      }
      else if (delta)
        empty_since = true;
    }
    // totals
    std::map<int, int64_t> total;
    std::map<int, bool> any;
    for (auto &a : adds)
    {
      total[a.set] += a.value;
      any[a.set] = true;
    }
    for (auto &t : any)
    {
      int set = t.first;
      if (delta)
        VH_CHECK(c, sum_seen[set] == total[set], who << " set" << set << ": the delta points of all collections add up to "
                                                     << sum_seen[set] << " but " << total[set] << " was recorded");
      else
      {
        VH_CHECK(c, in_final.count(set), who << " set" << set << ": the final cumulative collection has no point although "
                                             << total[set] << " was recorded");
        VH_CHECK(c, last_cum[set] == total[set], who << " set" << set << ": the final cumulative point is " << last_cum[set]
                                                     << " but " << total[set] << " was recorded");
      }
    }
    for (auto &sv : sum_seen)
      VH_CHECK(c, any.count(sv.first), who << ": points for attribute set " << sv.first << " which nobody recorded");
  }
  bool overlap = false;
  for (auto &cr : collects)
  {
    for (auto &a : adds)
      overlap = overlap || (a.call < cr.ret && cr.call < a.ret);
    overlap = overlap || (created_call < cr.ret && cr.call < created_ret);
  }
  if (overlap)
    c.tag("collect-overlaps-add-or-create");
  if (rs.preemptions)
    c.tag("preempted");
  if (cfg.create_in_thread)
    c.tag("instrument-created-by-a-recorder-thread");
  if (cfg.own_handles)
    c.tag("one-handle-per-recorder");
  c.tag("readers-" + std::to_string(cfg.reader_delta.size()));
  c.nontrivial = overlap || rs.preemptions > 0;
}

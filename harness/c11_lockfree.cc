// C11  The lock-free queue and the spin lock are correct under every interleaving.
//
// Engine E-SCHED: circular_buffer.h / atomic_unique_ptr.h / spin_lock_mutex.h are compiled from
// token-renamed copies of the repository's current files against the scheduler shim (vsched.h),
// so every atomic operation is a scheduling point and the interleaving is part of the generated
// case.  Targets
//   cb_sched    1..3 producers x 1..4 Adds (lvalue or rvalue overload), one consumer (Consume with own or default
//               callback / Peek / Clear / drain-until-done), capacity 1..3, optionally destroyed with elements inside,
//               generated schedule incl. spurious weak-CAS failures
//   spin_sched  2..3 threads x generated lock/try_lock/unlock programs
// plus a bounded-exhaustive enumeration (preemption bound 2/3) of the small configurations
// (vh_exhaustive), which feeds explicit schedules through the same targets.
#include <algorithm>
#include <map>
#include <memory>
#include <set>
#include <string>
#include <vector>

#include "opentelemetry/common/spin_lock_mutex.h"
#include "opentelemetry/sdk/common/circular_buffer.h"
#include "sched_harness.h"
#include "vh.h"

const char *vh_property_id = "C11";

namespace
{
using opentelemetry::sdk::common::AtomicUniquePtr;
using opentelemetry::sdk::common::CircularBuffer;
using opentelemetry::sdk::common::CircularBufferRange;

int g_live = 0, g_constructed = 0, g_destroyed = 0;
// while non-null, every destroyed element is recorded here (elements destroyed INSIDE the buffer by
// Clear(), by Consume's default callback or by the buffer's destructor are identified this way)
// (only destructions performed by the logical thread that set the sink count: a producer whose
// rvalue Add fails destroys its own element concurrently)
std::vector<std::pair<int, int>> *g_destroy_sink = nullptr;
vsched::Scheduler *g_sched                       = nullptr;
int g_sink_thread                                = -1;

struct Elem
{
  int producer, seq;
  Elem(int p, int s) : producer(p), seq(s)
  {
    ++g_live;
    ++g_constructed;
  }
  ~Elem()
  {
    --g_live;
    ++g_destroyed;
    if (g_destroy_sink && g_sched && g_sched->self_id() == g_sink_thread)
      g_destroy_sink->emplace_back(producer, seq);
  }
};

struct AddRec
{
  int producer, seq;
  bool ok;
  bool caller_still_owns;
  bool rvalue = false;  // Add(std::unique_ptr<T>&&): the buffer takes the element whatever the result
  uint64_t call, ret;
};

struct ConsumeRec
{
  uint64_t call, ret;
  bool unordered = false;  // the buffer's destructor frees its slots in array order, not queue order
  std::vector<std::pair<int, int>> got;
  size_t size_before;
};

struct CbConfig
{
  int capacity;
  std::vector<int> adds;          // per producer
  std::vector<uint8_t> consumer;  // consumer op codes
  uint8_t flags = 0;              // bit 0: no final drain (the buffer is destroyed with elements inside)
                                  // bits 1..3: producer 0..2 uses the rvalue overload Add(std::move(e))
};

void describe(vh::Case &c, const CbConfig &cfg)
{
  std::string s = "cap=" + std::to_string(cfg.capacity) + " adds=[";
  for (size_t i = 0; i < cfg.adds.size(); ++i)
    s += (i ? "," : "") + std::to_string(cfg.adds[i]);
  s += "] consumer=[";
  for (size_t i = 0; i < cfg.consumer.size(); ++i)
    s += (i ? "," : "") + std::to_string(cfg.consumer[i]);
  s += "] flags=" + std::to_string(cfg.flags);
  c.note(s);
}

// consumer op codes: 0 consume everything visible, 1 consume one (if any), 2 peek only,
// 3 Clear() emulated by an observable Consume, 4 consume half (rounded up), 5 idle point,
// 6 the real Clear(), 7 Consume(n) with its default callback, 8 keep consuming until every producer
// has finished
void run_cb(vh::Case &c, const CbConfig &cfg)
{
  g_live = g_constructed = g_destroyed = 0;
  std::vector<AddRec> adds;
  std::vector<ConsumeRec> consumes;
  std::string failure;  // oracle failures seen on logical threads (reported after the run)
  size_t max_size_seen = 0;
  size_t left_inside   = 0;
  int producers_done   = 0;
  uint64_t end_stamp   = 0;
  std::vector<std::pair<int, int>> destroyed_at_end;

  vsh::ByteSource src(c.rd);
  vsched::Options opt;
  opt.step_budget = 200000;
  c.note(std::string(" mode=") + src.mode_name());

  vsched::RunStats rs = vsched::run(&src, opt, vsh::fatal, [&](vsched::Scheduler &s) {
    CircularBuffer<Elem> buf(static_cast<size_t>(cfg.capacity));
    g_sched       = &s;
    g_sink_thread = s.self_id();
    std::vector<std::unique_ptr<vsched::thread>> producers;
    for (size_t p = 0; p < cfg.adds.size(); ++p)
    {
      int n = cfg.adds[p];
      producers.emplace_back(new vsched::thread([&, p, n]() {
        for (int i = 0; i < n; ++i)
        {
          std::unique_ptr<Elem> e(new Elem(static_cast<int>(p), i));
          AddRec r;
          r.producer = static_cast<int>(p);
          r.seq      = i;
          r.call     = s.stamp();
          r.ok       = ((cfg.flags >> (1 + p)) & 1) ? buf.Add(std::move(e)) : buf.Add(e);
          r.ret      = s.stamp();
          r.caller_still_owns = (e != nullptr);
          r.rvalue            = ((cfg.flags >> (1 + p)) & 1) != 0;
          adds.push_back(r);
          // size() is also called from producer threads by the batch processors; there it is
          // documented to be only approximate (stale tail), so only its internal assert is
          // exercised, the capacity bound is asserted on the consumer thread's readings
          (void)buf.size();
        }
        ++producers_done;
      }));
    }
    auto consume_n = [&](size_t n) {
      ConsumeRec r;
      r.size_before = n;
      r.call        = s.stamp();
      buf.Consume(n, [&](CircularBufferRange<AtomicUniquePtr<Elem>> &range) noexcept {
        range.ForEach([&](AtomicUniquePtr<Elem> &ptr) noexcept {
          std::unique_ptr<Elem> e;
          ptr.Swap(e);
          if (!e)
            failure = "Consume handed out an empty slot";
          else
            r.got.emplace_back(e->producer, e->seq);
          return true;
        });
      });
      r.ret = s.stamp();
      if (r.got.size() != n && failure.empty())
        failure = "Consume(" + std::to_string(n) + ") handed out " + std::to_string(r.got.size()) +
                  " elements although size() had reported at least " + std::to_string(n);
      consumes.push_back(r);
    };
    // elements destroyed inside the buffer (real Clear(), default Consume callback)
    auto destroy_n = [&](size_t n, bool clear) {
      ConsumeRec r;
      r.size_before  = n;
      r.call         = s.stamp();
      g_destroy_sink = &r.got;
      if (clear)
        buf.Clear();
      else
        buf.Consume(n);
      g_destroy_sink = nullptr;
      r.ret          = s.stamp();
      if (r.got.size() < n && failure.empty())
        failure = std::string(clear ? "Clear()" : "Consume(n) with the default callback") + " destroyed " +
                  std::to_string(r.got.size()) + " elements although size() had reported at least " + std::to_string(n);
      consumes.push_back(r);
    };
    for (uint8_t op : cfg.consumer)
    {
      size_t sz = buf.size();
      if (sz > max_size_seen)
        max_size_seen = sz;
      if (sz > static_cast<size_t>(cfg.capacity) && failure.empty())
        failure = "size() = " + std::to_string(sz) + " exceeds capacity " + std::to_string(cfg.capacity);
      switch (op)
      {
        case 0:
          consume_n(sz);
          break;
        case 1:
          consume_n(sz ? 1 : 0);
          break;
        case 2:
        {
          auto range = buf.Peek();
          if (range.size() > static_cast<size_t>(cfg.capacity) && failure.empty())
            failure = "Peek() range larger than capacity";
          size_t cnt = 0;
          range.ForEach([&](const AtomicUniquePtr<Elem> &ptr) noexcept {
            if (ptr.IsNull() && failure.empty())
              failure = "Peek() shows an empty slot inside [tail, head)";
            ++cnt;
            return true;
          });
          (void)cnt;
          break;
        }
        case 3:
        {
          // Clear() destroys the elements; count them through size before/after
          size_t before = buf.size();
          ConsumeRec r;
          r.size_before = before;
          r.call        = s.stamp();
          // same as Clear() but observable: Clear() == Consume(size())
          buf.Consume(before, [&](CircularBufferRange<AtomicUniquePtr<Elem>> &range) noexcept {
            range.ForEach([&](AtomicUniquePtr<Elem> &ptr) noexcept {
              if (ptr.IsNull())
                failure = "Clear found an empty slot";
              else
                r.got.emplace_back(ptr->producer, ptr->seq);
              ptr.Reset();
              return true;
            });
          });
          r.ret = s.stamp();
          consumes.push_back(r);
          break;
        }
        case 4:
          consume_n((sz + 1) / 2);
          break;
        case 6:
          destroy_n(sz, true);
          break;
        case 7:
          destroy_n(sz, false);
          break;
        case 8:
          for (int guard = 0; guard < 4000; ++guard)
          {
            bool done = producers_done == static_cast<int>(cfg.adds.size());
            size_t n  = buf.size();
            if (n > static_cast<size_t>(cfg.capacity) && failure.empty())
              failure = "size() = " + std::to_string(n) + " exceeds capacity " + std::to_string(cfg.capacity);
            if (n)
              consume_n(n);
            if (done)
              break;
            vsched::this_thread::yield();
          }
          break;
        default:
          vsched::point();
          break;
      }
    }
    for (auto &t : producers)
      t->join();
    if (cfg.flags & 1)
    {
      // no final drain: whatever is still inside is destroyed with the buffer - exactly once
      // (the buffer goes out of scope at the end of this lambda; its destructor's work is recorded)
      left_inside    = buf.size();
      end_stamp      = s.stamp();
      g_destroy_sink = &destroyed_at_end;
      return;
    }
    // final drain
    consume_n(buf.size());
    if (!buf.empty() && failure.empty())
      failure = "buffer not empty after the final drain";
  });
  g_destroy_sink = nullptr;
  g_sched        = nullptr;
  if (cfg.flags & 1)
  {
    ConsumeRec r;
    r.size_before = left_inside;
    r.call = r.ret = end_stamp;
    r.unordered   = true;
    r.got         = destroyed_at_end;
    if (r.got.size() != left_inside && failure.empty())
      failure = "the buffer was destroyed holding " + std::to_string(left_inside) + " elements but its destructor freed " +
                std::to_string(r.got.size());
    consumes.push_back(r);
    c.tag(left_inside ? "destroyed-with-elements-inside" : "destroyed-empty(no final drain)");
  }

  // ---- oracle over the history
  VH_CHECK(c, failure.empty(), failure);
  VH_CHECK(c, !rs.leaked_threads, "a logical thread was still alive at the end of the scenario");
  std::multiset<std::pair<int, int>> added, consumed;
  size_t total_ok = 0;
  for (auto &a : adds)
  {
    if (a.ok)
    {
      added.insert({a.producer, a.seq});
      ++total_ok;
      VH_CHECK(c, !a.caller_still_owns, "Add reported success but left the element with the caller (p"
                                            << a.producer << "#" << a.seq << ")");
    }
    else if (!a.rvalue)
      VH_CHECK(c, a.caller_still_owns, "Add reported failure but took the element away (p"
                                           << a.producer << "#" << a.seq << ")");
    else
      c.tag("rvalue-add-failed(element-freed-by-add)");
  }
  std::map<int, int> last_seq;
  for (auto &cr : consumes)
    for (auto &e : cr.got)
    {
      consumed.insert(e);
      if (cr.unordered)
        continue;
      auto it = last_seq.find(e.first);
      VH_CHECK(c, it == last_seq.end() || it->second < e.second,
               "producer " << e.first << ": element #" << e.second << " consumed after #"
                           << (it == last_seq.end() ? -1 : it->second) << " (order broken)");
      last_seq[e.first] = e.second;
    }
  for (auto &e : consumed)
    VH_CHECK(c, consumed.count(e) == 1, "element p" << e.first << "#" << e.second << " consumed "
                                                    << consumed.count(e) << " times");
  VH_CHECK(c, added == consumed, "consumed multiset differs from the successfully added one: added "
                                     << added.size() << " consumed " << consumed.size());
  // a failed Add is legitimate only if the queue could have been full
  for (auto &r : adds)
  {
    if (r.ok)
      continue;
    long started = 0, consumed_before = 0;
    for (auto &q : adds)
      if (q.ok && q.call < r.ret)
        ++started;
    for (auto &f : consumes)
      if (f.ret < r.call)
        consumed_before += static_cast<long>(f.got.size());
    VH_CHECK(c, started - consumed_before >= cfg.capacity,
             "Add p" << r.producer << "#" << r.seq << " failed although at most "
                     << (started - consumed_before) << " elements could be queued (capacity "
                     << cfg.capacity << ")");
    c.tag("add-failed-full");
  }
  // "the number of queued elements never exceeds the capacity", derived from the history: at the moment
  // a successful Add returned, the elements certainly inside are the successful Adds that had returned
  // by then minus everything handed to Consume calls that had STARTED by then (an upper bound on what
  // could have left the queue) - a lower bound on the occupancy
  for (auto &a : adds)
  {
    if (!a.ok)
      continue;
    long in = 0, out = 0;
    for (auto &q : adds)
      in += q.ok && q.ret <= a.ret;
    for (auto &f : consumes)
      if (f.call <= a.ret)
        out += static_cast<long>(f.got.size());
    VH_CHECK(c, in - out <= cfg.capacity, "when Add p" << a.producer << "#" << a.seq << " returned at least " << (in - out)
                                                       << " elements were queued, the capacity is " << cfg.capacity);
  }
  VH_CHECK(c, max_size_seen <= static_cast<size_t>(cfg.capacity),
           "size() reported " << max_size_seen << " > capacity " << cfg.capacity);
  VH_CHECK(c, g_live == 0 && g_constructed == g_destroyed,
           "element leak or double free: constructed " << g_constructed << " destroyed " << g_destroyed);

  bool wrap = total_ok > static_cast<size_t>(cfg.capacity);
  if (rs.preemptions)
    c.tag("preempted");
  if (rs.spurious)
    c.tag("spurious-cas");
  if (wrap)
    c.tag("wrap-around");
  if (rs.forced_switches)
    c.tag("quantum-switch");
  if (rs.stalls)
    c.tag("long-stall");
  c.nontrivial = rs.preemptions > 0 || rs.spurious > 0 || wrap;
  // the schedule actually taken is part of the case identity
  std::string sch = " sched=";
  for (auto &d : vsh::last_trace())
  {
    if (sch.size() > 600)
      break;
    sch.push_back(static_cast<char>(d.spurious ? (d.chosen ? 'S' : 's') : ('0' + d.chosen)));
  }
  c.note(sch + "\n");
}

CbConfig decode_cb(vh::Reader &rd)
{
  CbConfig cfg;
  cfg.capacity = 1 + static_cast<int>(rd.below(3));
  int np       = 1 + static_cast<int>(rd.below(3));
  for (int i = 0; i < np; ++i)
    cfg.adds.push_back(1 + static_cast<int>(rd.below(4)));
  int nc = static_cast<int>(rd.below(7));
  for (int i = 0; i < nc; ++i)
    cfg.consumer.push_back(static_cast<uint8_t>(rd.below(9)));
  cfg.flags = static_cast<uint8_t>(rd.u8() & 0x0f);
  return cfg;
}

}  // namespace

VH_TARGET(cb_sched, 3,
          "a schedule is non-trivial when it contains at least one preemption (a switch away from a "
          "thread that could continue) or a spurious weak-CAS failure, or the run wrapped around the "
          "ring (more successful Adds than capacity); distinct = distinct (configuration, decision "
          "sequence actually taken)")
{
  CbConfig cfg = decode_cb(c.rd);
  describe(c, cfg);
  run_cb(c, cfg);
}

// ================================================================================================
namespace
{
struct SpinConfig
{
  std::vector<std::vector<uint8_t>> prog;  // per thread: 0 lock, 1 try_lock, 2 unlock, 3 work, 4 sleep 3 ms
};

void run_spin(vh::Case &c, const SpinConfig &cfg)
{
  std::string failure;
  int holder    = -1;
  int occupancy = 0;
  uint64_t contended = 0;
  vsh::ByteSource src(c.rd);
  vsched::Options opt;
  opt.step_budget = 400000;
  c.note(std::string(" mode=") + src.mode_name());
  vsched::RunStats rs = vsched::run(&src, opt, vsh::fatal, [&](vsched::Scheduler &) {
    opentelemetry::common::SpinLockMutex mu;
    std::vector<std::unique_ptr<vsched::thread>> ts;
    for (size_t t = 0; t < cfg.prog.size(); ++t)
    {
      ts.emplace_back(new vsched::thread([&, t]() {
        bool mine = false;
        auto enter = [&]() {
          if (holder != -1 || occupancy != 0)
            failure = "two holders at once: thread " + std::to_string(t) + " entered while " +
                      std::to_string(holder) + " holds the lock";
          holder = static_cast<int>(t);
          ++occupancy;
          mine = true;
        };
        auto leave = [&]() {
          --occupancy;
          holder = -1;
          mine   = false;
        };
        for (uint8_t op : cfg.prog[t])
        {
          switch (op)
          {
            case 0:
              if (!mine)
              {
                if (holder != -1)
                  ++contended;
                mu.lock();
                enter();
                vsched::point();  // give others every chance to get in
              }
              break;
            case 1:
              if (!mine)
              {
                int seen_holder = holder;  // nobody can run between this read and the exchange
                                           // unless try_lock itself yields at its atomic steps
                bool ok = mu.try_lock();
                if (ok)
                {
                  enter();
                  vsched::point();
                }
                else if (holder == -1 && seen_holder == -1)
                {
                  // a failed try_lock on a lock that was free throughout is allowed by the
                  // statement ("succeeds only on a free lock"), not required to succeed
                }
              }
              break;
            case 2:
              if (mine)
              {
                leave();
                mu.unlock();
              }
              break;
            case 4:
              // a long (virtual) pause, typically inside the critical section: waiters then go
              // through several back-off rounds of lock() (spin, yield, 1 ms sleep) while it is held
              vsched::this_thread::sleep_for(std::chrono::milliseconds(3));
              break;
            default:
              vsched::point();
              break;
          }
        }
        if (mine)
        {
          leave();
          mu.unlock();
        }
      }));
    }
    for (auto &t : ts)
      t->join();
    // after everybody unlocked the lock must be free
    if (!mu.try_lock())
      failure = failure.empty() ? "lock not free after all holders unlocked" : failure;
    else
      mu.unlock();
  });
  VH_CHECK(c, failure.empty(), failure);
  VH_CHECK(c, !rs.leaked_threads, "a logical thread was still alive at the end");
  if (contended)
    c.tag("contended");
  if (rs.preemptions)
    c.tag("preempted");
  c.nontrivial = contended > 0 || rs.preemptions > 0;
  std::string sch = " sched=";
  for (auto &d : vsh::last_trace())
  {
    if (sch.size() > 400)
      break;
    sch.push_back(static_cast<char>('0' + d.chosen));
  }
  c.note(sch + "\n");
}

SpinConfig decode_spin(vh::Reader &rd)
{
  SpinConfig cfg;
  int nt = 2 + static_cast<int>(rd.below(2));
  for (int t = 0; t < nt; ++t)
  {
    std::vector<uint8_t> p;
    int n = 1 + static_cast<int>(rd.below(5));
    for (int i = 0; i < n; ++i)
    {
      static const uint8_t op_of[14] = {0, 0, 0, 0, 1, 1, 1, 2, 2, 2, 3, 4, 4, 4};
      p.push_back(op_of[rd.below(14)]);
    }
    cfg.prog.push_back(p);
  }
  return cfg;
}
}  // namespace

VH_TARGET(spin_sched, 3,
          "non-trivial when some lock() started while another thread held the lock (contention) or "
          "the schedule contains a preemption; distinct = distinct (programs, decision sequence)")
{
  SpinConfig cfg = decode_spin(c.rd);
  std::string s  = "threads=";
  for (auto &p : cfg.prog)
  {
    s += "[";
    for (uint8_t op : p)
      s += "LTUwS"[op];
    s += "]";
  }
  c.note(s);
  run_spin(c, cfg);
}

// ================================================================================================
// bounded-exhaustive enumeration of schedules for the small configurations
namespace
{
std::vector<uint8_t> encode_cb(const CbConfig &cfg)
{
  std::vector<uint8_t> b;
  b.push_back(static_cast<uint8_t>(cfg.capacity - 1));
  b.push_back(static_cast<uint8_t>(cfg.adds.size() - 1));
  for (int a : cfg.adds)
    b.push_back(static_cast<uint8_t>(a - 1));
  b.push_back(static_cast<uint8_t>(cfg.consumer.size()));
  for (uint8_t op : cfg.consumer)
    b.push_back(op);
  b.push_back(cfg.flags);
  return b;
}
std::vector<uint8_t> encode_spin(const SpinConfig &cfg)
{
  std::vector<uint8_t> b;
  b.push_back(static_cast<uint8_t>(cfg.prog.size() - 2));
  for (auto &p : cfg.prog)
  {
    b.push_back(static_cast<uint8_t>(p.size() - 1));
    // inverse of op_of[] in decode_spin
    static const uint8_t code[] = {0, 4, 7, 10, 11};
    for (uint8_t op : p)
      b.push_back(code[op]);
  }
  return b;
}
}  // namespace

extern "C" int vh_exhaustive(const char *tier)
{
  bool thorough   = std::string(tier) == "thorough";
  const vh::Target *cb = nullptr, *sp = nullptr;
  for (auto &t : vh::targets())
  {
    if (t.name == "cb_sched")
      cb = &t;
    if (t.name == "spin_sched")
      sp = &t;
  }
  int failed = 0;
  struct Job
  {
    const vh::Target *t;
    std::vector<uint8_t> cfg;
    std::string label;
    int pb, sb;
    uint64_t max;
  };
  std::vector<Job> jobs;
  auto cbjob = [&](int cap, std::vector<int> adds, std::vector<uint8_t> cons, int pb, int sb, uint64_t max, uint8_t flags = 0) {
    CbConfig c{cap, adds, cons, flags};
    std::string l = "cb cap=" + std::to_string(cap) + " adds=";
    for (int a : adds)
      l += std::to_string(a);
    l += " consumer=";
    for (uint8_t o : cons)
      l += std::to_string(o);
    if (flags)
      l += " flags=" + std::to_string(flags);
    jobs.push_back(Job{cb, encode_cb(c), l, pb, sb, max});
  };
  uint64_t cap_sched = thorough ? 150000 : 40000;
  // smallest configurations, preemption bound 2 (quick) / 3 (thorough), one spurious failure
  int pb = thorough ? 3 : 2;
  cbjob(1, {1, 1}, {0}, pb, 1, cap_sched);
  cbjob(1, {2}, {1, 1}, pb, 1, cap_sched);
  cbjob(2, {1, 1}, {1}, pb, 1, cap_sched);
  cbjob(1, {1, 1}, {1, 0}, pb, 1, cap_sched);
  cbjob(2, {2, 1}, {0}, 2, 1, cap_sched);
  cbjob(1, {1, 1, 1}, {0}, 2, 0, cap_sched);
  cbjob(1, {1, 1}, {}, pb, 1, cap_sched, 1 | 2);     // rvalue Add, destroyed with an element inside
  cbjob(1, {2, 1}, {8}, 2, 1, cap_sched, 4);         // consumer keeps up with the producers
  cbjob(2, {1, 1}, {6}, 2, 1, cap_sched);            // the real Clear() racing two producers
  cbjob(1, {1, 1}, {7}, 2, 1, cap_sched, 1);         // default-callback Consume, no final drain
  if (thorough)
  {
    cbjob(1, {1, 1, 1}, {0}, 2, 1, cap_sched);
    cbjob(1, {2, 2}, {8}, 2, 1, cap_sched);
    cbjob(2, {2, 1}, {6, 7}, 2, 1, cap_sched, 1);
    cbjob(2, {2, 2}, {1, 0}, 2, 1, cap_sched);
    cbjob(3, {2, 2}, {4}, 2, 1, cap_sched);
    cbjob(1, {2, 2}, {0, 0}, 2, 1, cap_sched);
    cbjob(2, {1, 1, 1}, {3}, 2, 1, cap_sched);
  }
  auto spjob = [&](std::vector<std::vector<uint8_t>> prog, int pbound, uint64_t max) {
    SpinConfig c{prog};
    std::string l = "spin";
    for (auto &p : prog)
    {
      l += " [";
      for (uint8_t op : p)
        l += "LTUwS"[op];
      l += "]";
    }
    jobs.push_back(Job{sp, encode_spin(c), l, pbound, 0, max});
  };
  spjob({{0, 2}, {0, 2}}, pb, cap_sched);
  spjob({{1, 2}, {0, 2}}, pb, cap_sched);
  spjob({{0, 2, 1}, {1, 2, 0}}, 2, cap_sched);
  spjob({{0, 2}, {0, 2}, {1}}, 2, cap_sched);
  spjob({{0, 4, 2}, {0, 2}}, 2, cap_sched);
  spjob({{0, 4, 2}, {0, 2}, {1, 2}}, 1, cap_sched);

  for (auto &j : jobs)
  {
    bool job_failed = false;
    vsh::DfsResult r = vsh::dfs(j.pb, j.sb, j.max, [&](const std::vector<uint8_t> &prefix) {
      std::vector<uint8_t> bytes = j.cfg;
      bytes.push_back(1);  // explicit mode
      bytes.insert(bytes.end(), prefix.begin(), prefix.end());
      vh::Outcome o = vh::run_one(*j.t, bytes.data(), bytes.size());
      if (o.failed && !job_failed)
      {
        job_failed = true;
        ++failed;
        char name[64];
        snprintf(name, sizeof name, "%016llx",
                 static_cast<unsigned long long>(vh::fnv1a(vh::hex_encode(bytes.data(), bytes.size()))));
        std::string path = std::string("exh-") + j.t->name + "-" + name + ".json";
        path = vh::failures_dir() + "/" + path;
        vh::write_replay_file(path, j.t->name, bytes, o.msg, o.desc, "exhaustive-dfs");
        printf("VH-FAIL target=%s replay=%s\nVH-MSG %s\nVH-CASE %s\n", j.t->name.c_str(), path.c_str(),
               o.msg.c_str(), o.desc.substr(0, 2000).c_str());
      }
      return !job_failed;
    });
    char buf[512];
    snprintf(buf, sizeof buf,
             "{\"config\": \"%s\", \"preemption_bound\": %d, \"spurious_bound\": %d, \"schedules\": %llu, "
             "\"complete\": %s, \"max_decisions\": %llu}",
             j.label.c_str(), j.pb, j.sb, static_cast<unsigned long long>(r.schedules),
             r.complete ? "true" : "false", static_cast<unsigned long long>(r.max_depth));
    vh::extra_add("exhaustive_runs", buf);
    vh::extra_add("exhaustive_complete", r.complete && !job_failed ? "true" : "false");
  }
  return failed ? 1 : 0;
}

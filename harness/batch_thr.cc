// Real-thread stress of the batch span/log processors (engine E-THR) under ASan and TSan.
// It owns no schedule, so it only ADDS evidence to the schedule-controlled checks: data races
// (TSan), memory errors (ASan) and the history invariants that need no stamps - exactly-once,
// per-producer order, batch bound, one Export at a time, exporter shut down once, nothing exported
// after Shutdown returned.  Compiled per property with -DVH_PROP_ID=\"C01\" / \"C03\".
#include <atomic>
#include <chrono>
#include <map>
#include <mutex>
#include <set>
#include <thread>

#include "opentelemetry/sdk/logs/batch_log_record_processor.h"
#include "opentelemetry/sdk/logs/batch_log_record_processor_options.h"
#include "opentelemetry/sdk/logs/exporter.h"
#include "opentelemetry/sdk/logs/read_write_log_record.h"
#include "opentelemetry/sdk/trace/batch_span_processor.h"
#include "opentelemetry/sdk/trace/batch_span_processor_options.h"
#include "opentelemetry/sdk/trace/exporter.h"
#include "opentelemetry/sdk/trace/span_data.h"
#include "vh.h"

#ifndef VH_PROP_ID
#  define VH_PROP_ID "C01"
#endif
const char *vh_property_id = VH_PROP_ID;

namespace
{
namespace otel = opentelemetry;

struct Log
{
  std::mutex mu;
  std::vector<std::vector<std::pair<int, int>>> batches;
  std::atomic<int> in_flight{0};
  std::atomic<int> max_in_flight{0};
  std::atomic<int> shutdowns{0};
  std::atomic<bool> processor_shutdown_returned{false};
  std::atomic<int> exports_after_shutdown{0};
  int export_sleep_us = 0;
};

template <class Base, class RecordableT, class ConcreteT>
class Exp final : public Base
{
public:
  explicit Exp(std::shared_ptr<Log> l) : l_(std::move(l)) {}
  std::unique_ptr<RecordableT> MakeRecordable() noexcept override { return std::unique_ptr<RecordableT>(new ConcreteT()); }
  otel::sdk::common::ExportResult Export(const otel::nostd::span<std::unique_ptr<RecordableT>> &b) noexcept override
  {
    int n = ++l_->in_flight;
    int m = l_->max_in_flight.load();
    while (n > m && !l_->max_in_flight.compare_exchange_weak(m, n))
    {
    }
    if (l_->processor_shutdown_returned.load())
      l_->exports_after_shutdown++;
    std::vector<std::pair<int, int>> tags;
    for (auto &r : b)
      tags.push_back(r ? tag(static_cast<ConcreteT &>(*r)) : std::make_pair(-1, -1));
    if (l_->export_sleep_us)
      std::this_thread::sleep_for(std::chrono::microseconds(l_->export_sleep_us));
    {
      std::lock_guard<std::mutex> g(l_->mu);
      l_->batches.push_back(std::move(tags));
    }
    --l_->in_flight;
    return otel::sdk::common::ExportResult::kSuccess;
  }
  bool ForceFlush(std::chrono::microseconds) noexcept override { return true; }
  bool Shutdown(std::chrono::microseconds) noexcept override
  {
    l_->shutdowns++;
    return true;
  }
  static std::pair<int, int> tag(otel::sdk::trace::SpanData &d)
  {
    std::string s(d.GetName().data(), d.GetName().size());
    size_t h = s.find('#');
    return {atoi(s.c_str() + 1), atoi(s.c_str() + h + 1)};
  }
  static std::pair<int, int> tag(otel::sdk::logs::ReadWriteLogRecord &d)
  {
    return {static_cast<int>(d.GetEventId() / 100000), static_cast<int>(d.GetEventId() % 100000)};
  }

private:
  std::shared_ptr<Log> l_;
};

struct SpanT
{
  using P = otel::sdk::trace::BatchSpanProcessor;
  using E = Exp<otel::sdk::trace::SpanExporter, otel::sdk::trace::Recordable, otel::sdk::trace::SpanData>;
  static std::unique_ptr<P> make(std::shared_ptr<Log> l, size_t q, size_t b, int delay_ms)
  {
    otel::sdk::trace::BatchSpanProcessorOptions o;
    o.max_queue_size        = q;
    o.max_export_batch_size = b;
    o.schedule_delay_millis = std::chrono::milliseconds(delay_ms);
    return std::unique_ptr<P>(new P(std::unique_ptr<otel::sdk::trace::SpanExporter>(new E(l)), o));
  }
  static void produce(P &p, int t, int i)
  {
    auto r = p.MakeRecordable();
    r->SetName("p" + std::to_string(t) + "#" + std::to_string(i));
    p.OnEnd(std::move(r));
  }
};
struct LogT
{
  using P = otel::sdk::logs::BatchLogRecordProcessor;
  using E = Exp<otel::sdk::logs::LogRecordExporter, otel::sdk::logs::Recordable, otel::sdk::logs::ReadWriteLogRecord>;
  static std::unique_ptr<P> make(std::shared_ptr<Log> l, size_t q, size_t b, int delay_ms)
  {
    otel::sdk::logs::BatchLogRecordProcessorOptions o;
    o.max_queue_size        = q;
    o.max_export_batch_size = b;
    o.schedule_delay_millis = std::chrono::milliseconds(delay_ms);
    return std::unique_ptr<P>(new P(std::unique_ptr<otel::sdk::logs::LogRecordExporter>(new E(l)), o));
  }
  static void produce(P &p, int t, int i)
  {
    auto r = p.MakeRecordable();
    r->SetEventId(static_cast<int64_t>(t) * 100000 + i, "");
    p.OnEmit(std::move(r));
  }
};

template <class T>
void stress(vh::Case &c)
{
  vh::Reader &rd = c.rd;
  static const size_t qs[] = {4, 16, 64, 2048};
  size_t q        = qs[rd.below(4)];
  size_t b        = 1 + rd.below(static_cast<uint32_t>(q > 64 ? 64 : q));
  int delay_ms    = rd.coin() ? 1 : 3;
  unsigned np     = 1 + rd.below(4);
  unsigned per    = 20 + rd.below(rd.coin() ? 60 : 400);
  unsigned nflush = rd.below(4);
  bool early_shutdown = rd.chance(25);
  bool two_shutdowns  = rd.chance(30);
  auto log = std::make_shared<Log>();
  log->export_sleep_us = rd.chance(40) ? 50 + static_cast<int>(rd.below(400)) : 0;
  c.note("queue=" + std::to_string(q) + " batch=" + std::to_string(b) + " delay=" + std::to_string(delay_ms) +
         "ms producers=" + std::to_string(np) + "x" + std::to_string(per) + " flushes=" + std::to_string(nflush) +
         " export_sleep=" + std::to_string(log->export_sleep_us) + "us" + (early_shutdown ? " early-shutdown" : "") +
         (two_shutdowns ? " two-shutdown-callers" : "") + "\n");
  auto P = T::make(log, q, b, delay_ms);
  std::atomic<unsigned> done{0};
  std::vector<std::thread> ths;
  for (unsigned t = 0; t < np; ++t)
    ths.emplace_back([&, t]() {
      for (unsigned i = 0; i < per; ++i)
      {
        T::produce(*P, static_cast<int>(t), static_cast<int>(i));
        if ((i & 15) == 15)
          std::this_thread::yield();
      }
      done++;
    });
  std::vector<std::thread> ctl;
  for (unsigned f = 0; f < nflush; ++f)
    ctl.emplace_back([&, f]() {
      std::this_thread::sleep_for(std::chrono::microseconds(100 * (f + 1)));
      P->ForceFlush(std::chrono::milliseconds(500));
    });
  if (early_shutdown)
    ctl.emplace_back([&]() {
      std::this_thread::sleep_for(std::chrono::microseconds(300));
      P->Shutdown();
      log->processor_shutdown_returned = true;
    });
  for (auto &t : ths)
    t.join();
  for (auto &t : ctl)
    t.join();
  if (two_shutdowns)
  {
    std::thread a([&]() { P->Shutdown(); });
    std::thread bb([&]() { P->Shutdown(); });
    a.join();
    bb.join();
  }
  else
    P->Shutdown();
  log->processor_shutdown_returned = true;
  T::produce(*P, 99, 0);  // after shutdown: must have no effect
  P.reset();
  // ---- invariants
  std::lock_guard<std::mutex> g(log->mu);
  VH_CHECK(c, log->max_in_flight.load() <= 1, "Export entered while a previous Export was running ("
                                                  << log->max_in_flight.load() << " in flight)");
  VH_CHECK(c, log->shutdowns.load() == 1, "exporter Shutdown invoked " << log->shutdowns.load() << " times");
  VH_CHECK(c, log->exports_after_shutdown.load() == 0, "Export was called after the processor's Shutdown had returned");
  std::set<std::pair<int, int>> seen;
  std::map<int, int> last;
  size_t delivered = 0;
  for (auto &batch : log->batches)
  {
    VH_CHECK(c, !batch.empty(), "an empty batch was delivered");
    VH_CHECK(c, batch.size() <= b, "a batch of " << batch.size() << " records was delivered, max_export_batch_size is " << b);
    for (auto &t : batch)
    {
      VH_CHECK(c, t.first >= 0 && t.first < static_cast<int>(np) && t.second < static_cast<int>(per),
               "the exporter received a record nobody produced before shutdown (p" << t.first << "#" << t.second << ")");
      VH_CHECK(c, seen.insert(t).second, "record p" << t.first << "#" << t.second << " was delivered twice");
      auto it = last.find(t.first);
      VH_CHECK(c, it == last.end() || it->second < t.second, "producer " << t.first << ": #" << t.second
                                                                         << " reached the exporter after #"
                                                                         << (it == last.end() ? -1 : it->second));
      last[t.first] = t.second;
      ++delivered;
    }
  }
  // nothing is lost while the queue has room: with a queue larger than everything produced and
  // no early shutdown every record must arrive
  size_t total = static_cast<size_t>(np) * per;
  if (!early_shutdown && total <= q)
    VH_CHECK(c, delivered == total, "only " << delivered << " of " << total << " records were delivered although the "
                                            << "queue (" << q << ") could hold all of them");
  if (delivered < total)
    c.tag("some-dropped");
  if (!early_shutdown && total <= q)
    c.tag("lossless-config");
  c.nontrivial = np >= 2 || nflush > 0;
}
}  // namespace

VH_TARGET(bsp_threads, 2, "BatchSpanProcessor on real threads; non-trivial with 2+ producers or a concurrent ForceFlush; distinct = distinct configuration text")
{
  stress<SpanT>(c);
}

VH_TARGET(blp_threads, 2, "BatchLogRecordProcessor on real threads; non-trivial with 2+ producers or a concurrent ForceFlush; distinct = distinct configuration text")
{
  stress<LogT>(c);
}

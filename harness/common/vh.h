// vh.h - shared harness core for the /verif property checks.
//
// A *case* is a pure function of a byte string (the "choice stream").  A target decodes the stream
// into a structured case (Reader), describes it in canonical text (Case::note), runs the real code
// against an explicit oracle and throws vh::Fail on a violated expectation.  The same target is
// driven by rapidcheck (main_rc.cc: generated + shrunk byte vectors), by libFuzzer (main_fuzz.cc:
// coverage guided mutation of the same stream) and by the replay tier (bytes from a saved file,
// no library involved).  An exhausted stream yields zeros, and every decoder puts its simplest
// alternative at 0, so shrinking towards "shorter / smaller bytes" shrinks towards simpler cases.
#pragma once

#include <cstdint>
#include <cstring>
#include <functional>
#include <initializer_list>
#include <map>
#include <set>
#include <sstream>
#include <string>
#include <vector>

namespace vh
{

struct Fail
{
  std::string msg;
};

class Reader
{
public:
  Reader(const uint8_t *d, size_t n) : d_(d), n_(n), i_(0) {}
  uint8_t u8() { return i_ < n_ ? d_[i_++] : 0; }
  uint32_t u16()
  {
    uint32_t a = u8();
    return a | (uint32_t(u8()) << 8);
  }
  uint32_t u32()
  {
    uint32_t a = u16();
    return a | (u16() << 16);
  }
  uint64_t u64()
  {
    uint64_t a = u32();
    return a | (uint64_t(u32()) << 32);
  }
  // uniform-ish in [0,n)
  uint32_t below(uint32_t n)
  {
    if (n <= 1)
      return 0;
    if (n <= 256)
      return u8() % n;
    if (n <= 65536)
      return u16() % n;
    return u32() % n;
  }
  int range(int lo, int hi) { return lo + static_cast<int>(below(static_cast<uint32_t>(hi - lo + 1))); }
  bool coin() { return (u8() & 1) != 0; }
  // true with probability ~pct/100; a zero byte (exhausted stream) gives false unless pct>=100
  bool chance(unsigned pct) { return (u8() % 100) >= 100 - (pct > 100 ? 100 : pct); }
  // index drawn with the given weights; a zero byte selects index 0
  size_t weighted(std::initializer_list<unsigned> w)
  {
    unsigned total = 0;
    for (unsigned x : w)
      total += x;
    unsigned r = below(total);
    size_t idx = 0;
    for (unsigned x : w)
    {
      if (r < x)
        return idx;
      r -= x;
      ++idx;
    }
    return 0;
  }
  template <class T>
  const T &pick(const std::vector<T> &v)
  {
    return v[below(static_cast<uint32_t>(v.size()))];
  }
  bool exhausted() const { return i_ >= n_; }
  size_t consumed() const { return i_; }
  size_t remaining() const { return n_ - i_; }
  const uint8_t *cursor() const { return d_ + i_; }
  // hand out up to n raw bytes (for byte-level payloads inside a structured case)
  std::string bytes(size_t n)
  {
    size_t k = n < (n_ - i_) ? n : (n_ - i_);
    std::string s(reinterpret_cast<const char *>(d_ + i_), k);
    i_ += k;
    return s;
  }

private:
  const uint8_t *d_;
  size_t n_;
  size_t i_;
};

struct Case
{
  Case(const uint8_t *d, size_t n) : rd(d, n) {}
  Reader rd;
  std::string desc;         // canonical text of the decoded case (hashed for distinctness)
  bool nontrivial = false;  // set by the target according to its stated rule
  std::vector<std::string> tags;

  void note(const std::string &s)
  {
    if (desc.size() < kMaxDesc)
      desc += s;
  }
  void tag(const std::string &t) { tags.push_back(t); }
  [[noreturn]] void fail(const std::string &msg) { throw Fail{msg}; }
  static constexpr size_t kMaxDesc = 1 << 16;
};

#define VH_CHECK(c, cond, msgexpr)                              \
  do                                                            \
  {                                                             \
    if (!(cond))                                                \
    {                                                           \
      std::ostringstream vh_o_;                                 \
      vh_o_ << msgexpr << "  [" #cond "] at " << __FILE__ << ":" \
            << __LINE__;                                        \
      (c).fail(vh_o_.str());                                    \
    }                                                           \
  } while (0)

using TargetFn = void (*)(Case &);

struct Target
{
  std::string name;
  TargetFn fn;
  int scale;             // stream bytes per unit of rapidcheck size (max stream = scale*size)
  std::string rule;      // the non-triviality rule, in words (goes to evidence)
};

std::vector<Target> &targets();
struct Registrar
{
  Registrar(const char *name, TargetFn fn, int scale, const char *rule);
};

#define VH_TARGET(NAME, SCALE, RULE)                                  \
  static void NAME(vh::Case &c);                                      \
  static vh::Registrar vh_reg_##NAME(#NAME, NAME, SCALE, RULE);       \
  static void NAME(vh::Case &c)

// --- known-findings exclusion -------------------------------------------------------------------
// true when the generator must avoid the shape that is open finding `id` (passed by the driver with
// --exclude); every call that returns true is counted in the stats (excluded_for_known_findings).
bool excluded(const char *id);
// call when a generated case was actually re-shaped because of an excluded finding
void count_excluded(const char *id);
std::string excluded_list();

// --- outcome / stats ----------------------------------------------------------------------------
struct Outcome
{
  bool failed = false;
  std::string msg;
  std::string desc;
};

Outcome run_one(const Target &t, const uint8_t *d, size_t n);

void stats_set_paths(const std::string &stats_path, const std::string &crash_replay_path);
void stats_write();
// free-form additions to the stats file: key -> list of JSON fragments (merged into evidence)
void extra_add(const std::string &key, const std::string &json_fragment);
void set_property(const std::string &id);
const std::string &property();
void set_excluded(const std::string &comma_list);
void install_death_hooks();
std::string &failures_dir();
// a failure after which the process cannot continue (deadlock / livelock detected by the
// scheduler): saves the current case as a replay, flushes the counters and exits
[[noreturn]] void fatal_failure(const std::string &msg);

std::string hex_encode(const uint8_t *d, size_t n);
std::vector<uint8_t> hex_decode(const std::string &s);
std::string json_escape(const std::string &s);
bool write_replay_file(const std::string &path, const std::string &target,
                       const std::vector<uint8_t> &bytes, const std::string &msg,
                       const std::string &desc, const std::string &engine);
// returns false when the file has no bytes_hex field
bool load_replay_file(const std::string &path, std::string *target, std::vector<uint8_t> *bytes);

uint64_t fnv1a(const std::string &s);

// printable rendering of arbitrary bytes for descriptions
std::string show(const std::string &bytes);

}  // namespace vh

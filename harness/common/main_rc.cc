// rapidcheck driver: generates and shrinks the choice stream of every registered target.
//
//   <bin> [--target T] [--stats FILE] [--failures DIR] [--exclude F5,F8] [--replay FILE]
//
// rapidcheck itself is configured through RC_PARAMS (seed, max_success, max_size).
#include <rapidcheck.h>

#include <unistd.h>

#include <cstdio>
#include <cstdlib>
#include <iostream>
#include <string>

#include "vh.h"

extern const char *vh_property_id;
// optional: a harness may offer a systematic (non-random) exploration, e.g. bounded-exhaustive
// schedule enumeration; `arg` is the tier.  Returns 0 when nothing failed.
extern "C" int vh_exhaustive(const char *arg) __attribute__((weak));

namespace
{
struct LastFail
{
  bool have = false;
  std::vector<uint8_t> bytes;
  std::string msg;
  std::string desc;
};
}  // namespace

int main(int argc, char **argv)
{
  std::string target, stats, failures = ".", exclude, replay, exhaustive;
  bool list = false;
  for (int i = 1; i < argc; ++i)
  {
    std::string a = argv[i];
    auto next     = [&]() -> std::string { return i + 1 < argc ? argv[++i] : ""; };
    if (a == "--target")
      target = next();
    else if (a == "--stats")
      stats = next();
    else if (a == "--failures")
      failures = next();
    else if (a == "--exclude")
      exclude = next();
    else if (a == "--replay")
      replay = next();
    else if (a == "--exhaustive")
      exhaustive = next();
    else if (a == "--list")
      list = true;
    else
    {
      fprintf(stderr, "unknown argument %s\n", a.c_str());
      return 2;
    }
  }
  vh::failures_dir() = failures;
  std::cout.setf(std::ios::unitbuf);
  vh::set_property(vh_property_id);
  vh::set_excluded(exclude);
  if (list)
  {
    for (auto &t : vh::targets())
      printf("%s\n", t.name.c_str());
    return 0;
  }
  std::string crash_path =
      failures + "/crash-" + (target.empty() ? "all" : target) + "-" + std::to_string(getpid()) +
      ".json";
  vh::stats_set_paths(stats, crash_path);
  vh::install_death_hooks();

  if (!replay.empty())
  {
    std::vector<uint8_t> bytes;
    std::string rtarget;
    if (!vh::load_replay_file(replay, &rtarget, &bytes))
    {
      fprintf(stderr, "cannot load replay file %s\n", replay.c_str());
      return 2;
    }
    if (!target.empty())
      rtarget = target;
    for (auto &t : vh::targets())
    {
      if (t.name != rtarget)
        continue;
      vh::Outcome o = vh::run_one(t, bytes.data(), bytes.size());
      vh::stats_write();
      printf("VH-REPLAY target=%s result=%s\n", t.name.c_str(), o.failed ? "FAIL" : "PASS");
      if (o.failed)
        printf("VH-MSG %s\n", o.msg.c_str());
      printf("VH-CASE %s\n", o.desc.substr(0, 4000).c_str());
      return o.failed ? 1 : 0;
    }
    fprintf(stderr, "replay names unknown target '%s'\n", rtarget.c_str());
    return 2;
  }

  if (!exhaustive.empty())
  {
    if (!vh_exhaustive)
    {
      fprintf(stderr, "this harness offers no exhaustive mode\n");
      return 2;
    }
    int r = vh_exhaustive(exhaustive.c_str());
    vh::stats_write();
    return r;
  }

  int rc_exit = 0;
  for (auto &t : vh::targets())
  {
    if (!target.empty() && t.name != target)
      continue;
    LastFail last;
    const vh::Target *tp = &t;
    bool ok = rc::check(t.name, [tp, &last]() {
      auto bytes = *rc::gen::scale(
          static_cast<double>(tp->scale),
          rc::gen::container<std::vector<uint8_t>>(
              rc::gen::resize(rc::kNominalSize, rc::gen::arbitrary<uint8_t>())));
      vh::Outcome o = vh::run_one(*tp, bytes.data(), bytes.size());
      if (o.failed)
      {
        last.have  = true;
        last.bytes = bytes;
        last.msg   = o.msg;
        last.desc  = o.desc;
        RC_FAIL(o.msg);
      }
    });
    if (!ok)
    {
      rc_exit = 1;
      if (last.have)
      {
        char name[64];
        snprintf(name, sizeof name, "%016llx",
                 static_cast<unsigned long long>(
                     vh::fnv1a(vh::hex_encode(last.bytes.data(), last.bytes.size()))));
        std::string path = failures + "/" + t.name + "-" + name + ".json";
        vh::write_replay_file(path, t.name, last.bytes, last.msg, last.desc, "rapidcheck");
        printf("VH-FAIL target=%s replay=%s\n", t.name.c_str(), path.c_str());
        printf("VH-MSG %s\n", last.msg.c_str());
        printf("VH-CASE %s\n", last.desc.substr(0, 4000).c_str());
      }
      else
      {
        printf("VH-ERROR target=%s rapidcheck reported failure without a failing case\n",
               t.name.c_str());
        rc_exit = 3;
      }
    }
    vh::stats_write();
  }
  vh::stats_write();
  return rc_exit;
}

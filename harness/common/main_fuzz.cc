// libFuzzer driver: coverage-guided mutation of the same choice stream the rapidcheck driver
// generates.  Configuration comes from the environment because libFuzzer owns argv:
//   VH_TARGET (required unless the binary has one target), VH_STATS, VH_FAILURES, VH_EXCLUDE
#include <unistd.h>
#include <cstdio>
#include <cstdlib>
#include <string>

#include "vh.h"

extern const char *vh_property_id;

namespace
{
const vh::Target *g_target = nullptr;
std::string g_failures     = ".";

void at_exit_stats()
{
  vh::stats_write();
}
}  // namespace

extern "C" int LLVMFuzzerInitialize(int *, char ***)
{
  vh::set_property(vh_property_id);
  const char *t = getenv("VH_TARGET");
  for (auto &x : vh::targets())
    if ((t && x.name == t) || (!t && vh::targets().size() == 1))
      g_target = &x;
  if (!g_target)
  {
    fprintf(stderr, "VH_TARGET missing or unknown\n");
    _exit(2);
  }
  if (const char *e = getenv("VH_EXCLUDE"))
    vh::set_excluded(e);
  if (const char *f = getenv("VH_FAILURES"))
    g_failures = f;
  const char *s = getenv("VH_STATS");
  vh::stats_set_paths(s ? s : "",
                      g_failures + "/crash-" + g_target->name + "-" + std::to_string(getpid()) +
                          ".json");
  vh::install_death_hooks();
  atexit(at_exit_stats);
  return 0;
}

extern "C" int LLVMFuzzerTestOneInput(const uint8_t *data, size_t size)
{
  vh::Outcome o = vh::run_one(*g_target, data, size);
  if (o.failed)
  {
    std::vector<uint8_t> bytes(data, data + size);
    char name[64];
    snprintf(name, sizeof name, "%016llx",
             static_cast<unsigned long long>(vh::fnv1a(vh::hex_encode(data, size))));
    std::string path = g_failures + "/" + g_target->name + "-" + name + ".json";
    vh::write_replay_file(path, g_target->name, bytes, o.msg, o.desc, "libfuzzer");
    printf("VH-FAIL target=%s replay=%s\n", g_target->name.c_str(), path.c_str());
    printf("VH-MSG %s\n", o.msg.c_str());
    printf("VH-CASE %s\n", o.desc.substr(0, 4000).c_str());
    fflush(stdout);
    vh::stats_write();
    _exit(77);  // a semantic failure: the replay file is the artifact (no sanitizer report to wait for)
  }
  return 0;
}

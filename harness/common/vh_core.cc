#include "vh.h"

#include <signal.h>
#include <unistd.h>
#include <algorithm>
#include <chrono>
#include <cstdio>
#include <cstdlib>
#include <exception>
#include <fstream>
#include <iostream>
#include <mutex>

extern "C" void __sanitizer_set_death_callback(void (*callback)(void)) __attribute__((weak));

namespace vh
{

std::vector<Target> &targets()
{
  static std::vector<Target> t;
  return t;
}

Registrar::Registrar(const char *name, TargetFn fn, int scale, const char *rule)
{
  targets().push_back(Target{name, fn, scale, rule});
}

uint64_t fnv1a(const std::string &s)
{
  uint64_t h = 1469598103934665603ull;
  for (unsigned char ch : s)
  {
    h ^= ch;
    h *= 1099511628211ull;
  }
  return h;
}

std::string hex_encode(const uint8_t *d, size_t n)
{
  static const char *k = "0123456789abcdef";
  std::string s;
  s.reserve(n * 2);
  for (size_t i = 0; i < n; ++i)
  {
    s.push_back(k[d[i] >> 4]);
    s.push_back(k[d[i] & 15]);
  }
  return s;
}

static int hv(char ch)
{
  if (ch >= '0' && ch <= '9')
    return ch - '0';
  if (ch >= 'a' && ch <= 'f')
    return ch - 'a' + 10;
  if (ch >= 'A' && ch <= 'F')
    return ch - 'A' + 10;
  return -1;
}

std::vector<uint8_t> hex_decode(const std::string &s)
{
  std::vector<uint8_t> out;
  for (size_t i = 0; i + 1 < s.size(); i += 2)
  {
    int a = hv(s[i]), b = hv(s[i + 1]);
    if (a < 0 || b < 0)
      break;
    out.push_back(static_cast<uint8_t>(a * 16 + b));
  }
  return out;
}

std::string json_escape(const std::string &s)
{
  std::string o;
  o.reserve(s.size() + 8);
  for (unsigned char ch : s)
  {
    switch (ch)
    {
      case '"':
        o += "\\\"";
        break;
      case '\\':
        o += "\\\\";
        break;
      case '\n':
        o += "\\n";
        break;
      case '\r':
        o += "\\r";
        break;
      case '\t':
        o += "\\t";
        break;
      default:
        if (ch < 0x20 || ch >= 0x7f)
        {
          char buf[8];
          snprintf(buf, sizeof buf, "\\u%04x", ch);
          o += buf;
        }
        else
          o.push_back(static_cast<char>(ch));
    }
  }
  return o;
}

std::string show(const std::string &bytes)
{
  std::string o;
  for (unsigned char ch : bytes)
  {
    if (ch == '\\')
      o += "\\\\";
    else if (ch >= 0x20 && ch < 0x7f)
      o.push_back(static_cast<char>(ch));
    else
    {
      char buf[8];
      snprintf(buf, sizeof buf, "\\x%02x", ch);
      o += buf;
    }
  }
  return o;
}

// ------------------------------------------------------------------------------------------------

namespace
{
struct TargetStats
{
  uint64_t evaluations = 0;
  uint64_t nontrivial  = 0;
  uint64_t failures    = 0;
  std::set<uint64_t> distinct;                         // hashes of non-trivial cases
  std::map<std::string, uint64_t> tags;
  std::map<uint64_t, std::string> samples;             // the k non-trivial cases of smallest hash
  std::vector<std::string> first_samples;              // the first few cases, trivial or not
};

struct Global
{
  std::string property;
  std::string stats_path;
  std::string crash_path;
  std::set<std::string> excluded;
  std::map<std::string, uint64_t> excluded_counts;
  std::map<std::string, TargetStats> per_target;
  std::map<std::string, std::vector<std::string>> extra;  // key -> JSON fragments
  // current case, for the death callback
  const Target *cur_target = nullptr;
  const uint8_t *cur_data  = nullptr;
  size_t cur_size          = 0;
  const Case *cur_case     = nullptr;
  bool in_case             = false;
  std::chrono::steady_clock::time_point t0 = std::chrono::steady_clock::now();
  bool dying = false;
};

Global &G()
{
  static Global *g = new Global();  // leaked on purpose: usable from exit/death paths
  return *g;
}

constexpr size_t kSamples      = 4;
constexpr size_t kSampleMaxLen = 1500;

}  // namespace

std::string &failures_dir()
{
  static std::string *d = new std::string(".");
  return *d;
}

void set_property(const std::string &id)
{
  G().property = id;
}
const std::string &property()
{
  return G().property;
}

void set_excluded(const std::string &comma_list)
{
  std::string cur;
  for (char ch : comma_list + ",")
  {
    if (ch == ',')
    {
      if (!cur.empty())
        G().excluded.insert(cur);
      cur.clear();
    }
    else
      cur.push_back(ch);
  }
}

std::string excluded_list()
{
  std::string o;
  for (auto &e : G().excluded)
    o += (o.empty() ? "" : ",") + e;
  return o;
}

bool excluded(const char *id)
{
  return G().excluded.count(id) != 0;
}

void count_excluded(const char *id)
{
  static std::mutex *mu = new std::mutex();  // targets with real threads call this concurrently
  std::lock_guard<std::mutex> g(*mu);
  G().excluded_counts[id]++;
}

void extra_add(const std::string &key, const std::string &json_fragment)
{
  G().extra[key].push_back(json_fragment);
}

void stats_set_paths(const std::string &stats_path, const std::string &crash_replay_path)
{
  G().stats_path = stats_path;
  G().crash_path = crash_replay_path;
}

Outcome run_one(const Target &t, const uint8_t *d, size_t n)
{
  Global &g = G();
  Case c(d, n);
  g.cur_target = &t;
  g.cur_data   = d;
  g.cur_size   = n;
  g.cur_case   = &c;
  g.in_case    = true;
  Outcome o;
  try
  {
    t.fn(c);
  }
  catch (const Fail &f)
  {
    o.failed = true;
    o.msg    = f.msg;
  }
  catch (const std::exception &e)
  {
    o.failed = true;
    o.msg    = std::string("unexpected C++ exception escaped the code under test: ") + e.what();
  }
  g.cur_case = nullptr;
  g.cur_data = nullptr;
  g.in_case  = false;
  o.desc     = c.desc;

  TargetStats &s = g.per_target[t.name];
  s.evaluations++;
  for (auto &tg : c.tags)
    s.tags[tg]++;
  if (s.first_samples.size() < 2)
    s.first_samples.push_back(c.desc.substr(0, kSampleMaxLen));
  if (o.failed)
    s.failures++;
  if (c.nontrivial)
  {
    s.nontrivial++;
    uint64_t h = fnv1a(c.desc);
    if (s.distinct.insert(h).second)
    {
      if (s.samples.size() < kSamples || h < s.samples.rbegin()->first)
      {
        s.samples[h] = c.desc.substr(0, kSampleMaxLen);
        if (s.samples.size() > kSamples)
          s.samples.erase(std::prev(s.samples.end()));
      }
    }
  }
  return o;
}

void stats_write()
{
  Global &g = G();
  if (g.stats_path.empty())
    return;
  std::ostringstream o;
  double wall =
      std::chrono::duration<double>(std::chrono::steady_clock::now() - g.t0).count();
  o << "{\n \"property\": \"" << json_escape(g.property) << "\",\n \"wall_s\": " << wall
    << ",\n \"excluded_for_known_findings\": {";
  bool first = true;
  for (auto &kv : g.excluded_counts)
  {
    o << (first ? "" : ", ") << "\"" << json_escape(kv.first) << "\": " << kv.second;
    first = false;
  }
  o << "},\n \"extra\": {";
  first = true;
  for (auto &kv : g.extra)
  {
    o << (first ? "" : ", ") << "\"" << json_escape(kv.first) << "\": [";
    for (size_t i = 0; i < kv.second.size(); ++i)
      o << (i ? ", " : "") << kv.second[i];
    o << "]";
    first = false;
  }
  o << "},\n \"targets\": {";
  bool ft = true;
  for (auto &t : targets())
  {
    auto it = g.per_target.find(t.name);
    if (it == g.per_target.end())
      continue;
    TargetStats &s = it->second;
    o << (ft ? "" : ",") << "\n  \"" << json_escape(t.name) << "\": {\"evaluations\": "
      << s.evaluations << ", \"nontrivial\": " << s.nontrivial
      << ", \"distinct_nontrivial\": " << s.distinct.size() << ", \"failures\": " << s.failures
      << ", \"rule\": \"" << json_escape(t.rule) << "\", \"tags\": {";
    ft       = false;
    bool f2  = true;
    for (auto &kv : s.tags)
    {
      o << (f2 ? "" : ", ") << "\"" << json_escape(kv.first) << "\": " << kv.second;
      f2 = false;
    }
    o << "}, \"samples\": [";
    f2 = true;
    for (auto &kv : s.samples)
    {
      o << (f2 ? "" : ", ") << "\"" << json_escape(kv.second) << "\"";
      f2 = false;
    }
    if (s.samples.empty())
      for (auto &fs : s.first_samples)
      {
        o << (f2 ? "" : ", ") << "\"" << json_escape(fs) << "\"";
        f2 = false;
      }
    o << "], \"hashes\": \"";
    // distinct hashes, hex, so the driver can union them over processes
    {
      std::string hs;
      hs.reserve(s.distinct.size() * 17);
      char buf[20];
      for (uint64_t h : s.distinct)
      {
        snprintf(buf, sizeof buf, "%016llx", static_cast<unsigned long long>(h));
        hs += buf;
      }
      o << hs;
    }
    o << "\"}";
  }
  o << "\n }\n}\n";
  std::string tmp = g.stats_path + ".tmp";
  FILE *f         = fopen(tmp.c_str(), "w");
  if (!f)
    return;
  std::string s = o.str();
  fwrite(s.data(), 1, s.size(), f);
  fclose(f);
  rename(tmp.c_str(), g.stats_path.c_str());
}

bool write_replay_file(const std::string &path, const std::string &target,
                       const std::vector<uint8_t> &bytes, const std::string &msg,
                       const std::string &desc, const std::string &engine)
{
  FILE *f = fopen(path.c_str(), "w");
  if (!f)
    return false;
  std::string s = "{\n \"property\": \"" + json_escape(property()) + "\",\n \"engine\": \"" +
                  json_escape(engine) + "\",\n \"target\": \"" + json_escape(target) +
                  "\",\n \"message\": \"" + json_escape(msg) + "\",\n \"case\": \"" +
                  json_escape(desc.substr(0, 20000)) + "\",\n \"exclude\": \"" +
                  json_escape(excluded_list()) + "\",\n \"bytes_hex\": \"" +
                  hex_encode(bytes.data(), bytes.size()) + "\"\n}\n";
  fwrite(s.data(), 1, s.size(), f);
  fclose(f);
  return true;
}

static bool extract_string_field(const std::string &all, const std::string &key, std::string *out)
{
  std::string pat = "\"" + key + "\"";
  size_t p        = all.find(pat);
  if (p == std::string::npos)
    return false;
  p = all.find(':', p + pat.size());
  if (p == std::string::npos)
    return false;
  p = all.find('"', p);
  if (p == std::string::npos)
    return false;
  size_t e = p + 1;
  std::string v;
  while (e < all.size() && all[e] != '"')
  {
    if (all[e] == '\\' && e + 1 < all.size())
    {
      v.push_back(all[e + 1]);
      e += 2;
    }
    else
      v.push_back(all[e++]);
  }
  *out = v;
  return true;
}

bool load_replay_file(const std::string &path, std::string *target, std::vector<uint8_t> *bytes)
{
  std::ifstream in(path, std::ios::binary);
  if (!in)
    return false;
  std::stringstream ss;
  ss << in.rdbuf();
  std::string all = ss.str();
  std::string hex;
  if (!extract_string_field(all, "bytes_hex", &hex))
    return false;
  *bytes = hex_decode(hex);
  extract_string_field(all, "target", target);
  // a case found while open findings were excluded decodes the same way only under that exclusion
  std::string ex;
  if (extract_string_field(all, "exclude", &ex))
  {
    G().excluded.clear();
    set_excluded(ex);
  }
  return true;
}

// ------------------------------------------------------------------------------------------------
// death hooks: a sanitizer report or an assert() aborts the process without unwinding; flush the
// counters and the current case first so the failure stays reproducible.

#if defined(__SANITIZE_THREAD__)
#  define VH_BUILT_WITH_TSAN 1
#elif defined(__has_feature)
#  if __has_feature(thread_sanitizer)
#    define VH_BUILT_WITH_TSAN 1
#  endif
#endif
#ifndef VH_BUILT_WITH_TSAN
#  define VH_BUILT_WITH_TSAN 0
#endif

static void on_death()
{
  Global &g = G();
  if (g.dying)
    return;
  g.dying = true;
  if (g.cur_target && g.in_case && !g.crash_path.empty())
  {
    std::vector<uint8_t> b;
    if (g.cur_data)
      b.assign(g.cur_data, g.cur_data + g.cur_size);
    std::string desc = g.cur_case ? g.cur_case->desc : std::string();
    write_replay_file(g.crash_path, g.cur_target->name, b,
                      "process died inside the case (sanitizer report / abort / assert); see stderr",
                      desc, "crash");
    fprintf(stderr, "VH-CRASH target=%s replay=%s\n", g.cur_target->name.c_str(),
            g.crash_path.c_str());
  }
#if !VH_BUILT_WITH_TSAN
  // (under ThreadSanitizer the hook runs inside the runtime's report path: the more instrumented code
  // runs here, the likelier a deadlock in TSan's own locks - seen once; the counters of a dying TSan
  // process are given up, the crash replay above is what matters)
  stats_write();
#endif
}

static void on_signal(int sig)
{
  on_death();
  signal(sig, SIG_DFL);
  raise(sig);
}

void fatal_failure(const std::string &msg)
{
  Global &g = G();
  g.dying   = true;
  std::string path = g.crash_path;
  if (g.cur_target && g.in_case)
  {
    std::vector<uint8_t> b;
    if (g.cur_data)
      b.assign(g.cur_data, g.cur_data + g.cur_size);
    std::string desc = g.cur_case ? g.cur_case->desc : std::string();
    if (path.empty())
      path = "fatal-replay.json";
    write_replay_file(path, g.cur_target->name, b, msg, desc, "fatal");
    printf("VH-REPLAY target=%s result=FAIL\nVH-FAIL target=%s replay=%s\nVH-MSG %s\nVH-CASE %s\n",
           g.cur_target->name.c_str(), g.cur_target->name.c_str(), path.c_str(), msg.c_str(),
           desc.substr(0, 4000).c_str());
    fflush(stdout);
    g.per_target[g.cur_target->name].evaluations++;
    g.per_target[g.cur_target->name].failures++;
  }
  stats_write();
  _exit(1);
}

void install_death_hooks()
{
  if (__sanitizer_set_death_callback)
    __sanitizer_set_death_callback(on_death);
  signal(SIGABRT, on_signal);
  std::set_terminate([] {
    fprintf(stderr, "VH: std::terminate called inside a case\n");
    on_death();
    _exit(134);
  });
}

}  // namespace vh

// vh_guard.h - a byte string placed so that it ENDS exactly at an inaccessible page.
//
// Carrier values normally live in exact-size heap blocks, so that ASan reports any read past the end of a
// header value - but only reads done by instrumented code or by a libc function ASan intercepts.  Functions
// it does not intercept (strtoul, strtod, sscanf on some paths, hand-written SIMD ...) read past the block
// silently, and the bytes there usually stop a parse at once, so nothing observable happens either.  A value
// that ends at a PROT_NONE page turns every such over-read, by whatever code, into a SIGSEGV (which the
// sanitizer runtime reports and the death hook turns into a crash replay).
#pragma once

#include <sys/mman.h>
#include <unistd.h>

#include <cstring>
#include <string>

namespace vh
{
class GuardedBytes
{
public:
  explicit GuardedBytes(const std::string &v) : len_(v.size())
  {
    const size_t pg = static_cast<size_t>(sysconf(_SC_PAGESIZE));
    size_t body     = ((v.size() + pg - 1) / pg) * pg;
    if (body == 0)
      body = pg;
    map_len_ = body + pg;
    void *m  = mmap(nullptr, map_len_, PROT_READ | PROT_WRITE, MAP_PRIVATE | MAP_ANONYMOUS, -1, 0);
    if (m == MAP_FAILED)
    {
      base_ = nullptr;
      fallback_.assign(v);
      ptr_ = fallback_.data();
      return;
    }
    base_ = static_cast<char *>(m);
    mprotect(base_ + body, pg, PROT_NONE);
    char *p = base_ + body - v.size();
    std::memcpy(p, v.data(), v.size());
    ptr_ = p;
  }
  GuardedBytes(const GuardedBytes &)            = delete;
  GuardedBytes &operator=(const GuardedBytes &) = delete;
  ~GuardedBytes()
  {
    if (base_)
      munmap(base_, map_len_);
  }
  const char *data() const { return ptr_; }
  size_t size() const { return len_; }

private:
  char *base_      = nullptr;
  size_t map_len_  = 0;
  const char *ptr_ = nullptr;
  size_t len_;
  std::string fallback_;
};
}  // namespace vh

// C13  An exported log record carries what was emitted, correlated with the active span.
//
// Targets
//   log_program  a generated sequence of emits through (a) the variadic EmitLogRecord(args...) in a
//                precompiled family of argument orders, (b) CreateLogRecord + setters +
//                EmitLogRecord(record), (c) the severity helpers; bodies/attributes over every value
//                alternative with short-lived caller storage; nested active spans; explicit
//                SpanContext / TraceId / SpanId / TraceFlags; simple, batch and 1..3 mixed
//                processors; enabled and disabled loggers; null records
//   log_threads  2..3 real threads with their own active spans emit concurrently
// Oracle: a reference record model compared INSIDE each exporter's Export with the getters of the
// SDK's ReadWriteLogRecord.
#include <atomic>
#include <mutex>
#include <unordered_map>
#include <thread>

#include "opentelemetry/context/runtime_context.h"
#include "opentelemetry/logs/event_id.h"
#include "opentelemetry/logs/logger.h"
#include "opentelemetry/logs/severity.h"
#include "opentelemetry/sdk/instrumentationscope/scope_configurator.h"
#include "opentelemetry/sdk/logs/batch_log_record_processor.h"
#include "opentelemetry/sdk/logs/batch_log_record_processor_options.h"
#include "opentelemetry/sdk/logs/exporter.h"
#include "opentelemetry/sdk/logs/logger_config.h"
#include "opentelemetry/sdk/logs/logger_provider.h"
#include "opentelemetry/sdk/logs/read_write_log_record.h"
#include "opentelemetry/sdk/logs/simple_log_record_processor.h"
#include "opentelemetry/sdk/resource/resource.h"
#include "opentelemetry/trace/default_span.h"
#include "opentelemetry/trace/scope.h"
#include "sdkgen.h"
#include "vh.h"

const char *vh_property_id = "C13";

namespace
{
namespace otel = opentelemetry;
namespace sdkl = opentelemetry::sdk::logs;
namespace lg   = opentelemetry::logs;
namespace tr   = opentelemetry::trace;

// what the exporter saw, copied inside Export
struct Captured
{
  int severity;
  bool body_is_set;
  otel::sdk::common::OwnedAttributeValue body;  // converted INSIDE Export from the record's view
  std::unordered_map<std::string, otel::sdk::common::OwnedAttributeValue> attrs;
  int64_t ts_ns, event_id;
  std::string event_name, trace_id, span_id, scope_name, scope_version, scope_schema;
  uint8_t flags;
  int64_t res_key;
  bool has_res_key;
  int64_t marker;  // attribute "vh.marker": which emit this is
};

struct Sink
{
  std::mutex mu;
  std::vector<Captured> records;
};

class CaptureExporter final : public sdkl::LogRecordExporter
{
public:
  explicit CaptureExporter(std::shared_ptr<Sink> s) : sink_(std::move(s)) {}
  std::unique_ptr<sdkl::Recordable> MakeRecordable() noexcept override
  {
    return std::unique_ptr<sdkl::Recordable>(new sdkl::ReadWriteLogRecord());
  }
  otel::sdk::common::ExportResult Export(
      const otel::nostd::span<std::unique_ptr<sdkl::Recordable>> &batch) noexcept override
  {
    std::lock_guard<std::mutex> g(sink_->mu);
    otel::sdk::common::AttributeConverter conv;
    for (auto &r : batch)
    {
      auto &d = static_cast<sdkl::ReadWriteLogRecord &>(*r);
      Captured c;
      c.severity    = static_cast<int>(d.GetSeverity());
      c.body        = otel::nostd::visit(conv, d.GetBody());
      c.body_is_set = true;
      c.marker      = -1;
      for (auto &kv : d.GetAttributes())
      {
        c.attrs[kv.first] = otel::nostd::visit(conv, kv.second);
        if (kv.first == "vh.marker" && otel::nostd::holds_alternative<int64_t>(kv.second))
          c.marker = otel::nostd::get<int64_t>(kv.second);
      }
      c.ts_ns      = d.GetTimestamp().time_since_epoch().count();
      c.event_id   = d.GetEventId();
      c.event_name = std::string(d.GetEventName().data(), d.GetEventName().size());
      c.trace_id   = sg::hex(d.GetTraceId());
      c.span_id    = sg::hex(d.GetSpanId());
      c.flags      = d.GetTraceFlags().flags();
      auto &scope  = d.GetInstrumentationScope();
      c.scope_name = scope.GetName();
      c.scope_version = scope.GetVersion();
      c.scope_schema  = scope.GetSchemaURL();
      c.has_res_key   = false;
      c.res_key       = 0;
      auto &ra        = d.GetResource().GetAttributes();
      auto it         = ra.find("res.key");
      if (it != ra.end() && otel::nostd::holds_alternative<int64_t>(it->second))
      {
        c.has_res_key = true;
        c.res_key     = otel::nostd::get<int64_t>(it->second);
      }
      sink_->records.push_back(std::move(c));
    }
    return otel::sdk::common::ExportResult::kSuccess;
  }
  bool ForceFlush(std::chrono::microseconds) noexcept override { return true; }
  bool Shutdown(std::chrono::microseconds) noexcept override { return true; }

private:
  std::shared_ptr<Sink> sink_;
};

struct Expected
{
  int64_t marker;
  int severity;
  bool body_given;
  sg::MValue body;
  sg::KVMap attrs;
  bool ts_given;
  int64_t ts_ns;
  bool event_given;
  int64_t event_id;
  std::string event_name;
  std::string trace_id, span_id;
  uint8_t flags;
  int logger;  // which logger (scope) emitted it
};

struct LoggerInfo
{
  otel::nostd::shared_ptr<lg::Logger> logger;
  std::string name, version, schema;
  bool enabled;
};

struct Setup
{
  std::vector<std::shared_ptr<Sink>> sinks;
  std::vector<bool> is_batch;
  bool any_batch = false;
  std::shared_ptr<sdkl::LoggerProvider> provider;
  std::vector<LoggerInfo> loggers;
  int64_t res_val = 0;
};

Setup make_setup(vh::Case &c)
{
  vh::Reader &rd = c.rd;
  Setup s;
  unsigned np = 1 + static_cast<unsigned>(rd.weighted({5, 3, 2}));
  std::vector<std::unique_ptr<sdkl::LogRecordProcessor>> procs;
  std::string desc = "processors=[";
  for (unsigned i = 0; i < np; ++i)
  {
    auto sink = std::make_shared<Sink>();
    s.sinks.push_back(sink);
    bool batch = rd.chance(40);
    s.is_batch.push_back(batch);
    s.any_batch = s.any_batch || batch;
    std::unique_ptr<sdkl::LogRecordExporter> ex(new CaptureExporter(sink));
    if (batch)
    {
      sdkl::BatchLogRecordProcessorOptions o;
      o.max_queue_size        = 64;
      o.max_export_batch_size = 16;
      o.schedule_delay_millis = std::chrono::milliseconds(5);
      procs.emplace_back(new sdkl::BatchLogRecordProcessor(std::move(ex), o));
    }
    else
      procs.emplace_back(new sdkl::SimpleLogRecordProcessor(std::move(ex)));
    desc += batch ? "batch " : "simple ";
  }
  s.res_val     = static_cast<int64_t>(rd.below(100));
  auto resource = otel::sdk::resource::Resource::Create({{"service.name", "vh-c13"}, {"res.key", s.res_val}});
  // scope "off" is disabled by the configurator
  using Cfg = otel::sdk::instrumentationscope::ScopeConfigurator<sdkl::LoggerConfig>;
  auto configurator = std::make_unique<Cfg>(
      Cfg::Builder(sdkl::LoggerConfig::Default()).AddConditionNameEquals("off", sdkl::LoggerConfig::Disabled()).Build());
  s.provider = std::make_shared<sdkl::LoggerProvider>(std::move(procs), resource, std::move(configurator));
  unsigned nl = 1 + rd.below(3);
  for (unsigned i = 0; i < nl; ++i)
  {
    LoggerInfo li;
    li.enabled = !(i > 0 && rd.chance(35));
    li.name    = li.enabled ? "lib" + std::to_string(i) : "off";
    li.version = rd.coin() ? "" : "2." + std::to_string(i);
    li.schema  = rd.coin() ? "" : "https://schema/" + std::to_string(i);
    sg::Arena a;
    li.logger = s.provider->GetLogger(a.view("logger" + std::to_string(i)), a.view(li.name), a.view(li.version),
                                      a.view(li.schema));
    s.loggers.push_back(li);
    desc += "] logger" + std::to_string(i) + "=" + li.name + "/" + li.version + "/" + li.schema;
    if (!li.enabled)
      c.tag("disabled-logger");
  }
  c.note(desc + " res.key=" + std::to_string(s.res_val) + "\n");
  if (np >= 2)
    c.tag("2+processors");
  if (s.any_batch)
    c.tag("has-batch-processor");
  return s;
}

// ------------------------------------------------------------------------------------------------
// the variadic family: each entry emits with one fixed argument order
struct Args
{
  lg::Severity sev;
  otel::common::AttributeValue body;
  const otel::common::KeyValueIterable *attrs;
  const otel::common::KeyValueIterable *marker;  // {"vh.marker": n}
  const otel::common::KeyValueIterable *attrs2;  // a second container re-binding some keys of attrs
  // containers that OWN their strings, passed as such (the API iterates them and stores views)
  std::map<std::string, std::string> *smap                        = nullptr;
  std::vector<std::pair<std::string, std::string>> *svec          = nullptr;
  std::unordered_map<std::string, std::string> *sumap             = nullptr;
  lg::Severity sev2;
  tr::TraceFlags tf2;
  tr::SpanContext ctx = tr::SpanContext::GetInvalid();
  tr::TraceId tid;
  tr::SpanId sid;
  tr::TraceFlags tf;
  otel::common::SystemTimestamp ts;
  int64_t ev_id;
  std::string ev_name;
};

struct Form
{
  const char *name;
  bool sev, body, attrs, ctx, ids, ts, ev;
  void (*emit)(lg::Logger &, Args &);
  // arguments of one call that write the same field: they apply left to right (last one wins)
  // 0 none, 1 attrs then attrs2, 2 ctx then tf2, 3 tf2 then ctx, 4 sev then sev2
  int overlap = 0;
  // 1 std::map<string,string>, 2 vector<pair<string,string>>, 3 unordered_map<string,string> passed
  // directly (only used when every processor exports inside Emit: the container is alive then)
  int owning = 0;
};

#define EV(a) lg::EventId((a).ev_id, (a).ev_name)
const Form kForms[] = {
    {"(S,B,M)", true, true, false, false, false, false, false,
     [](lg::Logger &l, Args &a) { l.EmitLogRecord(a.sev, a.body, *a.marker); }},
    {"(B,M,S)", true, true, false, false, false, false, false,
     [](lg::Logger &l, Args &a) { l.EmitLogRecord(a.body, *a.marker, a.sev); }},
    {"(S,B,A,M)", true, true, true, false, false, false, false,
     [](lg::Logger &l, Args &a) { l.EmitLogRecord(a.sev, a.body, *a.attrs, *a.marker); }},
    {"(A,M,B,S)", true, true, true, false, false, false, false,
     [](lg::Logger &l, Args &a) { l.EmitLogRecord(*a.attrs, *a.marker, a.body, a.sev); }},
    {"(S,B,A,M,C)", true, true, true, true, false, false, false,
     [](lg::Logger &l, Args &a) { l.EmitLogRecord(a.sev, a.body, *a.attrs, *a.marker, a.ctx); }},
    {"(C,A,M,B,S)", true, true, true, true, false, false, false,
     [](lg::Logger &l, Args &a) { l.EmitLogRecord(a.ctx, *a.attrs, *a.marker, a.body, a.sev); }},
    {"(S,B,M,T)", true, true, false, false, false, true, false,
     [](lg::Logger &l, Args &a) { l.EmitLogRecord(a.sev, a.body, *a.marker, a.ts); }},
    {"(T,S,B,A,M,E)", true, true, true, false, false, true, true,
     [](lg::Logger &l, Args &a) { l.EmitLogRecord(a.ts, a.sev, a.body, *a.attrs, *a.marker, EV(a)); }},
    {"(E,S,B,M)", true, true, false, false, false, false, true,
     [](lg::Logger &l, Args &a) { l.EmitLogRecord(EV(a), a.sev, a.body, *a.marker); }},
    {"(S,A,M)", true, false, true, false, false, false, false,
     [](lg::Logger &l, Args &a) { l.EmitLogRecord(a.sev, *a.attrs, *a.marker); }},
    {"(B,M)", false, true, false, false, false, false, false,
     [](lg::Logger &l, Args &a) { l.EmitLogRecord(a.body, *a.marker); }},
    {"(S,B,M,Tid,Sid,Tf)", true, true, false, false, true, false, false,
     [](lg::Logger &l, Args &a) { l.EmitLogRecord(a.sev, a.body, *a.marker, a.tid, a.sid, a.tf); }},
    {"(Tf,Sid,Tid,M,B,S)", true, true, false, false, true, false, false,
     [](lg::Logger &l, Args &a) { l.EmitLogRecord(a.tf, a.sid, a.tid, *a.marker, a.body, a.sev); }},
    {"(S,B,C,T,E,A,M)", true, true, true, true, false, true, true,
     [](lg::Logger &l, Args &a) { l.EmitLogRecord(a.sev, a.body, a.ctx, a.ts, EV(a), *a.attrs, *a.marker); }},
    {"Info(B,A,M)", true, true, true, false, false, false, false,
     [](lg::Logger &l, Args &a) { l.Info(a.body, *a.attrs, *a.marker); }},
    {"Error(M,B)", true, true, false, false, false, false, false,
     [](lg::Logger &l, Args &a) { l.Error(*a.marker, a.body); }},
    {"Warn(E,B,M,C)", true, true, false, true, false, false, true,
     [](lg::Logger &l, Args &a) { l.Warn(EV(a), a.body, *a.marker, a.ctx); }},
    {"(S,B,A,A2,M)", true, true, true, false, false, false, false,
     [](lg::Logger &l, Args &a) { l.EmitLogRecord(a.sev, a.body, *a.attrs, *a.attrs2, *a.marker); }, 1},
    {"(A,M,A2,B)", false, true, true, false, false, false, false,
     [](lg::Logger &l, Args &a) { l.EmitLogRecord(*a.attrs, *a.marker, *a.attrs2, a.body); }, 1},
    {"(C,Tf2,M,B)", false, true, false, true, false, false, false,
     [](lg::Logger &l, Args &a) { l.EmitLogRecord(a.ctx, a.tf2, *a.marker, a.body); }, 2},
    {"(Tf2,C,M,B)", false, true, false, true, false, false, false,
     [](lg::Logger &l, Args &a) { l.EmitLogRecord(a.tf2, a.ctx, *a.marker, a.body); }, 3},
    {"(S,S2,B,M)", true, true, false, false, false, false, false,
     [](lg::Logger &l, Args &a) { l.EmitLogRecord(a.sev, a.sev2, a.body, *a.marker); }, 4},
    {"(S,B,map<string,string>,M)", true, true, false, false, false, false, false,
     [](lg::Logger &l, Args &a) { l.EmitLogRecord(a.sev, a.body, *a.smap, *a.marker); }, 0, 1},
    {"(vector<pair<string,string>>,M,B)", false, true, false, false, false, false, false,
     [](lg::Logger &l, Args &a) { l.EmitLogRecord(*a.svec, *a.marker, a.body); }, 0, 2},
    {"Info(B,unordered_map<string,string>,M)", true, true, false, false, false, false, false,
     [](lg::Logger &l, Args &a) { l.Info(a.body, *a.sumap, *a.marker); }, 0, 3},
};
constexpr size_t kNumForms = sizeof(kForms) / sizeof(kForms[0]);

int gen_severity(vh::Reader &rd)
{
  return 1 + static_cast<int>(rd.below(24));  // kTrace .. kFatal4
}

otel::common::SystemTimestamp ts_of(int64_t ns)
{
  return otel::common::SystemTimestamp(std::chrono::system_clock::time_point(
      std::chrono::duration_cast<std::chrono::system_clock::duration>(std::chrono::nanoseconds(ns))));
}

struct ThreadState
{
  std::vector<std::pair<tr::SpanContext, std::unique_ptr<tr::Scope>>> scopes;
};

// one emit; returns the expectation (or marker -1 when nothing must be exported)
struct EmitStats
{
  bool nonscalar = false, active_span = false, deferred_nonscalar = false;
};

void do_emit(vh::Reader &rd, Setup &s, ThreadState &ts, int64_t marker, std::vector<Expected> &expected,
             std::string &notes, EmitStats &st, std::vector<std::unique_ptr<sg::Arena>> &parked,
             const std::string &label)
{
  std::unique_ptr<sg::Arena> arena(new sg::Arena());
  sg::Arena &a = *arena;
  size_t li    = rd.below(static_cast<uint32_t>(s.loggers.size()));
  LoggerInfo &L = s.loggers[li];
  Expected e;
  e.marker      = marker;
  e.logger      = static_cast<int>(li);
  e.severity    = static_cast<int>(lg::Severity::kInvalid);
  e.body_given  = false;
  e.ts_given    = false;
  e.ts_ns       = 0;
  e.event_given = false;
  e.event_id    = 0;
  e.trace_id    = std::string(32, '0');
  e.span_id     = std::string(16, '0');
  e.flags       = 0;
  tr::SpanContext active = tr::SpanContext::GetInvalid();
  if (!ts.scopes.empty())
  {
    active         = ts.scopes.back().first;
    st.active_span = true;
  }
  auto set_identity = [&](const tr::SpanContext &cx) {
    e.trace_id = sg::hex(cx.trace_id());
    e.span_id  = sg::hex(cx.span_id());
    e.flags    = cx.trace_flags().flags();
  };
  if (active.IsValid())
    set_identity(active);

  sg::MValue body      = sg::gen_value(rd);
  sg::KVList attr_list = sg::gen_kvlist(rd, 5);
  sg::KVList marker_l  = {{"vh.marker", sg::MValue(marker)}};
  tr::SpanContext xctx = sg::gen_span_context(rd, true);
  int sev              = gen_severity(rd);
  int64_t ts_ns        = 1650000000000000000ll + static_cast<int64_t>(rd.u32());
  int64_t ev_id        = static_cast<int64_t>(rd.u32()) - 1000;
  std::string ev_name  = rd.coin() ? "" : sg::gen_bytes(rd, 30);
  if (ev_name.find('\0') != std::string::npos)
    ev_name = "evt";  // EventId copies its name as a C string by design
  bool null_record = rd.chance(5);
  size_t style     = rd.weighted({6, 4});
  bool nonscalar   = body.index() >= 6;
  for (auto &kv : attr_list)
    nonscalar = nonscalar || kv.second.index() >= 6;

  std::string what;
  if (style == 0)
  {
    const Form *fp = &kForms[rd.below(kNumForms)];
    if (fp->owning && s.any_batch)
      fp = &kForms[0];  // deferred export would outlive the container (and is finding F5 anyway)
    const Form &f = *fp;
    what          = std::string("Emit") + f.name;
    Args args;
    args.sev  = static_cast<lg::Severity>(sev);
    args.body = sg::to_api(body, a, rd.coin());
    sg::ArenaKV akv(attr_list, a, rd.coin());
    sg::ArenaKV mkv(marker_l, a);
    // a second container that re-binds up to two keys of the first one and adds one of its own
    sg::KVList attr_list2;
    for (size_t q = 0; q < attr_list.size() && q < 2; ++q)
      attr_list2.emplace_back(attr_list[q].first, sg::MValue(static_cast<int64_t>(1000 + q)));
    attr_list2.emplace_back("second.only", sg::MValue(true));
    sg::ArenaKV akv2(attr_list2, a);
    args.attrs2 = &akv2;
    args.sev2   = static_cast<lg::Severity>(1 + (sev % 24));
    args.tf2    = tr::TraceFlags(static_cast<uint8_t>(xctx.trace_flags().flags() ^ 0x01));
    // string-owning containers with 1..3 entries (values long enough to defeat the small-string buffer
    // sometimes, so that a view into a destroyed copy points to freed heap memory)
    std::map<std::string, std::string> smap;
    std::vector<std::pair<std::string, std::string>> svec;
    std::unordered_map<std::string, std::string> sumap;
    if (f.owning)
    {
      unsigned n = 1 + rd.below(3);
      for (unsigned q = 0; q < n; ++q)
      {
        std::string k = "own" + std::to_string(q);
        std::string v = rd.coin() ? "v" + std::to_string(rd.below(100)) : std::string(20 + rd.below(40), static_cast<char>('a' + q)) + std::to_string(q);
        smap[k]  = v;
        svec.emplace_back(k, v);
        sumap[k] = v;
        e.attrs[k] = sg::MValue(v);
      }
      args.smap  = &smap;
      args.svec  = &svec;
      args.sumap = &sumap;
      notes += " " + label + "[string-owning container, " + std::to_string(n) + " entries]";
    }
    args.attrs   = &akv;
    args.marker  = &mkv;
    args.ctx     = xctx;
    args.tid     = xctx.trace_id();
    args.sid     = xctx.span_id();
    args.tf      = xctx.trace_flags();
    args.ts      = ts_of(ts_ns);
    args.ev_id   = ev_id;
    args.ev_name = ev_name;
    if (f.sev)
      e.severity = std::string(f.name).rfind("Info", 0) == 0    ? static_cast<int>(lg::Severity::kInfo)
                   : std::string(f.name).rfind("Error", 0) == 0 ? static_cast<int>(lg::Severity::kError)
                   : std::string(f.name).rfind("Warn", 0) == 0  ? static_cast<int>(lg::Severity::kWarn)
                                                                : sev;
    if (f.body)
    {
      e.body_given = true;
      e.body       = body;
    }
    if (f.attrs)
      sg::apply_last_wins(e.attrs, attr_list);
    if (f.ctx || f.ids)
      set_identity(xctx);
    if (f.ts)
    {
      e.ts_given = true;
      e.ts_ns    = ts_ns;
    }
    switch (f.overlap)
    {
      case 1:
        sg::apply_last_wins(e.attrs, attr_list2);
        break;
      case 2:
        e.flags = args.tf2.flags();
        break;
      case 3:
        break;  // the SpanContext is applied last: its flags win
      case 4:
        e.severity = static_cast<int>(args.sev2);
        break;
      default:
        break;
    }
    if (f.overlap)
      notes += " " + label + "[overlapping-arguments]";
    if (f.ev)
    {
      e.event_given = true;
      e.event_id    = ev_id;
      e.event_name  = ev_name;
    }
    f.emit(*L.logger, args);
  }
  else
  {
    // CreateLogRecord + setters in a generated order + EmitLogRecord(record)
    what = "Create+set[";
    otel::nostd::unique_ptr<lg::LogRecord> rec = L.logger->CreateLogRecord();
    // the identity is taken from the span active at creation; the active span may change before Emit
    bool switched = false;
    if (rec && rd.chance(25))
    {
      tr::SpanContext other = sg::gen_span_context(rd, true);
      otel::nostd::shared_ptr<tr::Span> sp(new tr::DefaultSpan(other));
      ts.scopes.emplace_back(other, std::unique_ptr<tr::Scope>(new tr::Scope(sp)));
      switched = true;
      what += "activate-other,";
    }
    if (rec)
    {
      unsigned nset = rd.below(8);
      for (unsigned i = 0; i < nset; ++i)
      {
        switch (rd.below(7))
        {
          case 0:
            rec->SetSeverity(static_cast<lg::Severity>(sev));
            e.severity = sev;
            what += "sev,";
            break;
          case 1:
            rec->SetBody(sg::to_api(body, a, rd.coin()));
            e.body_given = true;
            e.body       = body;
            what += "body,";
            break;
          case 2:
          {
            if (attr_list.empty())
              break;
            auto &kv = attr_list[rd.below(static_cast<uint32_t>(attr_list.size()))];
            rec->SetAttribute(a.view(kv.first), sg::to_api(kv.second, a, rd.coin()));
            e.attrs[kv.first] = kv.second;
            what += "attr,";
            break;
          }
          case 3:
            rec->SetTimestamp(ts_of(ts_ns));
            e.ts_given = true;
            e.ts_ns    = ts_ns;
            what += "ts,";
            break;
          case 4:
            rec->SetEventId(ev_id, a.view(ev_name));
            e.event_given = true;
            e.event_id    = ev_id;
            e.event_name  = ev_name;
            what += "event,";
            break;
          case 5:
            rec->SetTraceId(xctx.trace_id());
            rec->SetSpanId(xctx.span_id());
            rec->SetTraceFlags(xctx.trace_flags());
            set_identity(xctx);
            what += "ids,";
            break;
          default:
            break;
        }
      }
      rec->SetAttribute("vh.marker", marker);
    }
    what += "]";
    if (null_record)
    {
      rec.reset();
      what += " null-record";
    }
    L.logger->EmitLogRecord(std::move(rec));
    if (switched)
      ts.scopes.pop_back();
  }
  e.attrs["vh.marker"] = sg::MValue(marker);
  notes += " " + label + "#" + std::to_string(marker) + " logger" + std::to_string(li) + " " + what + " body=" +
           sg::show_mvalue(body) + " attrs=" + sg::show_kvlist(attr_list) + " active=" +
           (active.IsValid() ? sg::hex(active.span_id()) : "-") + "\n";
  if (nonscalar)
    st.nonscalar = true;
  // caller storage dies as soon as Emit has returned.  Open finding F5 (ReadWriteLogRecord keeps
  // non-owning values): with a deferred (batch) processor the storage of non-scalar values is
  // parked until the flush instead, and the re-shaping is counted.
  if (nonscalar && s.any_batch)
  {
    st.deferred_nonscalar = true;
    if (vh::excluded("F5"))
    {
      vh::count_excluded("F5");
      parked.push_back(std::move(arena));
    }
  }
  if (arena)
    arena->release();
  bool exported = L.enabled && !(style == 1 && null_record);
  if (exported)
    expected.push_back(e);
}

void compare(vh::Case &c, const Expected &e, const Captured &g, const Setup &s, const std::string &who)
{
  std::string diff;
  VH_CHECK(c, g.severity == e.severity, who << ": severity " << g.severity << " expected " << e.severity);
  if (e.body_given)
    VH_CHECK(c, sg::equals(e.body, g.body), who << ": body " << sg::show_owned(g.body) << " expected "
                                                << sg::show_mvalue(e.body));
  VH_CHECK(c, sg::maps_equal(e.attrs, g.attrs, &diff), who << ": attributes differ: " << diff);
  if (e.ts_given)
    VH_CHECK(c, g.ts_ns == e.ts_ns, who << ": timestamp " << g.ts_ns << " expected " << e.ts_ns);
  if (e.event_given)
    VH_CHECK(c, g.event_id == e.event_id && g.event_name == e.event_name,
             who << ": event " << g.event_id << "/'" << vh::show(g.event_name) << "' expected " << e.event_id
                 << "/'" << vh::show(e.event_name) << "'");
  VH_CHECK(c, g.trace_id == e.trace_id && g.span_id == e.span_id && g.flags == e.flags,
           who << ": trace identity " << g.trace_id << "/" << g.span_id << "/f" << int(g.flags) << " expected "
               << e.trace_id << "/" << e.span_id << "/f" << int(e.flags));
  const LoggerInfo &L = s.loggers[static_cast<size_t>(e.logger)];
  VH_CHECK(c, g.scope_name == L.name && g.scope_version == L.version && g.scope_schema == L.schema,
           who << ": instrumentation scope " << g.scope_name << "/" << g.scope_version << "/" << g.scope_schema
               << " expected " << L.name << "/" << L.version << "/" << L.schema);
  VH_CHECK(c, g.has_res_key && g.res_key == s.res_val, who << ": the record does not reference the provider's resource");
}

void finish(vh::Case &c, Setup &s, const std::vector<Expected> &expected,
            std::vector<std::unique_ptr<sg::Arena>> &parked)
{
  VH_CHECK(c, s.provider->ForceFlush(), "LoggerProvider::ForceFlush returned false");
  parked.clear();
  for (size_t i = 0; i < s.sinks.size(); ++i)
  {
    std::lock_guard<std::mutex> g(s.sinks[i]->mu);
    std::string who = "processor " + std::to_string(i) + (s.is_batch[i] ? " (batch)" : " (simple)");
    std::map<int64_t, const Captured *> by_marker;
    for (auto &r : s.sinks[i]->records)
    {
      VH_CHECK(c, r.marker >= 0, who << ": a record without the emit marker was exported");
      VH_CHECK(c, by_marker.emplace(r.marker, &r).second, who << ": emit #" << r.marker << " was exported twice");
    }
    VH_CHECK(c, by_marker.size() == expected.size(), who << ": " << by_marker.size() << " records exported, expected "
                                                         << expected.size());
    for (auto &e : expected)
    {
      auto it = by_marker.find(e.marker);
      VH_CHECK(c, it != by_marker.end(), who << ": emit #" << e.marker << " never reached the exporter");
      compare(c, e, *it->second, s, who + " emit #" + std::to_string(e.marker));
    }
  }
  for (auto &l : s.loggers)
    l.logger = otel::nostd::shared_ptr<lg::Logger>(nullptr);
  s.provider->Shutdown();
}

void one_scope_op(vh::Reader &rd, ThreadState &ts, std::string &notes, const std::string &label);

// 0..2 scope operations before an emit, so that "span A ends, span B starts" happens between two
// emits (a freed span's storage is then typically reused by the next span)
void maybe_scope_op(vh::Reader &rd, ThreadState &ts, std::string &notes, const std::string &label)
{
  unsigned n = static_cast<unsigned>(rd.weighted({3, 5, 3}));
  for (unsigned i = 0; i < n; ++i)
    one_scope_op(rd, ts, notes, label);
}

void one_scope_op(vh::Reader &rd, ThreadState &ts, std::string &notes, const std::string &label)
{
  size_t k = rd.weighted({2, 4, 3});
  if (k == 1)
  {
    tr::SpanContext cx = sg::gen_span_context(rd, true);
    otel::nostd::shared_ptr<tr::Span> sp(new tr::DefaultSpan(cx));
    ts.scopes.emplace_back(cx, std::unique_ptr<tr::Scope>(new tr::Scope(sp)));
    notes += " " + label + "activate " + sg::show_ctx(cx) + "\n";
  }
  else if (k == 2 && !ts.scopes.empty())
  {
    ts.scopes.pop_back();
    notes += " " + label + "deactivate\n";
  }
}
}  // namespace

VH_TARGET(log_program, 8,
          "non-trivial when a non-scalar body/attribute was emitted (its caller storage is released right "
          "after Emit), or a span was active at an emit, or 2+ processors are configured; distinct = "
          "distinct program text")
{
  Setup s = make_setup(c);
  ThreadState ts;
  std::vector<Expected> expected;
  std::vector<std::unique_ptr<sg::Arena>> parked;
  EmitStats st;
  std::string notes;
  unsigned n = 1 + c.rd.below(6);
  for (unsigned i = 0; i < n && (i < 1 || !c.rd.exhausted()); ++i)
  {
    maybe_scope_op(c.rd, ts, notes, "");
    do_emit(c.rd, s, ts, static_cast<int64_t>(i), expected, notes, st, parked, "");
  }
  ts.scopes.clear();
  c.note(notes);
  if (st.nonscalar)
    c.tag("non-scalar");
  if (st.active_span)
    c.tag("active-span");
  if (st.deferred_nonscalar)
    c.tag("non-scalar+deferred-export");
  c.nontrivial = st.nonscalar || st.active_span || s.sinks.size() >= 2;
  finish(c, s, expected, parked);
}

VH_TARGET(log_threads, 10,
          "2..3 real threads, each with its own active spans, emit concurrently; non-trivial when 2+ "
          "threads emitted with an active span; distinct = distinct program text")
{
  Setup s     = make_setup(c);
  unsigned nt = 2 + c.rd.below(2);
  std::vector<std::vector<uint8_t>> slices(nt);
  for (unsigned t = 0; t < nt; ++t)
  {
    std::string b = c.rd.bytes(60 + c.rd.below(160));
    slices[t].assign(b.begin(), b.end());
  }
  std::vector<std::vector<Expected>> expected(nt);
  std::vector<std::string> notes(nt);
  std::vector<EmitStats> st(nt);
  std::vector<std::vector<std::unique_ptr<sg::Arena>>> parked(nt);
  std::vector<std::thread> ths;
  for (unsigned t = 0; t < nt; ++t)
    ths.emplace_back([&, t]() {
      vh::Reader rd(slices[t].data(), slices[t].size());
      ThreadState ts;
      unsigned n = 1 + rd.below(4);
      for (unsigned i = 0; i < n; ++i)
      {
        maybe_scope_op(rd, ts, notes[t], "T" + std::to_string(t) + " ");
        do_emit(rd, s, ts, static_cast<int64_t>(t * 1000 + i), expected[t], notes[t], st[t], parked[t],
                "T" + std::to_string(t) + " ");
      }
      ts.scopes.clear();
    });
  for (auto &th : ths)
    th.join();
  std::vector<Expected> all;
  std::vector<std::unique_ptr<sg::Arena>> all_parked;
  unsigned with_span = 0;
  for (unsigned t = 0; t < nt; ++t)
  {
    c.note(notes[t]);
    for (auto &e : expected[t])
      all.push_back(e);
    for (auto &p : parked[t])
      all_parked.push_back(std::move(p));
    if (st[t].active_span)
      ++with_span;
  }
  c.tag("threads-" + std::to_string(nt));
  c.nontrivial = with_span >= 2;
  finish(c, s, all, all_parked);
}

// Fixed witness of open finding F5 (independent of the generators, so decoder changes cannot
// invalidate it): one batch processor, EmitLogRecord(severity, string body, string attribute), the
// caller's storage is scribbled and freed when Emit returns, then the provider is flushed.
VH_TARGET(f5_witness, 1, "fixed witness case of known finding F5 (not part of the search)")
{
  c.note("batch processor; EmitLogRecord(kInfo, 'body-string', {k='attr-string'}); storage freed after Emit; ForceFlush\n");
  auto sink = std::make_shared<Sink>();
  sdkl::BatchLogRecordProcessorOptions o;
  o.schedule_delay_millis = std::chrono::milliseconds(5);
  std::unique_ptr<sdkl::LogRecordProcessor> proc(new sdkl::BatchLogRecordProcessor(
      std::unique_ptr<sdkl::LogRecordExporter>(new CaptureExporter(sink)), o));
  auto provider = std::make_shared<sdkl::LoggerProvider>(std::move(proc));
  auto logger   = provider->GetLogger("w", "lib");
  sg::KVList attrs = {{"k", sg::MValue(std::string("attr-string-0123456789"))}};
  sg::MValue body  = sg::MValue(std::string("body-string-0123456789"));
  {
    sg::Arena a;
    sg::ArenaKV akv(attrs, a);
    const otel::common::KeyValueIterable &kvi = akv;
    logger->EmitLogRecord(lg::Severity::kInfo, sg::to_api(body, a), kvi);
    a.release();
  }
  provider->ForceFlush();
  std::lock_guard<std::mutex> g(sink->mu);
  VH_CHECK(c, sink->records.size() == 1, "expected one exported record, got " << sink->records.size());
  VH_CHECK(c, sg::equals(body, sink->records[0].body), "body " << sg::show_owned(sink->records[0].body)
                                                               << " expected " << sg::show_mvalue(body));
  sg::KVMap m;
  sg::apply_last_wins(m, attrs);
  std::string diff;
  VH_CHECK(c, sg::maps_equal(m, sink->records[0].attrs, &diff), "attributes differ: " << diff);
}

// C13  An exported log record carries what was emitted, correlated with the active span.
//
// Targets
//   log_program  a generated sequence of emits through (a) the variadic EmitLogRecord(args...) in a
//                precompiled family of argument orders, (b) CreateLogRecord + setters +
//                EmitLogRecord(record), (c) the severity helpers; bodies/attributes over every value
//                alternative with short-lived caller storage; nested active spans; explicit
//                SpanContext / TraceId / SpanId / TraceFlags; simple, batch and 1..3 mixed
//                processors; enabled and disabled loggers; null records.
//                Argument kinds of the variadic family: body as AttributeValue / string_view / const char* /
//                string literal / std::string / bare scalar; timestamp as SystemTimestamp / time_point;
//                attributes as KeyValueIterable / MakeAttributes span / initializer_list / std containers;
//                EventId with and without a name; partial explicit identity (TraceId / SpanId / TraceFlags
//                alone); EmitLogRecord(record, args...) after manual setters; the NON-template virtual
//                Log(...) family and the Trace..Fatal(message | format,attrs | id,format,attrs) overloads.
//                Active "span" kinds: DefaultSpan (valid / invalid-but-non-zero context), a SpanContext
//                stored under the span key, a null pointer / non-span value under the span key, an
//                unrelated key attached on top, real SDK spans (recording, ended, dropped by the sampler).
//                Multi-step forms: a record created by one logger and emitted through ANOTHER logger of the
//                same provider (enabled->enabled: exported once, scope of either logger; enabled->disabled
//                and disabled->disabled: nothing; disabled->enabled is undefined behaviour in the unchanged
//                library and not generated); processors held back at construction and added later with
//                LoggerProvider::AddProcessor - before the first emit, between two emits, and BETWEEN
//                CreateLogRecord and EmitLogRecord (0->1, 1->2, 2->3, ...): a processor that was configured
//                when the record was created must get it exactly once with the full content, one added
//                later may or may not (if it does: full content); an exporter must only ever be handed
//                recordables of the type its own MakeRecordable() returns.  Scope configurator shapes:
//                everything enabled except "off" / everything disabled except an allow list.
//                Span churn burst: emit under span A, A is released (freed), span B starts at once (for a
//                DefaultSpan the harness places B at A's address; SDK spans rely on the runs without
//                quarantine), emit under B: the record carries B's ids.
//   log_threads  2..3 real threads with their own active spans emit concurrently
//   f5_witness / eventid_noname_witness   fixed witness cases (replay only, no search budget)
// Oracle: a reference record model compared INSIDE each exporter's Export with the getters of the
// SDK's ReadWriteLogRecord; values are copied out of the record's views by the harness' own visitor.
#include <atomic>
#include <chrono>
#include <memory>
#include <mutex>
#include <new>
#include <set>
#include <unordered_map>
#include <thread>

#include "opentelemetry/common/key_value_iterable_view.h"
#include "opentelemetry/context/runtime_context.h"
#include "opentelemetry/logs/event_id.h"
#include "opentelemetry/logs/logger.h"
#include "opentelemetry/logs/severity.h"
#include "opentelemetry/sdk/instrumentationscope/scope_configurator.h"
#include "opentelemetry/sdk/logs/batch_log_record_processor.h"
#include "opentelemetry/sdk/logs/batch_log_record_processor_options.h"
#include "opentelemetry/sdk/logs/exporter.h"
#include "opentelemetry/sdk/logs/logger_config.h"
#include "opentelemetry/sdk/logs/logger_provider.h"
#include "opentelemetry/sdk/logs/read_write_log_record.h"
#include "opentelemetry/sdk/logs/simple_log_record_processor.h"
#include "opentelemetry/sdk/resource/resource.h"
#include "opentelemetry/sdk/trace/id_generator.h"
#include "opentelemetry/sdk/trace/processor.h"
#include "opentelemetry/sdk/trace/sampler.h"
#include "opentelemetry/sdk/trace/span_data.h"
#include "opentelemetry/sdk/trace/tracer_provider.h"
#include "opentelemetry/trace/default_span.h"
#include "opentelemetry/trace/scope.h"
#include "opentelemetry/trace/span_metadata.h"
#include "sdkgen.h"
#include "vh.h"

const char *vh_property_id = "C13";

namespace
{
namespace otel = opentelemetry;
namespace sdkl = opentelemetry::sdk::logs;
namespace lg   = opentelemetry::logs;
namespace tr   = opentelemetry::trace;

// what the exporter saw, copied inside Export
struct Captured
{
  int severity;
  bool body_is_set;
  otel::sdk::common::OwnedAttributeValue body;  // converted INSIDE Export from the record's view
  std::unordered_map<std::string, otel::sdk::common::OwnedAttributeValue> attrs;
  int64_t ts_ns, event_id;
  std::string event_name, trace_id, span_id, scope_name, scope_version, scope_schema;
  uint8_t flags;
  int64_t res_key;
  bool has_res_key;
  int64_t marker;  // attribute "vh.marker": which emit this is
  // the exporter was handed a recordable that is not of the type its own MakeRecordable() returns
  // (every in-tree exporter static_casts what it gets): nothing was read from it
  bool foreign = false;
};

struct Sink
{
  std::mutex mu;
  std::vector<Captured> records;
};

// the record's (non-owning) value -> an owned copy, written from the AttributeValue alternatives
// alone (not the SDK's AttributeConverter): the oracle does not depend on the SDK's conversion code
struct ToOwned
{
  using O = otel::sdk::common::OwnedAttributeValue;
  O operator()(bool v) const { return O(v); }
  O operator()(int32_t v) const { return O(v); }
  O operator()(uint32_t v) const { return O(v); }
  O operator()(int64_t v) const { return O(v); }
  O operator()(uint64_t v) const { return O(v); }
  O operator()(double v) const { return O(v); }
  O operator()(const char *s) const { return O(std::string(s ? s : "")); }
  O operator()(otel::nostd::string_view s) const
  {
    return O(s.size() ? std::string(s.data(), s.size()) : std::string());
  }
  O operator()(otel::nostd::span<const otel::nostd::string_view> a) const
  {
    std::vector<std::string> v;
    for (auto &s : a)
      v.push_back(s.size() ? std::string(s.data(), s.size()) : std::string());
    return O(std::move(v));
  }
  template <class T>
  O operator()(otel::nostd::span<const T> a) const
  {
    return O(std::vector<T>(a.begin(), a.end()));
  }
};

// message-only overloads (Log(severity, message), Info(message) ...) carry no attributes: the emit
// marker travels at the front of the message instead
const char kBodyMarker[] = "vh.marker=";

class CaptureExporter final : public sdkl::LogRecordExporter
{
public:
  explicit CaptureExporter(std::shared_ptr<Sink> s) : sink_(std::move(s)) {}
  std::unique_ptr<sdkl::Recordable> MakeRecordable() noexcept override
  {
    return std::unique_ptr<sdkl::Recordable>(new sdkl::ReadWriteLogRecord());
  }
  otel::sdk::common::ExportResult Export(
      const otel::nostd::span<std::unique_ptr<sdkl::Recordable>> &batch) noexcept override
  {
    std::lock_guard<std::mutex> g(sink_->mu);
    ToOwned conv;
    for (auto &r : batch)
    {
      Captured c;
      sdkl::ReadWriteLogRecord *own = dynamic_cast<sdkl::ReadWriteLogRecord *>(r.get());
      if (own == nullptr)
      {
        c.severity = 0;
        c.body_is_set = false;
        c.ts_ns = c.event_id = c.res_key = 0;
        c.flags       = 0;
        c.has_res_key = false;
        c.marker      = -1;
        c.foreign     = true;
        sink_->records.push_back(std::move(c));
        continue;
      }
      auto &d = *own;
      c.severity    = static_cast<int>(d.GetSeverity());
      c.body        = otel::nostd::visit(conv, d.GetBody());
      c.body_is_set = true;
      c.marker      = -1;
      for (auto &kv : d.GetAttributes())
      {
        c.attrs[kv.first] = otel::nostd::visit(conv, kv.second);
        if (kv.first == "vh.marker" && otel::nostd::holds_alternative<int64_t>(kv.second))
          c.marker = otel::nostd::get<int64_t>(kv.second);
      }
      if (c.marker < 0 && otel::nostd::holds_alternative<std::string>(c.body))
      {
        const std::string &b = otel::nostd::get<std::string>(c.body);
        size_t semi          = b.find(';');
        if (b.compare(0, sizeof(kBodyMarker) - 1, kBodyMarker) == 0 && semi != std::string::npos &&
            semi > sizeof(kBodyMarker) - 1 && semi < sizeof(kBodyMarker) + 8)
        {
          int64_t m = 0;
          bool ok   = true;
          for (size_t q = sizeof(kBodyMarker) - 1; q < semi; ++q)
          {
            ok = ok && b[q] >= '0' && b[q] <= '9';
            m  = m * 10 + (b[q] - '0');
          }
          if (ok)
            c.marker = m;
        }
      }
      c.ts_ns      = d.GetTimestamp().time_since_epoch().count();
      c.event_id   = d.GetEventId();
      c.event_name = std::string(d.GetEventName().data(), d.GetEventName().size());
      c.trace_id   = sg::hex(d.GetTraceId());
      c.span_id    = sg::hex(d.GetSpanId());
      c.flags      = d.GetTraceFlags().flags();
      auto &scope  = d.GetInstrumentationScope();
      c.scope_name = scope.GetName();
      c.scope_version = scope.GetVersion();
      c.scope_schema  = scope.GetSchemaURL();
      c.has_res_key   = false;
      c.res_key       = 0;
      auto &ra        = d.GetResource().GetAttributes();
      auto it         = ra.find("res.key");
      if (it != ra.end() && otel::nostd::holds_alternative<int64_t>(it->second))
      {
        c.has_res_key = true;
        c.res_key     = otel::nostd::get<int64_t>(it->second);
      }
      sink_->records.push_back(std::move(c));
    }
    return otel::sdk::common::ExportResult::kSuccess;
  }
  bool ForceFlush(std::chrono::microseconds) noexcept override { return true; }
  bool Shutdown(std::chrono::microseconds) noexcept override { return true; }

private:
  std::shared_ptr<Sink> sink_;
};

struct Expected
{
  int64_t marker;
  int severity;
  bool body_given;
  sg::MValue body;
  sg::KVMap attrs;
  bool ts_given;
  int64_t ts_ns;
  bool event_given;
  int64_t event_id;
  std::string event_name;
  std::string trace_id, span_id;
  uint8_t flags;
  // second admissible identity (two-sided): the active span's context was INVALID but not all-zero -
  // "carries that span's ids" (verbatim copy) and "no active span => all-zero" are both defensible
  bool has_alt = false;
  std::string alt_trace_id, alt_span_id;
  uint8_t alt_flags = 0;
  bool marker_attr = true;  // false: message-only overload, the marker is at the front of the body
  int logger;               // which logger (scope) emitted it
  // the record was CREATED by another logger of the same provider (-1: by the emitting one).  The
  // statement does not say whose scope such a record carries: either one is accepted.
  int creator = -1;
  // processors [0, must_reach) were configured when the record was created: each of them must get it
  // exactly once.  A processor added later (AddProcessor between CreateLogRecord and EmitLogRecord, or
  // after the emit) may or may not get it; if it does, the content must be complete.
  size_t must_reach = 0;
  // false: nothing may reach any exporter (null record, or emitted through a disabled logger)
  bool exported          = true;
  const char *why_silent = "";
};

struct LoggerInfo
{
  otel::nostd::shared_ptr<lg::Logger> logger;
  std::string name, version, schema;
  bool enabled;
};

struct Setup
{
  std::vector<std::shared_ptr<Sink>> sinks;  // one per processor, configured or still held back
  std::vector<bool> is_batch;
  bool any_batch = false;  // over ALL processors (also the held back ones)
  std::shared_ptr<sdkl::LoggerProvider> provider;
  std::vector<LoggerInfo> loggers;
  int64_t res_val = 0;
  // processors [0, configured) are part of the provider; pending[k] owns sink configured + k and
  // joins the provider through LoggerProvider::AddProcessor at a point the program chooses
  size_t configured = 0;
  std::vector<std::unique_ptr<sdkl::LogRecordProcessor>> pending;
};

// LoggerProvider::AddProcessor of the next held back processor (not thread safe by contract: only
// ever called while no other thread uses the provider)
bool add_pending(Setup &s, std::string &notes, const std::string &label, const char *when)
{
  if (s.pending.empty())
    return false;
  std::unique_ptr<sdkl::LogRecordProcessor> p = std::move(s.pending.front());
  s.pending.erase(s.pending.begin());
  notes += " " + label + "AddProcessor(" + (s.is_batch[s.configured] ? "batch" : "simple") + ") " +
           std::to_string(s.configured) + "->" + std::to_string(s.configured + 1) + " " + when + "\n";
  s.provider->AddProcessor(std::move(p));
  ++s.configured;
  return true;
}

Setup make_setup(vh::Case &c)
{
  vh::Reader &rd = c.rd;
  Setup s;
  unsigned np = 1 + static_cast<unsigned>(rd.weighted({5, 3, 2}));
  std::vector<std::unique_ptr<sdkl::LogRecordProcessor>> procs;
  std::string desc = "processors=[";
  for (unsigned i = 0; i < np; ++i)
  {
    auto sink = std::make_shared<Sink>();
    s.sinks.push_back(sink);
    bool batch = rd.chance(40);
    s.is_batch.push_back(batch);
    s.any_batch = s.any_batch || batch;
    std::unique_ptr<sdkl::LogRecordExporter> ex(new CaptureExporter(sink));
    if (batch)
    {
      sdkl::BatchLogRecordProcessorOptions o;
      o.max_queue_size        = 64;
      o.max_export_batch_size = 16;
      o.schedule_delay_millis = std::chrono::milliseconds(5);
      procs.emplace_back(new sdkl::BatchLogRecordProcessor(std::move(ex), o));
    }
    else
      procs.emplace_back(new sdkl::SimpleLogRecordProcessor(std::move(ex)));
    desc += batch ? "batch " : "simple ";
  }
  s.res_val     = static_cast<int64_t>(rd.below(100));
  auto resource = otel::sdk::resource::Resource::Create({{"service.name", "vh-c13"}, {"res.key", s.res_val}});
  // scope "off" is disabled by the configurator, the scopes "lib<i>" are enabled: either everything is
  // enabled except "off", or everything is disabled except the names "lib0".."lib2"
  using Cfg = otel::sdk::instrumentationscope::ScopeConfigurator<sdkl::LoggerConfig>;
  const bool allow_list = rd.chance(25);
  std::unique_ptr<Cfg> configurator;
  if (allow_list)
    configurator = std::make_unique<Cfg>(Cfg::Builder(sdkl::LoggerConfig::Disabled())
                                             .AddConditionNameEquals("lib0", sdkl::LoggerConfig::Default())
                                             .AddConditionNameEquals("lib1", sdkl::LoggerConfig::Default())
                                             .AddConditionNameEquals("lib2", sdkl::LoggerConfig::Default())
                                             .Build());
  else
    configurator = std::make_unique<Cfg>(Cfg::Builder(sdkl::LoggerConfig::Default())
                                             .AddConditionNameEquals("off", sdkl::LoggerConfig::Disabled())
                                             .Build());
  if (allow_list)
  {
    c.tag("configurator:disabled-by-default+allow-list");
    desc += "(configurator: disabled by default, lib0..2 enabled) ";
  }
  // the last `held` processors are not given to the constructor: they join later through
  // LoggerProvider::AddProcessor (held == np: the provider starts with no processor at all)
  size_t held = rd.weighted({12, 2, 1, 1});
  if (held > np)
    held = np;
  for (size_t k = np - held; k < np; ++k)
    s.pending.push_back(std::move(procs[k]));
  procs.resize(np - held);
  s.configured = np - held;
  if (held)
  {
    desc += "(the last " + std::to_string(held) + " added later) ";
    c.tag("processors-added-later");
    if (s.configured == 0)
      c.tag("provider-starts-with-0-processors");
  }
  s.provider = std::make_shared<sdkl::LoggerProvider>(std::move(procs), resource, std::move(configurator));
  unsigned nl = 1 + rd.below(3);
  for (unsigned i = 0; i < nl; ++i)
  {
    LoggerInfo li;
    li.enabled = !(i > 0 && rd.chance(35));
    li.name    = li.enabled ? "lib" + std::to_string(i) : "off";
    li.version = rd.coin() ? "" : "2." + std::to_string(i);
    li.schema  = rd.coin() ? "" : "https://schema/" + std::to_string(i);
    sg::Arena a;
    li.logger = s.provider->GetLogger(a.view("logger" + std::to_string(i)), a.view(li.name), a.view(li.version),
                                      a.view(li.schema));
    s.loggers.push_back(li);
    desc += "] logger" + std::to_string(i) + "=" + li.name + "/" + li.version + "/" + li.schema;
    if (!li.enabled)
      c.tag("disabled-logger");
  }
  c.note(desc + " res.key=" + std::to_string(s.res_val) + "\n");
  if (np >= 2)
    c.tag("2+processors");
  if (s.any_batch)
    c.tag("has-batch-processor");
  return s;
}

// ------------------------------------------------------------------------------------------------
// Finding "C13-eventid-noname" (FIXED in /repo 57cc648): an EventId built WITHOUT a name
// (EventId(int64_t); Log/Trace..Fatal(int64_t event_id, format, attributes)) made
// LogRecordSetterTrait<EventId>::Set evaluate nostd::string_view{nullptr} = strlen(nullptr).
// The shape is generated; were the finding ever listed as open again, the generator would give
// such an EventId the empty NAME instead.  Witness independent of the generators: target
// eventid_noname_witness (replays/C13/C13-eventid-noname.json).
const bool kHoldBack_eventid_noname = false;

bool eventid_noname_allowed()
{
  if (vh::excluded("C13-eventid-noname"))
  {
    vh::count_excluded("C13-eventid-noname");
    return false;
  }
  return !kHoldBack_eventid_noname;
}

// ------------------------------------------------------------------------------------------------
// the variadic family: each entry emits with one fixed argument order
using PairVec = std::vector<std::pair<otel::nostd::string_view, otel::common::AttributeValue>>;
struct Args
{
  lg::Severity sev;
  otel::common::AttributeValue body;
  const otel::common::KeyValueIterable *attrs;
  const otel::common::KeyValueIterable *marker;  // {"vh.marker": n}
  const otel::common::KeyValueIterable *attrs2;  // a second container re-binding some keys of attrs
  // containers that OWN their strings, passed as such (the API iterates them and stores views)
  std::map<std::string, std::string> *smap                        = nullptr;
  std::vector<std::pair<std::string, std::string>> *svec          = nullptr;
  std::unordered_map<std::string, std::string> *sumap             = nullptr;
  lg::Severity sev2;
  tr::TraceFlags tf2;
  tr::SpanContext ctx = tr::SpanContext::GetInvalid();
  tr::TraceId tid;
  tr::SpanId sid;
  tr::TraceFlags tf;
  otel::common::SystemTimestamp ts;
  int64_t ev_id;
  std::string ev_name;
  // --- argument kinds added later
  std::chrono::system_clock::time_point tp;
  otel::nostd::string_view fmt;            // body / message / format as a string_view lvalue
  const char *body_cstr         = nullptr;  // body as a NUL terminated C string
  std::string *body_str         = nullptr;  // body as a std::string lvalue (dies after Emit)
  const sg::MValue *scalar      = nullptr;  // body as a bare bool / int32_t / ... / double
  otel::common::AttributeValue body2;       // a second body argument (the later one wins)
  const otel::common::KeyValueIterable *attrs_m = nullptr;  // attrs + marker in ONE iterable
  PairVec *pvec                                 = nullptr;  // attrs as pairs of (view, AttributeValue)
  std::map<std::string, otel::common::AttributeValue> *avmap = nullptr;
  std::map<std::string, int> *imap                           = nullptr;
  otel::nostd::string_view ilk1, ilk2;      // initializer_list entries
  otel::common::AttributeValue ilv1, ilv2;
  int helper      = 0;      // 0..5 = Trace, Debug, Info, Warn, Error, Fatal
  bool noname_ok  = false;  // see kHoldBack_eventid_noname
};

enum BodyKind
{
  BK_AV = 0,     // AttributeValue lvalue
  BK_VIEW,       // nostd::string_view lvalue
  BK_CSTR,       // const char *
  BK_LITERAL,    // string literal
  BK_STDSTRING,  // std::string lvalue
  BK_SCALAR,     // bare bool / int32_t / uint32_t / int64_t / uint64_t / double
  BK_MSG         // string_view message that starts with the emit marker (overloads without attributes)
};
enum AttrKind
{
  AK_KVI = 0,  // KeyValueIterable
  AK_SPAN,     // MakeAttributes(span<const pair<string_view, AttributeValue>>)
  AK_ILIST,    // MakeAttributes({{k, v}, {k, v}})
  AK_AVMAP,    // std::map<std::string, AttributeValue>
  AK_INTMAP,   // std::map<std::string, int>
  AK_PAIRVEC,  // std::vector<std::pair<string_view, AttributeValue>>
  AK_VIEW      // MakeAttributes(container) = KeyValueIterableView<container> temporary
};
enum FormFlags
{
  kEvNoName = 1,  // the EventId has no name (defect candidate C13-eventid-noname)
  kHelper   = 2,  // severity helper selected by Args::helper
  kNonTmpl  = 4,  // resolves to a NON-template overload (virtual Log / the wrappers built on it)
  kTimePt   = 8   // the timestamp is passed as system_clock::time_point
};

struct Form
{
  const char *name;
  bool sev, body, attrs, ctx, ids, ts, ev;
  void (*emit)(lg::Logger &, Args &);
  // arguments of one call that write the same field: they apply left to right (last one wins)
  // 0 none, 1 attrs then attrs2, 2 ctx then tf2, 3 tf2 then ctx, 4 sev then sev2, 5 body then body2
  int overlap = 0;
  // 1 std::map<string,string>, 2 vector<pair<string,string>>, 3 unordered_map<string,string> passed
  // directly (only used when every processor exports inside Emit: the container is alive then)
  int owning = 0;
  int partial  = 0;  // explicit identity supplied only in part: bit 1 TraceId, 2 SpanId, 4 TraceFlags
  int bodykind = BK_AV;
  int attrkind = AK_KVI;
  int flags    = 0;
};

const lg::Severity kHelperSeverity[6] = {lg::Severity::kTrace, lg::Severity::kDebug, lg::Severity::kInfo,
                                         lg::Severity::kWarn,  lg::Severity::kError, lg::Severity::kFatal};
const char *const kHelperName[6]      = {"Trace", "Debug", "Info", "Warn", "Error", "Fatal"};

// every argument is an lvalue of exactly the parameter type of one NON-template overload, so overload
// resolution ties with the variadic template and the non-template wins
template <class... T>
void call_helper(lg::Logger &l, int h, T &...t)
{
  switch (h)
  {
    case 0:
      l.Trace(t...);
      break;
    case 1:
      l.Debug(t...);
      break;
    case 2:
      l.Info(t...);
      break;
    case 3:
      l.Warn(t...);
      break;
    case 4:
      l.Error(t...);
      break;
    default:
      l.Fatal(t...);
      break;
  }
}

// body passed as a bare scalar of its own C++ type
template <class Fn>
void with_scalar(const sg::MValue &m, Fn &&fn)
{
  switch (m.index())
  {
    case 0:
    {
      bool v = std::get<0>(m);
      fn(v);
      break;
    }
    case 1:
    {
      int32_t v = std::get<1>(m);
      fn(v);
      break;
    }
    case 2:
    {
      uint32_t v = std::get<2>(m);
      fn(v);
      break;
    }
    case 3:
    {
      int64_t v = std::get<3>(m);
      fn(v);
      break;
    }
    case 4:
    {
      uint64_t v = std::get<4>(m);
      fn(v);
      break;
    }
    default:
    {
      double v = std::get<5>(m);
      fn(v);
      break;
    }
  }
}

#define EV(a) lg::EventId((a).ev_id, (a).ev_name)
// an EventId without a name (with the empty name while the defect candidate is held back)
#define EV0(a) ((a).noname_ok ? lg::EventId((a).ev_id) : lg::EventId((a).ev_id, ""))
#define PSPAN(a) \
  otel::common::MakeAttributes(otel::nostd::span<const PairVec::value_type>((a).pvec->data(), (a).pvec->size()))
const Form kForms[] = {
    {"(S,B,M)", true, true, false, false, false, false, false,
     [](lg::Logger &l, Args &a) { l.EmitLogRecord(a.sev, a.body, *a.marker); }},
    {"(B,M,S)", true, true, false, false, false, false, false,
     [](lg::Logger &l, Args &a) { l.EmitLogRecord(a.body, *a.marker, a.sev); }},
    {"(S,B,A,M)", true, true, true, false, false, false, false,
     [](lg::Logger &l, Args &a) { l.EmitLogRecord(a.sev, a.body, *a.attrs, *a.marker); }},
    {"(A,M,B,S)", true, true, true, false, false, false, false,
     [](lg::Logger &l, Args &a) { l.EmitLogRecord(*a.attrs, *a.marker, a.body, a.sev); }},
    {"(S,B,A,M,C)", true, true, true, true, false, false, false,
     [](lg::Logger &l, Args &a) { l.EmitLogRecord(a.sev, a.body, *a.attrs, *a.marker, a.ctx); }},
    {"(C,A,M,B,S)", true, true, true, true, false, false, false,
     [](lg::Logger &l, Args &a) { l.EmitLogRecord(a.ctx, *a.attrs, *a.marker, a.body, a.sev); }},
    {"(S,B,M,T)", true, true, false, false, false, true, false,
     [](lg::Logger &l, Args &a) { l.EmitLogRecord(a.sev, a.body, *a.marker, a.ts); }},
    {"(T,S,B,A,M,E)", true, true, true, false, false, true, true,
     [](lg::Logger &l, Args &a) { l.EmitLogRecord(a.ts, a.sev, a.body, *a.attrs, *a.marker, EV(a)); }},
    {"(E,S,B,M)", true, true, false, false, false, false, true,
     [](lg::Logger &l, Args &a) { l.EmitLogRecord(EV(a), a.sev, a.body, *a.marker); }},
    {"(S,A,M)", true, false, true, false, false, false, false,
     [](lg::Logger &l, Args &a) { l.EmitLogRecord(a.sev, *a.attrs, *a.marker); }},
    {"(B,M)", false, true, false, false, false, false, false,
     [](lg::Logger &l, Args &a) { l.EmitLogRecord(a.body, *a.marker); }},
    {"(S,B,M,Tid,Sid,Tf)", true, true, false, false, true, false, false,
     [](lg::Logger &l, Args &a) { l.EmitLogRecord(a.sev, a.body, *a.marker, a.tid, a.sid, a.tf); }},
    {"(Tf,Sid,Tid,M,B,S)", true, true, false, false, true, false, false,
     [](lg::Logger &l, Args &a) { l.EmitLogRecord(a.tf, a.sid, a.tid, *a.marker, a.body, a.sev); }},
    {"(S,B,C,T,E,A,M)", true, true, true, true, false, true, true,
     [](lg::Logger &l, Args &a) { l.EmitLogRecord(a.sev, a.body, a.ctx, a.ts, EV(a), *a.attrs, *a.marker); }},
    {"Info(B,A,M)", true, true, true, false, false, false, false,
     [](lg::Logger &l, Args &a) { l.Info(a.body, *a.attrs, *a.marker); }},
    {"Error(M,B)", true, true, false, false, false, false, false,
     [](lg::Logger &l, Args &a) { l.Error(*a.marker, a.body); }},
    {"Warn(E,B,M,C)", true, true, false, true, false, false, true,
     [](lg::Logger &l, Args &a) { l.Warn(EV(a), a.body, *a.marker, a.ctx); }},
    {"(S,B,A,A2,M)", true, true, true, false, false, false, false,
     [](lg::Logger &l, Args &a) { l.EmitLogRecord(a.sev, a.body, *a.attrs, *a.attrs2, *a.marker); }, 1},
    {"(A,M,A2,B)", false, true, true, false, false, false, false,
     [](lg::Logger &l, Args &a) { l.EmitLogRecord(*a.attrs, *a.marker, *a.attrs2, a.body); }, 1},
    {"(C,Tf2,M,B)", false, true, false, true, false, false, false,
     [](lg::Logger &l, Args &a) { l.EmitLogRecord(a.ctx, a.tf2, *a.marker, a.body); }, 2},
    {"(Tf2,C,M,B)", false, true, false, true, false, false, false,
     [](lg::Logger &l, Args &a) { l.EmitLogRecord(a.tf2, a.ctx, *a.marker, a.body); }, 3},
    {"(S,S2,B,M)", true, true, false, false, false, false, false,
     [](lg::Logger &l, Args &a) { l.EmitLogRecord(a.sev, a.sev2, a.body, *a.marker); }, 4},
    {"(S,B,map<string,string>,M)", true, true, false, false, false, false, false,
     [](lg::Logger &l, Args &a) { l.EmitLogRecord(a.sev, a.body, *a.smap, *a.marker); }, 0, 1},
    {"(vector<pair<string,string>>,M,B)", false, true, false, false, false, false, false,
     [](lg::Logger &l, Args &a) { l.EmitLogRecord(*a.svec, *a.marker, a.body); }, 0, 2},
    {"Info(B,unordered_map<string,string>,M)", true, true, false, false, false, false, false,
     [](lg::Logger &l, Args &a) { l.Info(a.body, *a.sumap, *a.marker); }, 0, 3},
    // ---------------------------------------------------------------------------------------------
    // added by the strengthening round; name, sev, body, attrs, ctx, ids, ts, ev, emit, overlap, owning,
    // partial, bodykind, attrkind, flags
    // --- EventId without a name
    {"(E0,S,B,M)", true, true, false, false, false, false, true,
     [](lg::Logger &l, Args &a) { l.EmitLogRecord(EV0(a), a.sev, a.body, *a.marker); }, 0, 0, 0, BK_AV, AK_KVI,
     kEvNoName},
    {"(S,B,A,M,E0,T)", true, true, true, false, false, true, true,
     [](lg::Logger &l, Args &a) { l.EmitLogRecord(a.sev, a.body, *a.attrs, *a.marker, EV0(a), a.ts); }, 0, 0, 0,
     BK_AV, AK_KVI, kEvNoName},
    // --- the non-template virtual Log(...) family
    {"Log(S,E,fmt,A+M)", true, true, true, false, false, false, true,
     [](lg::Logger &l, Args &a) {
       const lg::EventId ev(a.ev_id, a.ev_name);
       l.Log(a.sev, ev, a.fmt, *a.attrs_m);
     },
     0, 0, 0, BK_VIEW, AK_KVI, kNonTmpl},
    {"Log(S,int64 id,fmt,A+M)", true, true, true, false, false, false, true,
     [](lg::Logger &l, Args &a) {
       if (a.noname_ok)
         l.Log(a.sev, a.ev_id, a.fmt, *a.attrs_m);
       else
       {
         const lg::EventId ev(a.ev_id, "");
         l.Log(a.sev, ev, a.fmt, *a.attrs_m);
       }
     },
     0, 0, 0, BK_VIEW, AK_KVI, kNonTmpl | kEvNoName},
    {"Log(S,fmt,A+M)", true, true, true, false, false, false, false,
     [](lg::Logger &l, Args &a) { l.Log(a.sev, a.fmt, *a.attrs_m); }, 0, 0, 0, BK_VIEW, AK_KVI, kNonTmpl},
    {"Log(S,msg)", true, true, false, false, false, false, false,
     [](lg::Logger &l, Args &a) { l.Log(a.sev, a.fmt); }, 0, 0, 0, BK_MSG, AK_KVI, kNonTmpl},
    // --- the non-template Trace..Fatal wrappers
    {"helper(E,fmt,A+M)", true, true, true, false, false, false, true,
     [](lg::Logger &l, Args &a) {
       const lg::EventId ev(a.ev_id, a.ev_name);
       call_helper(l, a.helper, ev, a.fmt, *a.attrs_m);
     },
     0, 0, 0, BK_VIEW, AK_KVI, kNonTmpl | kHelper},
    {"helper(int64 id,fmt,A+M)", true, true, true, false, false, false, true,
     [](lg::Logger &l, Args &a) {
       if (a.noname_ok)
         call_helper(l, a.helper, a.ev_id, a.fmt, *a.attrs_m);
       else
       {
         const lg::EventId ev(a.ev_id, "");
         call_helper(l, a.helper, ev, a.fmt, *a.attrs_m);
       }
     },
     0, 0, 0, BK_VIEW, AK_KVI, kNonTmpl | kHelper | kEvNoName},
    {"helper(fmt,A+M)", true, true, true, false, false, false, false,
     [](lg::Logger &l, Args &a) { call_helper(l, a.helper, a.fmt, *a.attrs_m); }, 0, 0, 0, BK_VIEW, AK_KVI,
     kNonTmpl | kHelper},
    {"helper(msg)", true, true, false, false, false, false, false,
     [](lg::Logger &l, Args &a) { call_helper(l, a.helper, a.fmt); }, 0, 0, 0, BK_MSG, AK_KVI,
     kNonTmpl | kHelper},
    // --- body kinds of the variadic template
    {"(S,string_view,M)", true, true, false, false, false, false, false,
     [](lg::Logger &l, Args &a) { l.EmitLogRecord(a.sev, a.fmt, *a.marker); }, 0, 0, 0, BK_VIEW},
    {"(M,const char*,S)", true, true, false, false, false, false, false,
     [](lg::Logger &l, Args &a) { l.EmitLogRecord(*a.marker, a.body_cstr, a.sev); }, 0, 0, 0, BK_CSTR},
    {"(S,\"literal\",A,M)", true, true, true, false, false, false, false,
     [](lg::Logger &l, Args &a) { l.EmitLogRecord(a.sev, "literal body", *a.attrs, *a.marker); }, 0, 0, 0,
     BK_LITERAL},
    {"(S,std::string,M)", true, true, false, false, false, false, false,
     [](lg::Logger &l, Args &a) { l.EmitLogRecord(a.sev, *a.body_str, *a.marker); }, 0, 0, 0, BK_STDSTRING},
    {"Debug(std::string,A,M)", true, true, true, false, false, false, false,
     [](lg::Logger &l, Args &a) { l.Debug(*a.body_str, *a.attrs, *a.marker); }, 0, 0, 0, BK_STDSTRING},
    {"(S,bare scalar,M)", true, true, false, false, false, false, false,
     [](lg::Logger &l, Args &a) {
       with_scalar(*a.scalar, [&](auto &v) { l.EmitLogRecord(a.sev, v, *a.marker); });
     },
     0, 0, 0, BK_SCALAR},
    {"(M,bare scalar)", false, true, false, false, false, false, false,
     [](lg::Logger &l, Args &a) { with_scalar(*a.scalar, [&](auto &v) { l.EmitLogRecord(*a.marker, v); }); }, 0,
     0, 0, BK_SCALAR},
    {"(S,B,B2,M)", true, true, false, false, false, false, false,
     [](lg::Logger &l, Args &a) { l.EmitLogRecord(a.sev, a.body, a.body2, *a.marker); }, 5},
    // --- timestamp as system_clock::time_point
    {"(S,B,M,time_point)", true, true, false, false, false, true, false,
     [](lg::Logger &l, Args &a) { l.EmitLogRecord(a.sev, a.body, *a.marker, a.tp); }, 0, 0, 0, BK_AV, AK_KVI,
     kTimePt},
    {"(time_point,E,M,B)", false, true, false, false, false, true, true,
     [](lg::Logger &l, Args &a) { l.EmitLogRecord(a.tp, EV(a), *a.marker, a.body); }, 0, 0, 0, BK_AV, AK_KVI,
     kTimePt},
    // --- attribute container kinds
    {"(S,B,MakeAttributes(span),M)", true, true, true, false, false, false, false,
     [](lg::Logger &l, Args &a) { l.EmitLogRecord(a.sev, a.body, PSPAN(a), *a.marker); }, 0, 0, 0, BK_AV, AK_SPAN},
    {"(MakeAttributes(span),M,B)", false, true, true, false, false, false, false,
     [](lg::Logger &l, Args &a) { l.EmitLogRecord(PSPAN(a), *a.marker, a.body); }, 0, 0, 0, BK_AV, AK_SPAN},
    {"(S,B,MakeAttributes({..}),M)", true, true, true, false, false, false, false,
     [](lg::Logger &l, Args &a) {
       l.EmitLogRecord(a.sev, a.body, otel::common::MakeAttributes({{a.ilk1, a.ilv1}, {a.ilk2, a.ilv2}}), *a.marker);
     },
     0, 0, 0, BK_AV, AK_ILIST},
    {"(S,B,map<string,AttributeValue>,M)", true, true, true, false, false, false, false,
     [](lg::Logger &l, Args &a) { l.EmitLogRecord(a.sev, a.body, *a.avmap, *a.marker); }, 0, 0, 0, BK_AV, AK_AVMAP},
    {"Warn(map<string,int>,B,M)", true, true, true, false, false, false, false,
     [](lg::Logger &l, Args &a) { l.Warn(*a.imap, a.body, *a.marker); }, 0, 0, 0, BK_AV, AK_INTMAP},
    {"(vector<pair<view,AttributeValue>>,S,M,B)", true, true, true, false, false, false, false,
     [](lg::Logger &l, Args &a) { l.EmitLogRecord(*a.pvec, a.sev, *a.marker, a.body); }, 0, 0, 0, BK_AV, AK_PAIRVEC},
    {"(S,B,MakeAttributes(map),M)", true, true, true, false, false, false, false,
     [](lg::Logger &l, Args &a) {
       l.EmitLogRecord(a.sev, a.body, otel::common::MakeAttributes(*a.avmap), *a.marker);
     },
     0, 0, 0, BK_AV, AK_VIEW},
    // --- explicit identity supplied only in part: the other fields stay the active span's
    {"(S,B,M,Sid)", true, true, false, false, false, false, false,
     [](lg::Logger &l, Args &a) { l.EmitLogRecord(a.sev, a.body, *a.marker, a.sid); }, 0, 0, 2},
    {"(Tid,M,B)", false, true, false, false, false, false, false,
     [](lg::Logger &l, Args &a) { l.EmitLogRecord(a.tid, *a.marker, a.body); }, 0, 0, 1},
    {"(Tf,B,M)", false, true, false, false, false, false, false,
     [](lg::Logger &l, Args &a) { l.EmitLogRecord(a.tf, a.body, *a.marker); }, 0, 0, 4},
    {"(S,Sid,Tid,B,M)", true, true, false, false, false, false, false,
     [](lg::Logger &l, Args &a) { l.EmitLogRecord(a.sev, a.sid, a.tid, a.body, *a.marker); }, 0, 0, 3},
    {"(B,M,Tf,Sid)", false, true, false, false, false, false, false,
     [](lg::Logger &l, Args &a) { l.EmitLogRecord(a.body, *a.marker, a.tf, a.sid); }, 0, 0, 6},
};
constexpr size_t kNumForms = sizeof(kForms) / sizeof(kForms[0]);

int gen_severity(vh::Reader &rd)
{
  return 1 + static_cast<int>(rd.below(24));  // kTrace .. kFatal4
}

std::chrono::system_clock::time_point tp_of(int64_t ns)
{
  return std::chrono::system_clock::time_point(
      std::chrono::duration_cast<std::chrono::system_clock::duration>(std::chrono::nanoseconds(ns)));
}

otel::common::SystemTimestamp ts_of(int64_t ns)
{
  return otel::common::SystemTimestamp(tp_of(ns));
}

// ------------------------------------------------------------------------------------------------
// real SDK spans with ids drawn from the choice stream
namespace sdkt = opentelemetry::sdk::trace;
class StreamIds final : public sdkt::IdGenerator
{
public:
  StreamIds() : sdkt::IdGenerator(false) {}
  tr::SpanId GenerateSpanId() noexcept override { return sid; }
  tr::TraceId GenerateTraceId() noexcept override { return tid; }
  tr::SpanId sid;
  tr::TraceId tid;
};
class SwitchSampler final : public sdkt::Sampler
{
public:
  sdkt::SamplingResult ShouldSample(const tr::SpanContext &, tr::TraceId, otel::nostd::string_view, tr::SpanKind,
                                    const otel::common::KeyValueIterable &,
                                    const tr::SpanContextKeyValueIterable &) noexcept override
  {
    return {decision, nullptr, {}};
  }
  otel::nostd::string_view GetDescription() const noexcept override { return "SwitchSampler"; }
  sdkt::Decision decision = sdkt::Decision::RECORD_AND_SAMPLE;
};
class NullSpanProcessor final : public sdkt::SpanProcessor
{
public:
  std::unique_ptr<sdkt::Recordable> MakeRecordable() noexcept override
  {
    return std::unique_ptr<sdkt::Recordable>(new sdkt::SpanData());
  }
  void OnStart(sdkt::Recordable &, const tr::SpanContext &) noexcept override {}
  void OnEnd(std::unique_ptr<sdkt::Recordable> &&) noexcept override {}
  bool ForceFlush(std::chrono::microseconds) noexcept override { return true; }
  bool Shutdown(std::chrono::microseconds) noexcept override { return true; }
};
struct SdkTracing
{
  StreamIds *ids         = nullptr;
  SwitchSampler *sampler = nullptr;
  std::shared_ptr<sdkt::TracerProvider> provider;
  otel::nostd::shared_ptr<tr::Tracer> tracer;
  SdkTracing()
  {
    ids     = new StreamIds();
    sampler = new SwitchSampler();
    provider.reset(new sdkt::TracerProvider(std::unique_ptr<sdkt::SpanProcessor>(new NullSpanProcessor()),
                                            otel::sdk::resource::Resource::Create({}),
                                            std::unique_ptr<sdkt::Sampler>(sampler),
                                            std::unique_ptr<sdkt::IdGenerator>(ids)));
    tracer = provider->GetTracer("vh-c13-tracer");
  }
};

// Storage for a DefaultSpan at an address the harness controls: "the allocator gives the next span the
// block of the span that has just been freed" (what a production allocator does for back-to-back spans)
// is then a property of the CASE, not of the allocator, the sanitizer's quarantine or the process history.
// The slot is owned by the spans placed in it (deleter) and by the burst that uses it.
struct SpanSlot
{
  alignas(16) unsigned char mem[sizeof(tr::DefaultSpan)];
  bool live = false;
};

otel::nostd::shared_ptr<tr::Span> default_span_in(const std::shared_ptr<SpanSlot> &slot, const tr::SpanContext &cx)
{
  if (!slot || slot->live)
    return otel::nostd::shared_ptr<tr::Span>(new tr::DefaultSpan(cx));
  slot->live   = true;
  tr::Span *sp = new (slot->mem) tr::DefaultSpan(cx);
  return otel::nostd::shared_ptr<tr::Span>(std::shared_ptr<tr::Span>(sp, [slot](tr::Span *p) {
    p->~Span();
    slot->live = false;
  }));
}

// one frame of the calling thread's context stack
struct Active
{
  tr::SpanContext cx = tr::SpanContext::GetInvalid();  // identity a record created now must carry
  bool present   = false;  // a span / span context is active: cx is what CreateLogRecord has to copy
  bool null_span = false;  // the span key holds a null shared_ptr<Span> (Tracer::GetCurrentSpan unusable)
  std::unique_ptr<tr::Scope> scope;
  otel::nostd::unique_ptr<otel::context::Token> token;
};

struct ThreadState
{
  std::unique_ptr<SdkTracing> sdk;  // declared first: destroyed after the frames
  std::vector<Active> scopes;
  std::set<std::string> tags;
  void clear()
  {
    while (!scopes.empty())
      scopes.pop_back();
  }
  ~ThreadState() { clear(); }
};

bool all_zero(const tr::SpanContext &cx)
{
  return !cx.trace_id().IsValid() && !cx.span_id().IsValid() && cx.trace_flags().flags() == 0;
}

// pushes one frame; kind: 1 DefaultSpan(valid), 3 SpanContext under the span key, 4 null / non-span
// value under the span key, 5 unrelated key on top, 6 DefaultSpan(invalid, usually not all-zero),
// 7 SDK span (recording | ended | dropped)
void push_frame(vh::Reader &rd, ThreadState &ts, size_t kind, std::string &notes, const std::string &label,
                int force_how = -1 /* kind 7: 0 recording, 1 ended, 2 dropped; -1 drawn */,
                const std::shared_ptr<SpanSlot> &slot = nullptr /* kind 1: where the DefaultSpan is placed */)
{
  namespace ctx = otel::context;
  Active f;
  const bool below_null = !ts.scopes.empty() && ts.scopes.back().null_span;
  if (kind == 7 && below_null)
    kind = 1;  // Tracer::StartSpan dereferences the current span pointer; not this property's business
  switch (kind)
  {
    case 3:
    {
      f.cx      = sg::gen_span_context(rd, true);
      f.present = true;
      otel::nostd::shared_ptr<tr::SpanContext> p(new tr::SpanContext(f.cx));
      f.token = ctx::RuntimeContext::Attach(ctx::RuntimeContext::GetCurrent().SetValue(tr::kSpanKey, p));
      notes += " " + label + "attach SpanContext-under-span-key " + sg::show_ctx(f.cx) + "\n";
      ts.tags.insert("active:SpanContext-in-context");
      break;
    }
    case 4:
    {
      ctx::ContextValue v;
      const char *how = "";
      switch (rd.below(3))
      {
        case 0:
          v           = otel::nostd::shared_ptr<tr::Span>(nullptr);
          how         = "null Span pointer";
          f.null_span = true;
          break;
        case 1:
          v   = otel::nostd::shared_ptr<tr::SpanContext>(nullptr);
          how = "null SpanContext pointer";
          break;
        default:
          v   = true;
          how = "bool";
          break;
      }
      f.token = ctx::RuntimeContext::Attach(ctx::RuntimeContext::GetCurrent().SetValue(tr::kSpanKey, v));
      notes += " " + label + "attach " + how + " under the span key (no active span)\n";
      ts.tags.insert("active:null-or-non-span-under-key");
      break;
    }
    case 5:
    {
      if (!ts.scopes.empty())
      {
        f.cx        = ts.scopes.back().cx;
        f.present   = ts.scopes.back().present;
        f.null_span = ts.scopes.back().null_span;
      }
      f.token = ctx::RuntimeContext::Attach(
          ctx::RuntimeContext::GetCurrent().SetValue("vh.unrelated", static_cast<int64_t>(ts.scopes.size())));
      notes += " " + label + "attach unrelated key on top\n";
      ts.tags.insert("active:unrelated-key-on-top");
      break;
    }
    case 6:
    {
      f.cx      = sg::gen_span_context(rd, false);
      f.present = true;
      otel::nostd::shared_ptr<tr::Span> sp(new tr::DefaultSpan(f.cx));
      f.scope.reset(new tr::Scope(sp));
      notes += " " + label + "activate INVALID " + sg::show_ctx(f.cx) + "\n";
      ts.tags.insert(all_zero(f.cx) ? "active:invalid-all-zero" : "active:invalid-but-non-zero");
      break;
    }
    case 7:
    {
      if (!ts.sdk)
        ts.sdk.reset(new SdkTracing());
      ts.sdk->ids->tid = sg::gen_trace_id(rd);
      ts.sdk->ids->sid = sg::gen_span_id(rd);
      size_t how       = force_how >= 0 ? static_cast<size_t>(force_how) : rd.below(3);
      ts.sdk->sampler->decision =
          how == 2 ? sdkt::Decision::DROP : (rd.coin() ? sdkt::Decision::RECORD_ONLY : sdkt::Decision::RECORD_AND_SAMPLE);
      auto span = ts.sdk->tracer->StartSpan("vh-span");
      if (how == 1)
        span->End();
      f.cx      = span->GetContext();
      f.present = true;
      f.scope.reset(new tr::Scope(span));
      static const char *const names[] = {"recording", "ended", "dropped"};
      notes += " " + label + "activate SDK span (" + names[how] + ") " + sg::show_ctx(f.cx) + "\n";
      ts.tags.insert(std::string("active:sdk-span-") + names[how]);
      break;
    }
    default:
    {
      f.cx      = sg::gen_span_context(rd, true);
      f.present = true;
      otel::nostd::shared_ptr<tr::Span> sp = default_span_in(slot, f.cx);
      f.scope.reset(new tr::Scope(sp));
      notes += " " + label + "activate " + sg::show_ctx(f.cx) + "\n";
      break;
    }
  }
  ts.scopes.push_back(std::move(f));
}

// one emit; returns the expectation (or marker -1 when nothing must be exported)
struct EmitStats
{
  bool nonscalar = false, active_span = false, deferred_nonscalar = false;
  bool add_in_flight = false;  // AddProcessor between CreateLogRecord and EmitLogRecord of an exported record
  std::set<std::string> tags;
};

// caller storage of one emit: everything the SDK gets a view of lives here and dies as one unit
struct Store
{
  sg::Arena arena;
  std::unique_ptr<std::string> body_str;
  void release()
  {
    arena.release();
    body_str.reset();
  }
};

lg::Severity fixed_helper_severity(const char *name, bool *found)
{
  for (int h = 0; h < 6; ++h)
  {
    std::string prefix = std::string(kHelperName[h]) + "(";
    if (std::string(name).rfind(prefix, 0) == 0)
    {
      *found = true;
      return kHelperSeverity[h];
    }
  }
  *found = false;
  return lg::Severity::kInvalid;
}

void do_emit(vh::Reader &rd, Setup &s, ThreadState &ts, int64_t marker, std::vector<Expected> &expected,
             std::string &notes, EmitStats &st, std::vector<std::unique_ptr<Store>> &parked,
             const std::string &label)
{
  std::unique_ptr<Store> store(new Store());
  sg::Arena &a = store->arena;
  size_t li    = rd.below(static_cast<uint32_t>(s.loggers.size()));
  size_t emit_li = li;  // the logger the record is emitted through (differs for cross-logger emits)
  LoggerInfo &L = s.loggers[li];
  Expected e;
  e.marker      = marker;
  e.logger      = static_cast<int>(li);
  e.must_reach  = s.configured;
  e.severity    = static_cast<int>(lg::Severity::kInvalid);
  e.body_given  = false;
  e.ts_given    = false;
  e.ts_ns       = 0;
  e.event_given = false;
  e.event_id    = 0;
  e.trace_id = e.alt_trace_id = std::string(32, '0');
  e.span_id = e.alt_span_id = std::string(16, '0');
  e.flags = e.alt_flags = 0;
  tr::SpanContext active = tr::SpanContext::GetInvalid();
  bool active_present    = false;
  if (!ts.scopes.empty())
  {
    active         = ts.scopes.back().cx;
    active_present = ts.scopes.back().present;
  }
  // explicit identity (whole or in part) is written to both admissible expectations
  auto set_tid = [&](const tr::TraceId &t) { e.trace_id = e.alt_trace_id = sg::hex(t); };
  auto set_sid = [&](const tr::SpanId &x) { e.span_id = e.alt_span_id = sg::hex(x); };
  auto set_tf  = [&](const tr::TraceFlags &f) { e.flags = e.alt_flags = f.flags(); };
  auto set_identity = [&](const tr::SpanContext &cx) {
    set_tid(cx.trace_id());
    set_sid(cx.span_id());
    set_tf(cx.trace_flags());
  };
  if (active_present)
  {
    if (active.IsValid())
    {
      set_identity(active);
      st.active_span = true;
    }
    else if (!all_zero(active))
    {
      // an active span whose context is invalid: a verbatim copy and all-zero are both accepted
      e.trace_id = sg::hex(active.trace_id());
      e.span_id  = sg::hex(active.span_id());
      e.flags    = active.trace_flags().flags();
      e.has_alt  = true;
    }
  }

  sg::MValue body      = sg::gen_value(rd);
  sg::KVList attr_list = sg::gen_kvlist(rd, 5);
  sg::KVList marker_l  = {{"vh.marker", sg::MValue(marker)}};
  tr::SpanContext xctx = sg::gen_span_context(rd, true);
  int sev              = gen_severity(rd);
  int64_t ts_ns        = 1650000000000000000ll + static_cast<int64_t>(rd.u32());
  int64_t ev_id        = static_cast<int64_t>(rd.u32()) - 1000;
  std::string ev_name  = rd.coin() ? "" : sg::gen_bytes(rd, 30);
  if (ev_name.find('\0') != std::string::npos)
    ev_name = "evt";  // EventId copies its name as a C string by design
  bool null_record = rd.chance(5);
  size_t style     = rd.weighted({6, 4});
  bool attrs_nonscalar = false;
  for (auto &kv : attr_list)
    attrs_nonscalar = attrs_nonscalar || kv.second.index() >= 6;
  bool body_nonscalar = body.index() >= 6;

  // a second container that re-binds up to two keys of the first one and adds one of its own
  sg::KVList attr_list2;
  for (size_t q = 0; q < attr_list.size() && q < 2; ++q)
    attr_list2.emplace_back(attr_list[q].first, sg::MValue(static_cast<int64_t>(1000 + q)));
  attr_list2.emplace_back("second.only", sg::MValue(true));
  const lg::Severity sev2 = static_cast<lg::Severity>(1 + (sev % 24));

  std::string what;
  if (style == 0)
  {
    const Form *fp = &kForms[rd.below(kNumForms)];
    if (fp->owning && s.any_batch)
      fp = &kForms[0];  // deferred export would outlive the container (and is finding F5 anyway)
    const Form &f = *fp;
    what          = std::string("Emit") + f.name;
    Args args;
    args.sev = static_cast<lg::Severity>(sev);
    // --- the body in the spelling the form asks for
    const bool body_cstr_form = rd.coin();
    std::string bstr;  // the text of string-typed bodies
    if (f.bodykind != BK_AV && f.bodykind != BK_SCALAR)
    {
      bstr = body.index() == 6 ? std::get<6>(body) : sg::show_mvalue(body);
      if (f.bodykind == BK_LITERAL)
        bstr = "literal body";
      if (f.bodykind == BK_CSTR)
        for (auto &ch : bstr)
          if (ch == '\0')
            ch = '0';
      if (f.bodykind == BK_MSG)
        bstr = kBodyMarker + std::to_string(marker) + ";" + bstr;
      body           = sg::MValue(bstr);
      body_nonscalar = f.bodykind != BK_LITERAL;  // a literal never dies
      st.tags.insert(f.bodykind == BK_VIEW        ? "body:string_view"
                     : f.bodykind == BK_CSTR      ? "body:const char*"
                     : f.bodykind == BK_LITERAL   ? "body:literal"
                     : f.bodykind == BK_STDSTRING ? "body:std::string"
                                                  : "body:message-only overload");
    }
    if (f.bodykind == BK_SCALAR)
    {
      if (body.index() > 5)
        body = sg::MValue(sg::gen_int<int32_t>(rd));
      body_nonscalar = false;
      st.tags.insert("body:bare scalar");
    }
    args.body   = sg::to_api(body, a, body_cstr_form);
    args.scalar = &body;
    if (f.bodykind == BK_VIEW || f.bodykind == BK_MSG)
      args.fmt = a.view(bstr);
    if (f.bodykind == BK_CSTR)
      args.body_cstr = a.cstr(bstr);
    if (f.bodykind == BK_STDSTRING)
    {
      store->body_str.reset(new std::string(bstr));
      args.body_str = store->body_str.get();
    }
    args.body2 = otel::common::AttributeValue(ev_id);
    sg::ArenaKV akv(attr_list, a, rd.coin());
    sg::ArenaKV mkv(marker_l, a);
    sg::ArenaKV akv2(attr_list2, a);
    args.attrs2 = &akv2;
    args.sev2   = sev2;
    args.tf2    = tr::TraceFlags(static_cast<uint8_t>(xctx.trace_flags().flags() ^ 0x01));
    // string-owning containers with 1..3 entries (values long enough to defeat the small-string buffer
    // sometimes, so that a view into a destroyed copy points to freed heap memory)
    std::map<std::string, std::string> smap;
    std::vector<std::pair<std::string, std::string>> svec;
    std::unordered_map<std::string, std::string> sumap;
    if (f.owning)
    {
      unsigned n = 1 + rd.below(3);
      for (unsigned q = 0; q < n; ++q)
      {
        std::string k = "own" + std::to_string(q);
        std::string v = rd.coin() ? "v" + std::to_string(rd.below(100)) : std::string(20 + rd.below(40), static_cast<char>('a' + q)) + std::to_string(q);
        smap[k]  = v;
        svec.emplace_back(k, v);
        sumap[k] = v;
        e.attrs[k] = sg::MValue(v);
      }
      args.smap  = &smap;
      args.svec  = &svec;
      args.sumap = &sumap;
      notes += " " + label + "[string-owning container, " + std::to_string(n) + " entries]";
    }
    // --- the attributes in the container kind the form asks for (all die when this block ends;
    //     the values they hold are views into the arena)
    sg::KVList attrs_m_list = attr_list;
    attrs_m_list.emplace_back("vh.marker", sg::MValue(marker));
    sg::ArenaKV akv_m(attrs_m_list, a, body_cstr_form);
    args.attrs_m = &akv_m;
    PairVec pvec;
    std::map<std::string, otel::common::AttributeValue> avmap;
    std::map<std::string, int> imap;
    sg::KVList attr_model = attr_list;  // what the attribute argument of this form means
    switch (f.attrkind)
    {
      case AK_SPAN:
      case AK_PAIRVEC:
        for (auto &kv : attr_list)
          pvec.emplace_back(a.view(kv.first), sg::to_api(kv.second, a, body_cstr_form));
        st.tags.insert(f.attrkind == AK_SPAN ? "attrs:MakeAttributes(span)" : "attrs:vector<pair<view,AttributeValue>>");
        break;
      case AK_AVMAP:
      case AK_VIEW:
        for (auto &kv : attr_list)
          avmap[kv.first] = sg::to_api(kv.second, a, body_cstr_form);
        st.tags.insert(f.attrkind == AK_AVMAP ? "attrs:map<string,AttributeValue>" : "attrs:MakeAttributes(map) view");
        break;
      case AK_INTMAP:
      {
        attr_model.clear();
        int n = 0;
        for (auto &kv : attr_list)
        {
          imap[kv.first] = 100 + n;
          attr_model.emplace_back(kv.first, sg::MValue(static_cast<int32_t>(100 + n)));
          ++n;
        }
        attrs_nonscalar = false;
        st.tags.insert("attrs:map<string,int>");
        break;
      }
      case AK_ILIST:
      {
        attr_model.clear();
        attr_model.emplace_back(attr_list.empty() ? std::string("il.a") : attr_list[0].first,
                                attr_list.empty() ? sg::MValue(static_cast<int64_t>(7)) : attr_list[0].second);
        attr_model.emplace_back("il.b", sg::MValue(static_cast<int32_t>(sev)));
        args.ilk1 = a.view(attr_model[0].first);
        args.ilv1 = sg::to_api(attr_model[0].second, a, body_cstr_form);
        args.ilk2 = a.view(attr_model[1].first);
        args.ilv2 = sg::to_api(attr_model[1].second, a);
        attrs_nonscalar = attr_model[0].second.index() >= 6;
        st.tags.insert("attrs:MakeAttributes(initializer_list)");
        break;
      }
      default:
        break;
    }
    args.pvec  = &pvec;
    args.avmap = &avmap;
    args.imap  = &imap;
    args.attrs   = &akv;
    args.marker  = &mkv;
    args.ctx     = xctx;
    args.tid     = xctx.trace_id();
    args.sid     = xctx.span_id();
    args.tf      = xctx.trace_flags();
    args.ts      = ts_of(ts_ns);
    args.tp      = tp_of(ts_ns);
    args.ev_id   = ev_id;
    args.ev_name = ev_name;
    if (f.flags & kHelper)
    {
      args.helper = static_cast<int>(rd.below(6));
      what += std::string("[") + kHelperName[args.helper] + "]";
    }
    if (f.flags & kEvNoName)
    {
      args.noname_ok = eventid_noname_allowed();
      st.tags.insert(args.noname_ok ? "event-id-without-name" : "event-id-without-name(held back: empty name)");
    }
    if (f.flags & kNonTmpl)
      st.tags.insert("non-template Log()/helper overload");
    if (f.flags & kTimePt)
      st.tags.insert("timestamp:time_point");
    if (f.sev)
    {
      bool fixed       = false;
      lg::Severity hs  = fixed_helper_severity(f.name, &fixed);
      e.severity       = (f.flags & kHelper) ? static_cast<int>(kHelperSeverity[args.helper])
                         : fixed             ? static_cast<int>(hs)
                                             : sev;
    }
    if (f.body)
    {
      e.body_given = true;
      e.body       = body;
    }
    if (f.attrs)
      sg::apply_last_wins(e.attrs, attr_model);
    if (f.ctx || f.ids)
      set_identity(xctx);
    if (f.partial)
    {
      if (f.partial & 1)
        set_tid(xctx.trace_id());
      if (f.partial & 2)
        set_sid(xctx.span_id());
      if (f.partial & 4)
        set_tf(xctx.trace_flags());
      st.tags.insert("partial-explicit-identity");
    }
    if (f.ts)
    {
      e.ts_given = true;
      e.ts_ns    = ts_ns;
    }
    switch (f.overlap)
    {
      case 1:
        sg::apply_last_wins(e.attrs, attr_list2);
        break;
      case 2:
        e.flags = e.alt_flags = args.tf2.flags();
        break;
      case 3:
        break;  // the SpanContext is applied last: its flags win
      case 4:
        e.severity = static_cast<int>(args.sev2);
        break;
      case 5:
        e.body = sg::MValue(ev_id);
        break;
      default:
        break;
    }
    if (f.overlap)
      notes += " " + label + "[overlapping-arguments]";
    if (f.ev)
    {
      e.event_given = true;
      e.event_id    = ev_id;
      e.event_name  = (f.flags & kEvNoName) ? std::string() : ev_name;
    }
    e.marker_attr = f.bodykind != BK_MSG;
    f.emit(*L.logger, args);
  }
  else
  {
    // CreateLogRecord + setters in a generated order + EmitLogRecord(record [, args...])
    what = "Create+set[";
    otel::nostd::unique_ptr<lg::LogRecord> rec = L.logger->CreateLogRecord();
    e.must_reach                               = s.configured;  // the processors configured at creation
    // the identity is taken from the span active at creation; the active span may change before Emit
    bool switched = false;
    if (rec && rd.chance(25))
    {
      std::string ignored;
      push_frame(rd, ts, 1, ignored, label);
      switched = true;
      what += "activate-other,";
    }
    if (rec)
    {
      unsigned nset = rd.below(8);
      for (unsigned i = 0; i < nset; ++i)
      {
        switch (rd.below(11))
        {
          case 0:
            rec->SetSeverity(static_cast<lg::Severity>(sev));
            e.severity = sev;
            what += "sev,";
            break;
          case 1:
            rec->SetBody(sg::to_api(body, a, rd.coin()));
            e.body_given = true;
            e.body       = body;
            what += "body,";
            break;
          case 2:
          {
            if (attr_list.empty())
              break;
            auto &kv = attr_list[rd.below(static_cast<uint32_t>(attr_list.size()))];
            rec->SetAttribute(a.view(kv.first), sg::to_api(kv.second, a, rd.coin()));
            e.attrs[kv.first] = kv.second;
            what += "attr,";
            break;
          }
          case 3:
            rec->SetTimestamp(ts_of(ts_ns));
            e.ts_given = true;
            e.ts_ns    = ts_ns;
            what += "ts,";
            break;
          case 4:
            rec->SetEventId(ev_id, a.view(ev_name));
            e.event_given = true;
            e.event_id    = ev_id;
            e.event_name  = ev_name;
            what += "event,";
            break;
          case 5:
            rec->SetTraceId(xctx.trace_id());
            rec->SetSpanId(xctx.span_id());
            rec->SetTraceFlags(xctx.trace_flags());
            set_identity(xctx);
            what += "ids,";
            break;
          case 6:
            rec->SetTraceId(xctx.trace_id());
            set_tid(xctx.trace_id());
            what += "tid,";
            st.tags.insert("partial-explicit-identity");
            break;
          case 7:
            rec->SetSpanId(xctx.span_id());
            set_sid(xctx.span_id());
            what += "sid,";
            st.tags.insert("partial-explicit-identity");
            break;
          case 8:
            rec->SetTraceFlags(xctx.trace_flags());
            set_tf(xctx.trace_flags());
            what += "tf,";
            st.tags.insert("partial-explicit-identity");
            break;
          case 9:
            rec->SetEventId(ev_id + 1);  // the name parameter is defaulted
            e.event_given = true;
            e.event_id    = ev_id + 1;
            e.event_name  = "";
            what += "event-id-only,";
            break;
          default:
            break;
        }
      }
      rec->SetAttribute("vh.marker", marker);
    }
    what += "]";
    if (null_record)
    {
      rec.reset();
      what += " null-record";
    }
    // EmitLogRecord(record) or EmitLogRecord(record, args...): the arguments are applied after the
    // setters (so they win for the same field; attributes merge key by key)
    size_t with_args = rd.weighted({6, 1, 1, 1, 1});
    sg::ArenaKV akv2(attr_list2, a);
    const otel::common::KeyValueIterable &kv2 = akv2;
    // --- the record is emitted through ANOTHER logger of the same provider
    //   enabled  -> enabled : exported once (the scope of either logger is accepted)
    //   enabled  -> disabled: "a disabled logger emits nothing"
    //   disabled -> disabled: nothing
    //   disabled -> enabled : NOT generated.  A disabled logger hands out the API's NoopLogRecord, and
    //                         sdk Logger::EmitLogRecord static_casts whatever it gets to sdk::logs::Recordable:
    //                         undefined behaviour on the unchanged tree (UBSan: downcast of a NoopLogRecord,
    //                         logger.cc:119; SIGSEGV in the plain build).  Observation outside the statement,
    //                         which only speaks about records "emitted through an enabled logger" that carry
    //                         supplied content; the record goes through its creator instead.
    if (s.loggers.size() >= 2 && rd.weighted({7, 3}) == 1)
    {
      size_t lj = (li + 1 + rd.below(static_cast<uint32_t>(s.loggers.size() - 1))) % s.loggers.size();
      if (!L.enabled && s.loggers[lj].enabled)
        st.tags.insert("cross-logger:disabled->enabled (not generated: UB in the unchanged library)");
      else
      {
        emit_li   = lj;
        e.creator = static_cast<int>(li);
        e.logger  = static_cast<int>(lj);
        st.tags.insert(std::string("cross-logger:") + (L.enabled ? "enabled" : "disabled") + "->" +
                       (s.loggers[lj].enabled ? "enabled" : "disabled"));
        what += " through-logger" + std::to_string(lj);
      }
    }
    LoggerInfo &M = s.loggers[emit_li];
    // --- LoggerProvider::AddProcessor between CreateLogRecord and EmitLogRecord: the processors that
    //     were configured at creation still get the record; the new one may or may not
    if (!s.pending.empty() && !null_record && rd.chance(50))
    {
      const size_t before = s.configured;
      unsigned nadd       = 1 + static_cast<unsigned>(rd.weighted({4, 1}));
      for (unsigned q = 0; q < nadd; ++q)
        add_pending(s, notes, label, "between CreateLogRecord and EmitLogRecord");
      st.tags.insert("AddProcessor-in-flight:" + std::to_string(before) + "->" + std::to_string(s.configured) +
                     (L.enabled && M.enabled ? "" : " (disabled logger)"));
      st.add_in_flight = st.add_in_flight || (L.enabled && M.enabled);
    }
    switch (with_args)
    {
      case 1:
      {
        otel::common::AttributeValue b2(static_cast<int64_t>(7000 + marker));
        M.logger->EmitLogRecord(std::move(rec), sev2, b2);
        e.severity   = static_cast<int>(sev2);
        e.body_given = true;
        e.body       = sg::MValue(static_cast<int64_t>(7000 + marker));
        what += " Emit(rec,S,B)";
        break;
      }
      case 2:
        M.logger->EmitLogRecord(std::move(rec), kv2);
        sg::apply_last_wins(e.attrs, attr_list2);
        what += " Emit(rec,A2)";
        break;
      case 3:
        M.logger->EmitLogRecord(std::move(rec), xctx);
        set_identity(xctx);
        what += " Emit(rec,C)";
        break;
      case 4:
      {
        std::chrono::system_clock::time_point tp = tp_of(ts_ns + 1000);
        M.logger->EmitLogRecord(std::move(rec), tp, lg::EventId(ev_id + 2, ev_name));
        e.ts_given    = true;
        e.ts_ns       = ts_ns + 1000;
        e.event_given = true;
        e.event_id    = ev_id + 2;
        e.event_name  = ev_name;
        what += " Emit(rec,time_point,E)";
        break;
      }
      default:
        M.logger->EmitLogRecord(std::move(rec));
        break;
    }
    if (with_args)
      st.tags.insert(null_record ? "Emit(null record,args...)" : "Emit(record,args...)");
    if (switched)
      ts.scopes.pop_back();
  }
  if (e.marker_attr)
    e.attrs["vh.marker"] = sg::MValue(marker);
  const bool nonscalar = body_nonscalar || attrs_nonscalar;
  notes += " " + label + "#" + std::to_string(marker) + " logger" + std::to_string(li) + " " + what + " body=" +
           sg::show_mvalue(body) + " attrs=" + sg::show_kvlist(attr_list) + " active=" +
           (active_present ? (active.IsValid() ? sg::hex(active.span_id()) : "invalid:" + sg::hex(active.span_id()))
                           : std::string("-")) +
           "\n";
  if (nonscalar)
    st.nonscalar = true;
  // caller storage dies as soon as Emit has returned.  Open finding F5 (ReadWriteLogRecord keeps
  // non-owning values): with a deferred (batch) processor the storage of non-scalar values is
  // parked until the flush instead, and the re-shaping is counted.
  if (nonscalar && s.any_batch)
  {
    st.deferred_nonscalar = true;
    if (vh::excluded("F5"))
    {
      vh::count_excluded("F5");
      parked.push_back(std::move(store));
    }
  }
  if (store)
    store->release();
  // "a null record is ignored and a disabled logger emits nothing": such an emit stays in the list so
  // that every exporter can be checked NOT to have it
  if (style == 1 && null_record)
  {
    e.exported   = false;
    e.why_silent = "the record was null";
  }
  else if (!s.loggers[emit_li].enabled)
  {
    e.exported   = false;
    e.why_silent = e.creator >= 0 && L.enabled
                       ? "it was emitted through a DISABLED logger (created by an enabled one)"
                       : "it was emitted through a disabled logger";
  }
  else if (!L.enabled)
  {
    e.exported   = false;  // unreachable by construction (disabled -> enabled is not generated)
    e.why_silent = "it was created by a disabled logger";
  }
  expected.push_back(e);
}

void compare(vh::Case &c, const Expected &e, const Captured &g, const Setup &s, const std::string &who)
{
  std::string diff;
  VH_CHECK(c, g.severity == e.severity, who << ": severity " << g.severity << " expected " << e.severity);
  if (e.body_given)
    VH_CHECK(c, sg::equals(e.body, g.body), who << ": body " << sg::show_owned(g.body) << " expected "
                                                << sg::show_mvalue(e.body));
  VH_CHECK(c, sg::maps_equal(e.attrs, g.attrs, &diff), who << ": attributes differ: " << diff);
  if (e.ts_given)
    VH_CHECK(c, g.ts_ns == e.ts_ns, who << ": timestamp " << g.ts_ns << " expected " << e.ts_ns);
  if (e.event_given)
    VH_CHECK(c, g.event_id == e.event_id && g.event_name == e.event_name,
             who << ": event " << g.event_id << "/'" << vh::show(g.event_name) << "' expected " << e.event_id
                 << "/'" << vh::show(e.event_name) << "'");
  bool id_ok  = g.trace_id == e.trace_id && g.span_id == e.span_id && g.flags == e.flags;
  bool alt_ok = e.has_alt && g.trace_id == e.alt_trace_id && g.span_id == e.alt_span_id && g.flags == e.alt_flags;
  VH_CHECK(c, id_ok || alt_ok,
           who << ": trace identity " << g.trace_id << "/" << g.span_id << "/f" << int(g.flags) << " expected "
               << e.trace_id << "/" << e.span_id << "/f" << int(e.flags)
               << (e.has_alt ? " (or " + e.alt_trace_id + "/" + e.alt_span_id + "/f" + std::to_string(e.alt_flags) + ")"
                             : std::string()));
  const LoggerInfo &L = s.loggers[static_cast<size_t>(e.logger)];
  auto scope_is       = [&](const LoggerInfo &x) {
    return g.scope_name == x.name && g.scope_version == x.version && g.scope_schema == x.schema;
  };
  // created by one logger, emitted through another: the scope of either is accepted
  const LoggerInfo *K = e.creator >= 0 ? &s.loggers[static_cast<size_t>(e.creator)] : nullptr;
  VH_CHECK(c, scope_is(L) || (K != nullptr && scope_is(*K)),
           who << ": instrumentation scope " << g.scope_name << "/" << g.scope_version << "/" << g.scope_schema
               << " expected " << L.name << "/" << L.version << "/" << L.schema
               << (K ? " (or the creating logger's " + K->name + "/" + K->version + "/" + K->schema + ")"
                     : std::string()));
  VH_CHECK(c, g.has_res_key && g.res_key == s.res_val, who << ": the record does not reference the provider's resource");
}

void finish(vh::Case &c, Setup &s, const std::vector<Expected> &expected,
            std::vector<std::unique_ptr<Store>> &parked)
{
  VH_CHECK(c, s.provider->ForceFlush(), "LoggerProvider::ForceFlush returned false");
  parked.clear();
  for (size_t i = 0; i < s.sinks.size(); ++i)
  {
    std::lock_guard<std::mutex> g(s.sinks[i]->mu);
    std::string who = "processor " + std::to_string(i) + (s.is_batch[i] ? " (batch)" : " (simple)") +
                      (i >= s.configured ? " [never added to the provider]" : "");
    std::map<int64_t, const Captured *> by_marker;
    for (auto &r : s.sinks[i]->records)
    {
      VH_CHECK(c, !r.foreign, who << ": the exporter was handed a recordable that its own MakeRecordable() did not create");
      VH_CHECK(c, r.marker >= 0, who << ": a record without the emit marker was exported");
      VH_CHECK(c, by_marker.emplace(r.marker, &r).second, who << ": emit #" << r.marker << " was exported twice");
    }
    size_t accounted = 0;
    for (auto &e : expected)
    {
      auto it = by_marker.find(e.marker);
      if (!e.exported)
      {
        VH_CHECK(c, it == by_marker.end(), who << ": emit #" << e.marker << " was exported (scope "
                                               << (it == by_marker.end() ? std::string() : it->second->scope_name)
                                               << ") although " << e.why_silent);
        continue;
      }
      // configured when the record was created: must have it.  Added later: may have it.
      if (i < e.must_reach)
        VH_CHECK(c, it != by_marker.end(), who << ": emit #" << e.marker << " never reached the exporter");
      if (it != by_marker.end())
      {
        ++accounted;
        compare(c, e, *it->second, s, who + " emit #" + std::to_string(e.marker));
      }
    }
    VH_CHECK(c, by_marker.size() == accounted, who << ": " << by_marker.size() << " records exported, only " << accounted
                                                   << " of them belong to an emit of this program");
  }
  for (auto &l : s.loggers)
    l.logger = otel::nostd::shared_ptr<lg::Logger>(nullptr);
  s.provider->Shutdown();
}

void one_scope_op(vh::Reader &rd, ThreadState &ts, std::string &notes, const std::string &label);

// 0..2 scope operations before an emit, so that "span A ends, span B starts" happens between two
// emits (a freed span's storage is then typically reused by the next span)
void maybe_scope_op(vh::Reader &rd, ThreadState &ts, std::string &notes, const std::string &label)
{
  unsigned n = static_cast<unsigned>(rd.weighted({3, 5, 3}));
  for (unsigned i = 0; i < n; ++i)
    one_scope_op(rd, ts, notes, label);
}

void one_scope_op(vh::Reader &rd, ThreadState &ts, std::string &notes, const std::string &label)
{
  // 0 nothing, 1 activate a DefaultSpan with a valid context, 2 deactivate the innermost frame,
  // 3.. the other frame kinds of push_frame
  size_t k = rd.weighted({4, 8, 6, 2, 1, 1, 2, 2});
  if (k == 2)
  {
    if (!ts.scopes.empty())
    {
      ts.scopes.pop_back();
      notes += " " + label + "deactivate\n";
    }
  }
  else if (k != 0)
    push_frame(rd, ts, k, notes, label);
}

// Span churn burst: a record is emitted under span A; A is deactivated and its last reference dropped
// (the object is freed); a NEW span B of the same concrete type starts and is activated right away (an
// allocator that reuses freed blocks puts B at A's old address); the caller emits the next record under
// B with no record under any other span in between.  That record must carry B's ids: anything that
// remembers "the active span" by object address instead of by identity shows here.
void maybe_span_churn(vh::Reader &rd, Setup &s, ThreadState &ts, int64_t &marker, std::vector<Expected> &expected,
                      std::string &notes, EmitStats &st, std::vector<std::unique_ptr<Store>> &parked,
                      const std::string &label)
{
  if (!rd.chance(15))
    return;
  // 0 SDK span (recording), 1 DefaultSpan, 2 SDK span (ended before it is activated), 3 SDK span (dropped)
  static const char *const names[] = {"sdk-span-recording", "DefaultSpan", "sdk-span-ended", "sdk-span-dropped"};
  const size_t which               = rd.weighted({4, 3, 1, 1});
  const size_t kind                = which == 1 ? 1 : 7;
  const int how                    = which == 0 ? 0 : (which == 2 ? 1 : (which == 3 ? 2 : -1));
  notes += " " + label + "[span churn: " + names[which] + " A, emit, release A, start B, emit]\n";
  // DefaultSpan: A and B are placed in the same storage by the harness; SDK spans are allocated inside the
  // tracer, B lands on A's address when the allocator reuses freed blocks at once (runs without quarantine)
  std::shared_ptr<SpanSlot> slot = which == 1 ? std::make_shared<SpanSlot>() : nullptr;
  push_frame(rd, ts, kind, notes, label, how, slot);
  do_emit(rd, s, ts, marker++, expected, notes, st, parked, label);
  ts.scopes.pop_back();  // the Scope held the last reference: span A is destroyed here
  notes += " " + label + "deactivate\n";
  const bool same_address = slot && !slot->live;
  push_frame(rd, ts, kind, notes, label, how, slot);
  st.tags.insert(std::string("span-churn:") + names[which] + (same_address ? " (B at A's address)" : ""));
}

// No state may leak from one case into the next - also none the LIBRARY keeps per thread.  Every case
// therefore starts from the same situation: the last record this thread created was created under a
// span that is alive for the whole process (so its address is never handed out again), through a
// provider of its own without processors.  Whatever a failing case needs, it has to contain itself;
// the saved replay then fails in a fresh process too.
void reset_thread_logging_state()
{
  static sdkl::LoggerProvider *provider = new sdkl::LoggerProvider();
  static otel::nostd::shared_ptr<lg::Logger> *logger =
      new otel::nostd::shared_ptr<lg::Logger>(provider->GetLogger("vh-sentinel", "vh-sentinel"));
  static otel::nostd::shared_ptr<tr::Span> *span = []() {
    const uint8_t t[16] = {0x5e, 0x17, 0x1e, 1, 2, 3, 4, 5, 6, 7, 8, 9, 10, 11, 12, 13};
    const uint8_t i[8]  = {0x5e, 0x17, 0x1e, 1, 2, 3, 4, 5};
    return new otel::nostd::shared_ptr<tr::Span>(
        new tr::DefaultSpan(tr::SpanContext(tr::TraceId(t), tr::SpanId(i), tr::TraceFlags(0), false)));
  }();
  tr::Scope scope(*span);
  otel::nostd::unique_ptr<lg::LogRecord> rec = (*logger)->CreateLogRecord();
}
}  // namespace

void emit_tags(vh::Case &c, const std::set<std::string> &tags)
{
  for (auto &t : tags)
    c.tag(t);
}

VH_TARGET(log_program, 8,
          "non-trivial when a non-scalar body/attribute was emitted (its caller storage is released right "
          "after Emit), or a span was active at an emit, or 2+ processors are configured, or a processor was "
          "added between CreateLogRecord and EmitLogRecord of an exported record; distinct = distinct program text")
{
  reset_thread_logging_state();
  Setup s = make_setup(c);
  std::vector<Expected> expected;
  std::vector<std::unique_ptr<Store>> parked;
  EmitStats st;
  std::string notes;
  {
    ThreadState ts;
    unsigned n     = 1 + c.rd.below(6);
    int64_t marker = 0;
    for (unsigned i = 0; i < n && (i < 1 || !c.rd.exhausted()); ++i)
    {
      maybe_scope_op(c.rd, ts, notes, "");
      // a held back processor joins between two emits (or before the first one)
      if (!s.pending.empty() && c.rd.chance(25) && add_pending(s, notes, "", i == 0 ? "before the first emit" : "between two emits"))
        st.tags.insert(i == 0 ? "AddProcessor:before-first-emit" : "AddProcessor:between-emits");
      maybe_span_churn(c.rd, s, ts, marker, expected, notes, st, parked, "");
      do_emit(c.rd, s, ts, marker++, expected, notes, st, parked, "");
    }
    ts.clear();
    st.tags.insert(ts.tags.begin(), ts.tags.end());
  }
  c.note(notes);
  if (st.nonscalar)
    c.tag("non-scalar");
  if (st.active_span)
    c.tag("active-span");
  if (st.deferred_nonscalar)
    c.tag("non-scalar+deferred-export");
  emit_tags(c, st.tags);
  c.nontrivial = st.nonscalar || st.active_span || s.sinks.size() >= 2 || st.add_in_flight;
  finish(c, s, expected, parked);
}

VH_TARGET(log_threads, 10,
          "2..3 real threads, each with its own active spans, emit concurrently; non-trivial when 2+ "
          "threads emitted with an active span; distinct = distinct program text")
{
  Setup s     = make_setup(c);
  {
    // AddProcessor is not thread safe: the held back processors join before the threads start
    std::string n0;
    while (add_pending(s, n0, "", "before the threads start"))
      c.tag("AddProcessor:before-first-emit");
    c.note(n0);
  }
  unsigned nt = 2 + c.rd.below(2);
  std::vector<std::vector<uint8_t>> slices(nt);
  for (unsigned t = 0; t < nt; ++t)
  {
    std::string b = c.rd.bytes(60 + c.rd.below(160));
    slices[t].assign(b.begin(), b.end());
  }
  std::vector<std::vector<Expected>> expected(nt);
  std::vector<std::string> notes(nt);
  std::vector<EmitStats> st(nt);
  std::vector<std::vector<std::unique_ptr<Store>>> parked(nt);
  std::vector<std::thread> ths;
  for (unsigned t = 0; t < nt; ++t)
    ths.emplace_back([&, t]() {
      vh::Reader rd(slices[t].data(), slices[t].size());
      ThreadState ts;
      unsigned n     = 1 + rd.below(4);
      int64_t marker = static_cast<int64_t>(t * 1000);
      for (unsigned i = 0; i < n; ++i)
      {
        maybe_scope_op(rd, ts, notes[t], "T" + std::to_string(t) + " ");
        maybe_span_churn(rd, s, ts, marker, expected[t], notes[t], st[t], parked[t], "T" + std::to_string(t) + " ");
        do_emit(rd, s, ts, marker++, expected[t], notes[t], st[t], parked[t], "T" + std::to_string(t) + " ");
      }
      ts.clear();
      st[t].tags.insert(ts.tags.begin(), ts.tags.end());
    });
  for (auto &th : ths)
    th.join();
  std::vector<Expected> all;
  std::vector<std::unique_ptr<Store>> all_parked;
  unsigned with_span = 0;
  std::set<std::string> tags;
  for (unsigned t = 0; t < nt; ++t)
  {
    c.note(notes[t]);
    for (auto &e : expected[t])
      all.push_back(e);
    for (auto &p : parked[t])
      all_parked.push_back(std::move(p));
    if (st[t].active_span)
      ++with_span;
    tags.insert(st[t].tags.begin(), st[t].tags.end());
  }
  c.tag("threads-" + std::to_string(nt));
  emit_tags(c, tags);
  c.nontrivial = with_span >= 2;
  finish(c, s, all, all_parked);
}

// Fixed witness of open finding F5 (independent of the generators, so decoder changes cannot
// invalidate it): one batch processor, EmitLogRecord(severity, string body, string attribute), the
// caller's storage is scribbled and freed when Emit returns, then the provider is flushed.
// ================================================================================================
// "... the instrumentation scope ... holding the values given at emit time regardless of what the caller does after
// Emit returns" - what the caller does here is RELEASE ITS LOGGER HANDLE and ask the provider for other loggers
// while the record still waits in a batch processor's queue.  Bodies are int64 and the only attribute is the int64
// marker (no caller-owned storage is involved: independent of the open finding F5).  (Seeded C13-m12: GetLogger
// dropped loggers nobody else referenced; the queued record kept a pointer to the dead logger's scope.)
VH_TARGET(logger_lifetime, 4,
          "a batch processor that exports nothing before the final ForceFlush (optionally next to a simple one); 1..6 "
          "emits, each through a logger obtained for a generated scope; after an emit the handle is kept or released and "
          "0..2 further loggers (known or new scopes) are requested; non-trivial when a handle was released before the "
          "flush and a logger for a NEW scope was requested afterwards; distinct = distinct program text")
{
  vh::Reader &rd = c.rd;
  auto bsink = std::make_shared<Sink>();
  auto ssink = std::make_shared<Sink>();
  const bool with_simple = rd.coin();
  sdkl::BatchLogRecordProcessorOptions o;
  o.schedule_delay_millis = std::chrono::milliseconds(1000);  // (almost) nothing leaves the queue before ForceFlush
  o.max_queue_size        = 64;
  o.max_export_batch_size = 64;
  std::vector<std::unique_ptr<sdkl::LogRecordProcessor>> procs;
  procs.emplace_back(new sdkl::BatchLogRecordProcessor(
      std::unique_ptr<sdkl::LogRecordExporter>(new CaptureExporter(bsink)), o));
  if (with_simple)
    procs.emplace_back(
        new sdkl::SimpleLogRecordProcessor(std::unique_ptr<sdkl::LogRecordExporter>(new CaptureExporter(ssink))));
  auto provider = std::make_shared<sdkl::LoggerProvider>(std::move(procs));
  struct Emit
  {
    std::string name, version, schema;
  };
  std::vector<Emit> emits;
  std::vector<otel::nostd::shared_ptr<lg::Logger>> kept;
  unsigned n = 1 + rd.below(6), fresh = 0;
  bool released_then_new = false;
  std::string text = with_simple ? "batch+simple:" : "batch:";
  for (unsigned i = 0; i < n; ++i)
  {
    Emit e;
    unsigned scope = rd.below(4);  // a small pool: the same scope comes back
    e.name         = "lib" + std::to_string(scope);
    e.version      = scope & 1 ? "1." + std::to_string(scope) : "";
    e.schema       = scope & 2 ? "https://schema/" + std::to_string(scope) : "";
    bool release   = rd.chance(60);
    {
      auto logger = provider->GetLogger("logger" + std::to_string(scope), e.name, e.version, e.schema);
      VH_CHECK(c, logger.get() != nullptr, "GetLogger returned null");
      logger->EmitLogRecord(lg::Severity::kInfo, static_cast<int64_t>(1000 + i),
                            otel::common::MakeAttributes({{"vh.marker", static_cast<int64_t>(i)}}));
      if (!release)
        kept.push_back(logger);
    }
    text += " emit#" + std::to_string(i) + "(" + e.name + "/" + e.version + "/" + e.schema + (release ? ",released" : ",kept") + ")";
    emits.push_back(e);
    unsigned more = rd.below(3);
    for (unsigned k = 0; k < more; ++k)
    {
      bool new_scope = rd.coin();
      std::string nm = new_scope ? "fresh" + std::to_string(fresh++) : "lib" + std::to_string(rd.below(4));
      auto other     = provider->GetLogger("other-" + nm, nm, "", "");
      text += std::string(" GetLogger(") + nm + ")";
      if (new_scope && release)
        released_then_new = true;
      if (rd.coin())
        kept.push_back(other);
    }
  }
  c.note(text + " ForceFlush\n");
  c.nontrivial = released_then_new;
  if (released_then_new)
    c.tag("handle-released-then-new-scope-requested");
  VH_CHECK(c, provider->ForceFlush(), "ForceFlush returned false");
  auto check_sink = [&](Sink &sink, const char *who) {
    std::lock_guard<std::mutex> g(sink.mu);
    VH_CHECK(c, sink.records.size() == emits.size(), who << ": " << sink.records.size() << " records exported, "
                                                          << emits.size() << " emitted");
    for (auto &r : sink.records)
    {
      VH_CHECK(c, r.marker >= 0 && static_cast<size_t>(r.marker) < emits.size(), who << ": a record without its marker");
      const Emit &e = emits[static_cast<size_t>(r.marker)];
      VH_CHECK(c, r.scope_name == e.name && r.scope_version == e.version && r.scope_schema == e.schema,
               who << ": emit #" << r.marker << " carries the scope '" << vh::show(r.scope_name) << "/"
                   << vh::show(r.scope_version) << "/" << vh::show(r.scope_schema) << "', it was emitted through a logger of '"
                   << e.name << "/" << e.version << "/" << e.schema << "'");
    }
  };
  check_sink(*bsink, "batch processor");
  if (with_simple)
    check_sink(*ssink, "simple processor");
  kept.clear();
  provider.reset();
}

VH_TARGET(f5_witness, 1, "fixed witness case of known finding F5 (not part of the search)")
{
  c.note("batch processor; EmitLogRecord(kInfo, 'body-string', {k='attr-string'}); storage freed after Emit; ForceFlush\n");
  auto sink = std::make_shared<Sink>();
  sdkl::BatchLogRecordProcessorOptions o;
  o.schedule_delay_millis = std::chrono::milliseconds(5);
  std::unique_ptr<sdkl::LogRecordProcessor> proc(new sdkl::BatchLogRecordProcessor(
      std::unique_ptr<sdkl::LogRecordExporter>(new CaptureExporter(sink)), o));
  auto provider = std::make_shared<sdkl::LoggerProvider>(std::move(proc));
  auto logger   = provider->GetLogger("w", "lib");
  sg::KVList attrs = {{"k", sg::MValue(std::string("attr-string-0123456789"))}};
  sg::MValue body  = sg::MValue(std::string("body-string-0123456789"));
  {
    sg::Arena a;
    sg::ArenaKV akv(attrs, a);
    const otel::common::KeyValueIterable &kvi = akv;
    logger->EmitLogRecord(lg::Severity::kInfo, sg::to_api(body, a), kvi);
    a.release();
  }
  provider->ForceFlush();
  std::lock_guard<std::mutex> g(sink->mu);
  VH_CHECK(c, sink->records.size() == 1, "expected one exported record, got " << sink->records.size());
  VH_CHECK(c, sg::equals(body, sink->records[0].body), "body " << sg::show_owned(sink->records[0].body)
                                                               << " expected " << sg::show_mvalue(body));
  sg::KVMap m;
  sg::apply_last_wins(m, attrs);
  std::string diff;
  VH_CHECK(c, sg::maps_equal(m, sink->records[0].attrs, &diff), "attributes differ: " << diff);
}

// Fixed witness of the defect candidate C13-eventid-noname (independent of the generators and of
// kHoldBack_eventid_noname): one simple processor; the documented overload
// Logger::Log(Severity, int64_t event_id, format, attributes) builds EventId{event_id}, whose name_ is a
// null pointer, and LogRecordSetterTrait<EventId>::Set turns it into nostd::string_view{nullptr}
// (strlen(nullptr)).  Expected: the record arrives with event id 7 and the empty event name.
VH_TARGET(eventid_noname_witness, 1,
          "fixed witness case of finding C13-eventid-noname (fixed in /repo; not part of the search)")
{
  c.note("simple processor; Log(kInfo, int64 event_id=7, 'fmt', {k=1}) and EmitLogRecord(EventId(8), kWarn, 'b')\n");
  auto sink = std::make_shared<Sink>();
  std::unique_ptr<sdkl::LogRecordProcessor> proc(new sdkl::SimpleLogRecordProcessor(
      std::unique_ptr<sdkl::LogRecordExporter>(new CaptureExporter(sink))));
  auto provider = std::make_shared<sdkl::LoggerProvider>(std::move(proc));
  auto logger   = provider->GetLogger("w", "lib");
  sg::KVList attrs = {{"k", sg::MValue(static_cast<int64_t>(1))}};
  {
    sg::Arena a;
    sg::ArenaKV akv(attrs, a);
    const otel::common::KeyValueIterable &kvi = akv;
    int64_t event_id                          = 7;
    otel::nostd::string_view fmt              = a.view("fmt");
    logger->Log(lg::Severity::kInfo, event_id, fmt, kvi);
    logger->EmitLogRecord(lg::EventId(8), lg::Severity::kWarn, fmt);
    a.release();
  }
  std::lock_guard<std::mutex> g(sink->mu);
  VH_CHECK(c, sink->records.size() == 2, "expected two exported records, got " << sink->records.size());
  VH_CHECK(c, sink->records[0].event_id == 7 && sink->records[0].event_name.empty(),
           "event " << sink->records[0].event_id << "/'" << vh::show(sink->records[0].event_name) << "' expected 7/''");
  VH_CHECK(c, sink->records[1].event_id == 8 && sink->records[1].event_name.empty(),
           "event " << sink->records[1].event_id << "/'" << vh::show(sink->records[1].event_name) << "' expected 8/''");
}

// c02_provider_sched.cc - C02 at the level of the owning provider, under generated schedules (engine E-SCHED).
//
// Statement: "... nor a periodic metric reader, nor ForceFlush on the provider that owns them, returns true
// unless everything recorded before the call was passed to Export and the exporter's ForceFlush was invoked".
//
// The whole metrics SDK (MeterProvider, MeterContext, Meter, storages, MetricCollector,
// PeriodicExportingMetricReader, MetricReader) is compiled from token-renamed copies against the scheduler
// shim, so the interleaving of several threads that record (Counter::Add), call MeterProvider::ForceFlush with
// generated timeouts and call MeterProvider::Shutdown - against the readers' own worker threads and slow or
// failing exporters - is a generated input.  Unlike reader_sched (reader + stub producer) the measurements
// travel through the real pipeline and the flush goes through MeterContext::ForceFlush, which serialises callers.
//
// Oracle (logical stamps; one logical thread runs at a time, so "h.recorded at the call" is exact):
//   provider.ForceFlush returned true and was called before any Shutdown returned  ==>  for EVERY reader of the
//   provider an Export whose cumulative sum covers every Add that had returned before the call was entered
//   after the call and finished before the return, and that reader's exporter.ForceFlush ran in the window;
//   no Export is entered after the first Shutdown call returned; one Export at a time per exporter;
//   no deadlock / step-budget overrun (scheduler), no reader thread alive at the end.
#include <algorithm>
#include <chrono>
#include <memory>
#include <string>
#include <vector>

#include "opentelemetry/metrics/sync_instruments.h"
#include "opentelemetry/sdk/common/global_log_handler.h"
#include "opentelemetry/sdk/metrics/data/metric_data.h"
#include "opentelemetry/sdk/metrics/data/point_data.h"
#include "opentelemetry/sdk/metrics/meter_context.h"
#include "opentelemetry/sdk/metrics/meter_provider.h"
#include "opentelemetry/sdk/metrics/view/view_registry.h"
#include "opentelemetry/sdk/resource/resource.h"
#include "reader_sched.h"

const char *vh_property_id = "C02";

namespace
{
namespace otel  = opentelemetry;
namespace sdkm  = opentelemetry::sdk::metrics;
namespace nostd = opentelemetry::nostd;

class NullLog : public otel::sdk::common::internal_log::LogHandler
{
public:
  void Handle(otel::sdk::common::internal_log::LogLevel, const char *, int, const char *,
              const otel::sdk::common::AttributeMap &) noexcept override
  {}
};

// what one Export call carried: the cumulative sum over every point of every metric
long sum_of(const sdkm::ResourceMetrics &data)
{
  long total = 0;
  for (auto &sm : data.scope_metric_data_)
    for (auto &md : sm.metric_data_)
      for (auto &p : md.point_data_attr_)
        if (nostd::holds_alternative<sdkm::SumPointData>(p.point_data))
        {
          auto &v = nostd::get<sdkm::SumPointData>(p.point_data).value_;
          total += nostd::holds_alternative<int64_t>(v) ? static_cast<long>(nostd::get<int64_t>(v))
                                                         : static_cast<long>(nostd::get<double>(v));
        }
  return total;
}

class ProviderExporter final : public sdkm::PushMetricExporter
{
public:
  ProviderExporter(const rs::Cfg &cfg, rs::History &h, vsched::Scheduler &s, int64_t extra_latency_us)
      : cfg_(cfg), h_(h), s_(s), extra_(extra_latency_us)
  {}
  otel::sdk::common::ExportResult Export(const sdkm::ResourceMetrics &data) noexcept override
  {
    rs::ExportRec r;
    r.entry    = s_.stamp();
    r.snapshot = sum_of(data);
    if (++h_.in_flight > h_.max_in_flight)
      h_.max_in_flight = h_.in_flight;
    ++calls_;
    vsched::point();
    if (cfg_.export_latency_us + extra_ > 0)
      vsched::this_thread::sleep_for(std::chrono::microseconds(cfg_.export_latency_us + extra_));
    else
      vsched::this_thread::yield();
    --h_.in_flight;
    r.exit = s_.stamp();
    h_.exports.push_back(r);
    bool fail = cfg_.export_fail_every > 0 && (calls_ % cfg_.export_fail_every) == 0;
    return fail ? otel::sdk::common::ExportResult::kFailure : otel::sdk::common::ExportResult::kSuccess;
  }
  sdkm::AggregationTemporality GetAggregationTemporality(sdkm::InstrumentType) const noexcept override
  {
    return sdkm::AggregationTemporality::kCumulative;
  }
  bool ForceFlush(std::chrono::microseconds) noexcept override
  {
    rs::XCall x;
    x.entry = s_.stamp();
    vsched::point();
    if (cfg_.xflush_latency_us > 0)
      vsched::this_thread::sleep_for(std::chrono::microseconds(cfg_.xflush_latency_us));
    x.exit = s_.stamp();
    h_.xflush.push_back(x);
    return cfg_.xflush_result;
  }
  bool Shutdown(std::chrono::microseconds) noexcept override
  {
    rs::XCall x;
    x.entry = s_.stamp();
    vsched::point();
    x.exit = s_.stamp();
    h_.xshutdown.push_back(x);
    return true;
  }

private:
  const rs::Cfg &cfg_;
  rs::History &h_;
  vsched::Scheduler &s_;
  int64_t extra_;
  int calls_ = 0;
};

void run(vh::Case &c)
{
  static bool quiet = [] {
    otel::sdk::common::internal_log::GlobalLogHandler::SetLogHandler(
        nostd::shared_ptr<otel::sdk::common::internal_log::LogHandler>(new NullLog));
    return true;
  }();
  (void)quiet;
  rs::Cfg cfg        = rs::gen_cfg(c.rd);
  unsigned n_readers = 1 + c.rd.below(2);
  // the second reader's exporter may be slower than the first one's (a flush has to wait for both)
  int64_t extra2 = c.rd.coin() ? 0 : 4000;
  c.note(rs::describe(cfg));
  c.note(" provider with " + std::to_string(n_readers) + " periodic reader(s), cumulative" +
         (n_readers == 2 ? ", second exporter +" + std::to_string(extra2) + "us" : std::string()) + "\n");
  std::vector<rs::History> hs(n_readers);
  std::vector<rs::CtlRec> ctl;
  long recorded = 0;

  vsh::ByteSource src(c.rd, 40);
  vsched::Options opt;
  opt.step_budget = 3000000;
  if (cfg.aligned)
  {
    opt.timer_slack_ns = 30000;
    c.tag("export-latency-equals-a-flush-timeout");
  }
  c.note(std::string(" schedule-mode=") + src.mode_name() + (cfg.aligned ? " timer-slack=30us" : "") + "\n");
  vsched::RunStats stats = vsched::run(&src, opt, vsh::fatal, [&](vsched::Scheduler &s) {
    std::unique_ptr<sdkm::MeterContext> ctx(new sdkm::MeterContext(
        std::unique_ptr<sdkm::ViewRegistry>(new sdkm::ViewRegistry), otel::sdk::resource::Resource::Create({})));
    sdkm::MeterProvider provider(std::move(ctx));
    for (unsigned r = 0; r < n_readers; ++r)
    {
      sdkm::PeriodicExportingMetricReaderOptions o;
      o.export_interval_millis = std::chrono::milliseconds(cfg.interval_ms);
      o.export_timeout_millis  = std::chrono::milliseconds(cfg.timeout_ms);
      std::unique_ptr<sdkm::PushMetricExporter> ex(new ProviderExporter(cfg, hs[r], s, r == 1 ? extra2 : 0));
      provider.AddMetricReader(std::make_shared<sdkm::PeriodicExportingMetricReader>(std::move(ex), o));
    }
    auto meter   = provider.GetMeter("m", "1", "");
    auto counter = meter->CreateUInt64Counter("c", "", "");
    bool shut    = false;
    auto run_prog = [&](const std::vector<rs::Op> &prog) {
      for (auto &op : prog)
      {
        switch (op.kind)
        {
          case rs::Op::SLEEP:
            vsched::this_thread::sleep_for(std::chrono::microseconds(op.arg));
            break;
          case rs::Op::RECORD:
            counter->Add(1);
            ++recorded;  // no scheduling point between the return of Add and this line
            break;
          default:
          {
            rs::CtlRec r;
            r.is_flush         = op.kind == rs::Op::FLUSH;
            r.timeout_us       = op.arg;
            auto to            = op.arg < 0 ? (std::chrono::microseconds::max)() : std::chrono::microseconds(op.arg);
            r.recorded_at_call = recorded;
            r.call             = s.stamp();
            if (r.is_flush)
              r.result = provider.ForceFlush(to);
            else
            {
              shut     = true;
              r.result = provider.Shutdown(to);
            }
            r.ret = s.stamp();
            ctl.push_back(r);
            break;
          }
        }
      }
    };
    std::vector<std::unique_ptr<vsched::thread>> ts;
    for (size_t t = 0; t < cfg.threads.size(); ++t)
      ts.emplace_back(new vsched::thread([&, t]() { run_prog(cfg.threads[t]); }));
    for (auto &t : ts)
      t->join();
    run_prog(cfg.tail);
    (void)shut;
    // the provider's destructor shuts down whatever is still running
  });
  {
    std::string sch = " sched=";
    for (auto &d : vsh::last_trace())
    {
      if (sch.size() > 500)
        break;
      sch.push_back(static_cast<char>(d.spurious ? (d.chosen ? 'S' : 's') : ('0' + d.chosen)));
    }
    c.note(sch + "\n");
  }
  VH_CHECK(c, !stats.leaked_threads, "a reader thread was still alive after the provider had been destroyed");
  if (stats.preemptions)
    c.tag("preempted");
  c.tag(n_readers == 2 ? "2-readers" : "1-reader");

  // the first Shutdown that did the work is the one that returns last among overlapping callers (later callers
  // return at once); "after Shutdown returned" is therefore counted from the return of the FIRST-CALLED Shutdown
  uint64_t fin = UINT64_MAX, first_call = UINT64_MAX;
  for (auto &k : ctl)
    if (!k.is_flush && k.call < first_call)
    {
      first_call = k.call;
      fin        = k.ret;
    }
  bool any_flush = false, overlap = false;
  for (auto &f : ctl)
  {
    if (!f.is_flush)
      continue;
    any_flush = true;
    for (auto &g : ctl)
      if (&g != &f && g.call < f.ret && f.call < g.ret)
      {
        overlap = true;
        c.tag(g.is_flush ? "flush-overlaps-flush" : "flush-overlaps-shutdown");
      }
    if (!f.result)
    {
      c.tag("flush-false");
      continue;
    }
    if (f.call > fin)
      continue;  // a flush after Shutdown returned is without effect
    c.tag("flush-true");
    for (unsigned r = 0; r < n_readers; ++r)
    {
      bool covered = false;
      long best    = -1;
      for (auto &e : hs[r].exports)
        if (e.entry > f.call && e.exit < f.ret)
        {
          best = std::max(best, e.snapshot);
          if (e.snapshot >= f.recorded_at_call)
            covered = true;
        }
      if (f.recorded_at_call == 0 && !covered)
      {
        // nothing had been recorded: an empty collection need not reach Export at all
        c.tag("flush-true-nothing-recorded");
        continue;
      }
      VH_CHECK(c, covered, "MeterProvider::ForceFlush (call@" << f.call << ", ret@" << f.ret << ", timeout "
                                                              << rs::show_us(f.timeout_us)
                                                              << ") returned true but reader " << r
                                                              << " was not handed, inside that window, an Export carrying the "
                                                              << f.recorded_at_call
                                                              << " measurements recorded before the call (best Export in the window: "
                                                              << best << ")");
      bool x_in_window = false;
      for (auto &x : hs[r].xflush)
        if (x.entry > f.call && x.exit < f.ret)
          x_in_window = true;
      VH_CHECK(c, x_in_window, "MeterProvider::ForceFlush returned true but the ForceFlush of reader "
                                   << r << "'s exporter was not invoked in its window");
    }
  }
  for (unsigned r = 0; r < n_readers; ++r)
  {
    for (auto &e : hs[r].exports)
      VH_CHECK(c, e.entry < fin, "reader " << r << " called Export (entry@" << e.entry
                                           << ") after MeterProvider::Shutdown had returned (@" << fin << ")");
    VH_CHECK(c, hs[r].max_in_flight <= 1, "reader " << r << " entered Export while a previous Export on the same exporter "
                                                    << "was still running (" << hs[r].max_in_flight << " in flight)");
    // a sum can only grow: every Export of a cumulative reader carries at least what an earlier one carried
    long prev = 0;
    for (auto &e : hs[r].exports)
    {
      VH_CHECK(c, e.snapshot <= recorded, "an Export carried " << e.snapshot << " but only " << recorded << " was recorded");
      prev = std::max(prev, e.snapshot);
    }
  }
  c.nontrivial = any_flush && (overlap || cfg.export_latency_us || cfg.export_fail_every || !cfg.xflush_result ||
                               rs::flush_overlaps_export(hs[0]));
}
}  // namespace

VH_TARGET(provider_sched, 4,
          "MeterProvider owning 1..2 PeriodicExportingMetricReaders, whole metrics SDK under the scheduler shim: "
          "non-trivial when a ForceFlush on the provider overlapped another ForceFlush / Shutdown call by logical "
          "stamps, or overlapped an Export, or an exporter fault/latency was injected; distinct = distinct (scenario, "
          "schedule taken)")
{
  run(c);
}

// sdkgen.h - shared generators / models for the SDK-level harnesses (C04, C13, C05, ...):
// attribute values over every AttributeValue alternative with short-lived caller storage,
// attribute sets with duplicate keys, ids, span contexts.
#pragma once

#include <cmath>
#include <cstring>
#include <map>
#include <memory>
#include <string>
#include <variant>
#include <vector>

#include "opentelemetry/common/attribute_value.h"
#include "opentelemetry/common/key_value_iterable.h"
#include "opentelemetry/sdk/common/attribute_utils.h"
#include "opentelemetry/trace/span_context.h"
#include "opentelemetry/trace/span_context_kv_iterable.h"
#include "opentelemetry/trace/trace_state.h"
#include "vh.h"

namespace sg
{
namespace otel = opentelemetry;

// ------------------------------------------------------------------------------------------------
// model of an attribute value: what the exporter must see (owned), independent of the SDK's
// conversion code
using MValue = std::variant<bool,                      // 0
                            int32_t,                   // 1
                            uint32_t,                  // 2
                            int64_t,                   // 3
                            uint64_t,                  // 4
                            double,                    // 5
                            std::string,               // 6
                            std::vector<bool>,         // 7
                            std::vector<int32_t>,      // 8
                            std::vector<uint32_t>,     // 9
                            std::vector<int64_t>,      // 10
                            std::vector<uint64_t>,     // 11
                            std::vector<double>,       // 12
                            std::vector<std::string>,  // 13
                            std::vector<uint8_t>>;     // 14

inline const char *mvalue_type(const MValue &v)
{
  static const char *n[] = {"bool",  "i32",   "u32",   "i64",   "u64",   "f64",   "str",  "bool[]",
                            "i32[]", "u32[]", "i64[]", "u64[]", "f64[]", "str[]", "bytes"};
  return n[v.index()];
}

inline std::string show_double(double d)
{
  char b[64];
  snprintf(b, sizeof b, "%.17g", d);
  return b;
}

struct ShowMV
{
  std::string operator()(bool b) { return b ? "true" : "false"; }
  std::string operator()(int32_t x) { return std::to_string(x); }
  std::string operator()(uint32_t x) { return std::to_string(x) + "u"; }
  std::string operator()(int64_t x) { return std::to_string(x) + "L"; }
  std::string operator()(uint64_t x) { return std::to_string(x) + "UL"; }
  std::string operator()(double x) { return show_double(x); }
  std::string operator()(const std::string &s) { return "'" + vh::show(s.substr(0, 40)) + "'(" + std::to_string(s.size()) + ")"; }
  std::string operator()(const std::vector<bool> &a)
  {
    std::string o = "[";
    for (size_t i = 0; i < a.size() && i < 8; ++i)
      o += a[i] ? "1" : "0";
    return o + "](" + std::to_string(a.size()) + ")";
  }
  std::string operator()(const std::vector<std::string> &a)
  {
    std::string o = "[";
    for (size_t i = 0; i < a.size() && i < 4; ++i)
      o += (i ? "," : "") + std::string("'") + vh::show(a[i].substr(0, 12)) + "'";
    return o + "](" + std::to_string(a.size()) + ")";
  }
  std::string operator()(const std::vector<double> &a)
  {
    std::string o = "[";
    for (size_t i = 0; i < a.size() && i < 4; ++i)
      o += (i ? "," : "") + show_double(a[i]);
    return o + "](" + std::to_string(a.size()) + ")";
  }
  template <class T>
  std::string operator()(const std::vector<T> &a)
  {
    std::string o = "[";
    for (size_t i = 0; i < a.size() && i < 6; ++i)
      o += (i ? "," : "") + std::to_string(a[i]);
    return o + "](" + std::to_string(a.size()) + ")";
  }
};

inline std::string show_mvalue(const MValue &v)
{
  return std::string(mvalue_type(v)) + ":" + std::visit(ShowMV{}, v);
}

// compare the model with what the SDK stored (type AND value)
inline bool equals(const MValue &m, const otel::sdk::common::OwnedAttributeValue &o)
{
  using namespace otel::sdk::common;
  namespace ns = otel::nostd;
  switch (m.index())
  {
    case 0:
      return ns::holds_alternative<bool>(o) && ns::get<bool>(o) == std::get<0>(m);
    case 1:
      return ns::holds_alternative<int32_t>(o) && ns::get<int32_t>(o) == std::get<1>(m);
    case 2:
      return ns::holds_alternative<uint32_t>(o) && ns::get<uint32_t>(o) == std::get<2>(m);
    case 3:
      return ns::holds_alternative<int64_t>(o) && ns::get<int64_t>(o) == std::get<3>(m);
    case 4:
      return ns::holds_alternative<uint64_t>(o) && ns::get<uint64_t>(o) == std::get<4>(m);
    case 5:
      return ns::holds_alternative<double>(o) &&
             std::memcmp(&ns::get<double>(o), &std::get<5>(m), sizeof(double)) == 0;
    case 6:
      return ns::holds_alternative<std::string>(o) && ns::get<std::string>(o) == std::get<6>(m);
    case 7:
      return ns::holds_alternative<std::vector<bool>>(o) && ns::get<std::vector<bool>>(o) == std::get<7>(m);
    case 8:
      return ns::holds_alternative<std::vector<int32_t>>(o) &&
             ns::get<std::vector<int32_t>>(o) == std::get<8>(m);
    case 9:
      return ns::holds_alternative<std::vector<uint32_t>>(o) &&
             ns::get<std::vector<uint32_t>>(o) == std::get<9>(m);
    case 10:
      return ns::holds_alternative<std::vector<int64_t>>(o) &&
             ns::get<std::vector<int64_t>>(o) == std::get<10>(m);
    case 11:
      return ns::holds_alternative<std::vector<uint64_t>>(o) &&
             ns::get<std::vector<uint64_t>>(o) == std::get<11>(m);
    case 12:
    {
      if (!ns::holds_alternative<std::vector<double>>(o))
        return false;
      auto &a = ns::get<std::vector<double>>(o);
      auto &b = std::get<12>(m);
      return a.size() == b.size() &&
             (a.empty() || std::memcmp(a.data(), b.data(), a.size() * sizeof(double)) == 0);
    }
    case 13:
      return ns::holds_alternative<std::vector<std::string>>(o) &&
             ns::get<std::vector<std::string>>(o) == std::get<13>(m);
    case 14:
      return ns::holds_alternative<std::vector<uint8_t>>(o) &&
             ns::get<std::vector<uint8_t>>(o) == std::get<14>(m);
  }
  return false;
}

struct ShowOwned
{
  std::string operator()(bool b) { return std::string("bool:") + (b ? "true" : "false"); }
  std::string operator()(int32_t x) { return "i32:" + std::to_string(x); }
  std::string operator()(uint32_t x) { return "u32:" + std::to_string(x); }
  std::string operator()(int64_t x) { return "i64:" + std::to_string(x); }
  std::string operator()(uint64_t x) { return "u64:" + std::to_string(x); }
  std::string operator()(double x) { return "f64:" + show_double(x); }
  std::string operator()(const std::string &s)
  {
    return "str:'" + vh::show(s.substr(0, 40)) + "'(" + std::to_string(s.size()) + ")";
  }
  std::string operator()(const std::vector<std::string> &a)
  {
    std::string o = "str[]:[";
    for (size_t i = 0; i < a.size() && i < 4; ++i)
      o += (i ? "," : "") + std::string("'") + vh::show(a[i].substr(0, 12)) + "'";
    return o + "](" + std::to_string(a.size()) + ")";
  }
  template <class T>
  std::string operator()(const std::vector<T> &a)
  {
    return "array(" + std::to_string(a.size()) + ")";
  }
};

inline std::string show_owned(const otel::sdk::common::OwnedAttributeValue &o)
{
  namespace ns = otel::nostd;
  return ns::visit(ShowOwned{}, o);
}

// ------------------------------------------------------------------------------------------------
// short-lived caller storage.  Every buffer handed to the SDK is carved from the arena; after the
// API call returns release() overwrites all of it with 0xDD and frees it, so a retained pointer is
// an ASan use-after-free and a late read yields garbage the oracle sees.
class Arena
{
public:
  ~Arena() { release(); }
  char *alloc(size_t n)
  {
    blocks_.emplace_back(new char[n ? n : 1], n);
    return blocks_.back().first.get();
  }
  template <class T>
  T *alloc_array(size_t n)
  {
    // operator new[] of char is suitably aligned for every fundamental type
    return reinterpret_cast<T *>(alloc(n * sizeof(T)));
  }
  // a string view into the middle of a larger buffer: not NUL terminated, poisoned around
  otel::nostd::string_view view(const std::string &s)
  {
    char *b = alloc(s.size() + 2);
    b[0]    = '\x7f';
    std::memcpy(b + 1, s.data(), s.size());
    b[s.size() + 1] = '#';
    return otel::nostd::string_view(b + 1, s.size());
  }
  const char *cstr(const std::string &s)
  {
    char *b = alloc(s.size() + 1);
    std::memcpy(b, s.data(), s.size());
    b[s.size()] = 0;
    return b;
  }
  void release()
  {
    for (auto &b : blocks_)
      std::memset(b.first.get(), 0xDD, b.second);
    blocks_.clear();
  }

private:
  std::vector<std::pair<std::unique_ptr<char[]>, size_t>> blocks_;
};

// the API-level value for a model value, with all storage in the arena.  `form` selects between
// equivalent API spellings (const char* vs string_view for strings).
inline otel::common::AttributeValue to_api(const MValue &m, Arena &a, bool cstr_form = false)
{
  namespace ns = otel::nostd;
  using AV     = otel::common::AttributeValue;
  switch (m.index())
  {
    case 0:
      return AV(std::get<0>(m));
    case 1:
      return AV(std::get<1>(m));
    case 2:
      return AV(std::get<2>(m));
    case 3:
      return AV(std::get<3>(m));
    case 4:
      return AV(std::get<4>(m));
    case 5:
      return AV(std::get<5>(m));
    case 6:
    {
      const std::string &s = std::get<6>(m);
      if (cstr_form && s.find('\0') == std::string::npos)
        return AV(a.cstr(s));
      return AV(a.view(s));
    }
    case 7:
    {
      auto &v = std::get<7>(m);
      bool *p = a.alloc_array<bool>(v.size());
      for (size_t i = 0; i < v.size(); ++i)
        p[i] = v[i];
      return AV(ns::span<const bool>(p, v.size()));
    }
    case 8:
    {
      auto &v = std::get<8>(m);
      auto *p = a.alloc_array<int32_t>(v.size());
      std::copy(v.begin(), v.end(), p);
      return AV(ns::span<const int32_t>(p, v.size()));
    }
    case 9:
    {
      auto &v = std::get<9>(m);
      auto *p = a.alloc_array<uint32_t>(v.size());
      std::copy(v.begin(), v.end(), p);
      return AV(ns::span<const uint32_t>(p, v.size()));
    }
    case 10:
    {
      auto &v = std::get<10>(m);
      auto *p = a.alloc_array<int64_t>(v.size());
      std::copy(v.begin(), v.end(), p);
      return AV(ns::span<const int64_t>(p, v.size()));
    }
    case 11:
    {
      auto &v = std::get<11>(m);
      auto *p = a.alloc_array<uint64_t>(v.size());
      std::copy(v.begin(), v.end(), p);
      return AV(ns::span<const uint64_t>(p, v.size()));
    }
    case 12:
    {
      auto &v = std::get<12>(m);
      auto *p = a.alloc_array<double>(v.size());
      std::copy(v.begin(), v.end(), p);
      return AV(ns::span<const double>(p, v.size()));
    }
    case 13:
    {
      auto &v = std::get<13>(m);
      auto *p = a.alloc_array<ns::string_view>(v.size());
      for (size_t i = 0; i < v.size(); ++i)
        new (p + i) ns::string_view(a.view(v[i]));
      return AV(ns::span<const ns::string_view>(p, v.size()));
    }
    default:
    {
      auto &v = std::get<14>(m);
      auto *p = a.alloc_array<uint8_t>(v.size());
      std::copy(v.begin(), v.end(), p);
      return AV(ns::span<const uint8_t>(p, v.size()));
    }
  }
}

// ------------------------------------------------------------------------------------------------
// generators
inline std::string gen_bytes(vh::Reader &rd, size_t max_len)
{
  // empty, short printable, with embedded NUL / high bytes, long (head + filler)
  switch (rd.weighted({2, 6, 2, 1}))
  {
    case 0:
      return "";
    case 1:
    {
      size_t n = 1 + rd.below(8);
      std::string s;
      for (size_t i = 0; i < n; ++i)
        s.push_back(static_cast<char>('a' + rd.below(26)));
      return s;
    }
    case 2:
    {
      size_t n = 1 + rd.below(6);
      std::string s;
      for (size_t i = 0; i < n; ++i)
      {
        static const char odd[] = {'\0', '\xff', '\x80', '\n', ' ', '"', '\\', 'z'};
        s.push_back(odd[rd.below(sizeof odd)]);
      }
      return s;
    }
    default:
    {
      size_t n = 20 + rd.below(static_cast<uint32_t>(max_len > 20 ? max_len - 20 : 1));
      return std::string(1, static_cast<char>('A' + rd.below(26))) + std::string(n, static_cast<char>('a' + rd.below(26)));
    }
  }
}

inline double gen_double(vh::Reader &rd)
{
  static const double special[] = {0.0, -0.0, 1.0, -1.5, 1e300, -1e300, 4.9406564584124654e-324,
                                   2.2250738585072014e-308, 0.1, 3.141592653589793};
  if (rd.chance(60))
    return special[rd.below(sizeof special / sizeof special[0])];
  uint64_t bits = rd.u64();
  double d;
  std::memcpy(&d, &bits, sizeof d);
  if (std::isnan(d))
    d = 42.5;  // NaN != NaN would make "equal values" ill-defined; not part of any property here
  return d;
}

template <class T>
inline T gen_int(vh::Reader &rd)
{
  switch (rd.weighted({3, 2, 2, 3}))
  {
    case 0:
      return static_cast<T>(rd.below(10));
    case 1:
      return std::numeric_limits<T>::max();
    case 2:
      return std::numeric_limits<T>::min();
    default:
      return static_cast<T>(rd.u64());
  }
}

inline size_t gen_array_len(vh::Reader &rd)
{
  switch (rd.weighted({2, 5, 2}))
  {
    case 0:
      return 0;
    case 1:
      return 1 + rd.below(4);
    default:
      return 5 + rd.below(60);
  }
}

inline MValue gen_value(vh::Reader &rd)
{
  switch (rd.weighted({3, 3, 2, 3, 2, 3, 6, 1, 2, 1, 2, 1, 2, 4, 2}))
  {
    case 0:
      return MValue(rd.coin());
    case 1:
      return MValue(gen_int<int32_t>(rd));
    case 2:
      return MValue(gen_int<uint32_t>(rd));
    case 3:
      return MValue(gen_int<int64_t>(rd));
    case 4:
      return MValue(gen_int<uint64_t>(rd));
    case 5:
      return MValue(gen_double(rd));
    case 6:
      return MValue(gen_bytes(rd, 200));
    case 7:
    {
      std::vector<bool> v(gen_array_len(rd));
      for (size_t i = 0; i < v.size(); ++i)
        v[i] = (i < 8) ? rd.coin() : (i % 3 == 0);
      return MValue(v);
    }
    case 8:
    {
      std::vector<int32_t> v(gen_array_len(rd));
      for (size_t i = 0; i < v.size(); ++i)
        v[i] = i < 4 ? gen_int<int32_t>(rd) : static_cast<int32_t>(i);
      return MValue(v);
    }
    case 9:
    {
      std::vector<uint32_t> v(gen_array_len(rd));
      for (size_t i = 0; i < v.size(); ++i)
        v[i] = i < 4 ? gen_int<uint32_t>(rd) : static_cast<uint32_t>(i);
      return MValue(v);
    }
    case 10:
    {
      std::vector<int64_t> v(gen_array_len(rd));
      for (size_t i = 0; i < v.size(); ++i)
        v[i] = i < 4 ? gen_int<int64_t>(rd) : static_cast<int64_t>(i);
      return MValue(v);
    }
    case 11:
    {
      std::vector<uint64_t> v(gen_array_len(rd));
      for (size_t i = 0; i < v.size(); ++i)
        v[i] = i < 4 ? gen_int<uint64_t>(rd) : static_cast<uint64_t>(i);
      return MValue(v);
    }
    case 12:
    {
      std::vector<double> v(gen_array_len(rd));
      for (size_t i = 0; i < v.size(); ++i)
        v[i] = i < 4 ? gen_double(rd) : static_cast<double>(i) / 4;
      return MValue(v);
    }
    case 13:
    {
      std::vector<std::string> v(gen_array_len(rd));
      for (size_t i = 0; i < v.size(); ++i)
        v[i] = i < 5 ? gen_bytes(rd, 40) : "s" + std::to_string(i);
      return MValue(v);
    }
    default:
    {
      std::vector<uint8_t> v(gen_array_len(rd));
      for (size_t i = 0; i < v.size(); ++i)
        v[i] = i < 8 ? rd.u8() : static_cast<uint8_t>(i);
      return MValue(v);
    }
  }
}

// keys from a small pool (so that duplicates / overwrites are frequent) plus odd ones
inline std::string gen_key(vh::Reader &rd)
{
  switch (rd.weighted({10, 2, 1, 1}))
  {
    case 0:
      return std::string("k") + static_cast<char>('0' + rd.below(6));
    case 1:
      return gen_bytes(rd, 60);
    case 2:
      return "";
    default:
      return std::string("k\0x", 3) + static_cast<char>('0' + rd.below(3));
  }
}

using KVList = std::vector<std::pair<std::string, MValue>>;
using KVMap  = std::map<std::string, MValue>;

inline KVList gen_kvlist(vh::Reader &rd, unsigned max_n = 6)
{
  KVList l;
  unsigned n = static_cast<unsigned>(rd.weighted({3, 3, 3, 2, 1})) * max_n / 4;
  for (unsigned i = 0; i < n && (i < 1 || !rd.exhausted()); ++i)
    l.emplace_back(gen_key(rd), gen_value(rd));
  return l;
}

inline void apply_last_wins(KVMap &m, const KVList &l)
{
  for (auto &kv : l)
    m[kv.first] = kv.second;
}

inline std::string show_kvlist(const KVList &l)
{
  std::string s = "{";
  for (size_t i = 0; i < l.size(); ++i)
    s += (i ? ", " : "") + vh::show(l[i].first.substr(0, 16)) + "=" + show_mvalue(l[i].second);
  return s + "}";
}

// compare a model map with the SDK's stored attribute map
template <class Stored>
inline bool maps_equal(const KVMap &m, const Stored &stored, std::string *diff)
{
  if (m.size() != stored.size())
  {
    *diff = "expected " + std::to_string(m.size()) + " attributes, stored " + std::to_string(stored.size());
    return false;
  }
  for (auto &kv : m)
  {
    auto it = stored.find(kv.first);
    if (it == stored.end())
    {
      *diff = "key '" + vh::show(kv.first) + "' missing";
      return false;
    }
    if (!equals(kv.second, it->second))
    {
      *diff = "key '" + vh::show(kv.first) + "': expected " + show_mvalue(kv.second) + " stored " +
              show_owned(it->second);
      return false;
    }
  }
  return true;
}

// a KeyValueIterable over a model list whose keys and values live in an arena
class ArenaKV final : public otel::common::KeyValueIterable
{
public:
  ArenaKV(const KVList &l, Arena &a, bool cstr_form = false) : l_(l), a_(a), cstr_(cstr_form) {}
  bool ForEachKeyValue(otel::nostd::function_ref<bool(otel::nostd::string_view, otel::common::AttributeValue)>
                           callback) const noexcept override
  {
    for (auto &kv : l_)
      if (!callback(a_.view(kv.first), to_api(kv.second, a_, cstr_)))
        return false;
    return true;
  }
  size_t size() const noexcept override { return l_.size(); }

private:
  const KVList &l_;
  Arena &a_;
  bool cstr_;
};

// ------------------------------------------------------------------------------------------------
// ids and span contexts
inline otel::trace::TraceId gen_trace_id(vh::Reader &rd, bool allow_zero = false)
{
  uint8_t b[16] = {0};
  switch (rd.weighted({5, 1, 1, 1}))
  {
    case 0:
      for (auto &x : b)
        x = rd.u8();
      break;
    case 1:
      b[15] = 1;  // smallest non-zero
      break;
    case 2:
      std::memset(b, 0xff, sizeof b);
      break;
    default:
      b[0] = static_cast<uint8_t>(1 + rd.below(255));  // only the first byte set
      break;
  }
  bool zero = true;
  for (auto x : b)
    zero = zero && x == 0;
  if (zero && !allow_zero)
    b[7] = 0x42;
  return otel::trace::TraceId(b);
}

inline otel::trace::SpanId gen_span_id(vh::Reader &rd, bool allow_zero = false)
{
  uint8_t b[8] = {0};
  switch (rd.weighted({5, 1, 1}))
  {
    case 0:
      for (auto &x : b)
        x = rd.u8();
      break;
    case 1:
      b[7] = 1;
      break;
    default:
      std::memset(b, 0xff, sizeof b);
      break;
  }
  bool zero = true;
  for (auto x : b)
    zero = zero && x == 0;
  if (zero && !allow_zero)
    b[3] = 0x17;
  return otel::trace::SpanId(b);
}

inline std::string hex(const otel::trace::TraceId &t)
{
  char b[32];
  t.ToLowerBase16(b);
  return std::string(b, 32);
}
inline std::string hex(const otel::trace::SpanId &t)
{
  char b[16];
  t.ToLowerBase16(b);
  return std::string(b, 16);
}

inline otel::nostd::shared_ptr<otel::trace::TraceState> gen_trace_state(vh::Reader &rd)
{
  unsigned n = static_cast<unsigned>(rd.weighted({5, 3, 2}));
  if (n == 0)
    return otel::trace::TraceState::GetDefault();
  std::string h;
  for (unsigned i = 0; i < n; ++i)
    h += (i ? "," : "") + std::string("v") + std::to_string(i) + "=" + std::to_string(rd.below(50));
  return otel::trace::TraceState::FromHeader(h);
}

inline otel::trace::SpanContext gen_span_context(vh::Reader &rd, bool valid)
{
  uint8_t flags = 0;
  switch (rd.weighted({3, 3, 2}))
  {
    case 0:
      flags = 0;
      break;
    case 1:
      flags = 1;
      break;
    default:
      flags = rd.u8();
      break;
  }
  bool remote = rd.coin();
  auto ts     = gen_trace_state(rd);
  if (!valid)
  {
    // invalid: zero trace id and/or zero span id
    uint8_t z16[16] = {0}, z8[8] = {0};
    switch (rd.below(3))
    {
      case 0:
        return otel::trace::SpanContext(otel::trace::TraceId(z16), gen_span_id(rd), otel::trace::TraceFlags(flags), remote, ts);
      case 1:
        return otel::trace::SpanContext(gen_trace_id(rd), otel::trace::SpanId(z8), otel::trace::TraceFlags(flags), remote, ts);
      default:
        return otel::trace::SpanContext::GetInvalid();
    }
  }
  return otel::trace::SpanContext(gen_trace_id(rd), gen_span_id(rd), otel::trace::TraceFlags(flags), remote, ts);
}

inline std::string show_ctx(const otel::trace::SpanContext &c)
{
  return hex(c.trace_id()) + "-" + hex(c.span_id()) + "-f" + std::to_string(c.trace_flags().flags()) +
         (c.IsRemote() ? "-remote" : "-local") + "-ts[" + c.trace_state()->ToHeader() + "]";
}

}  // namespace sg

// C20  nostd vocabulary types behave like the std types they stand in for.
//
// Every target is a lock-step differential program: one generated sequence of operations from the
// shared interface is applied to the nostd type and to its std counterpart (or, for span, to an
// index-checked slice model; for function_ref, to a directly invoked twin of the callable) and the
// observable results are compared after every step.
//
// Targets
//   sv_ops    nostd::string_view vs std::string_view
//   span_ops  nostd::span (dynamic + static extent) vs (pointer,length) slice model
//   uptr_ops  nostd::unique_ptr vs std::unique_ptr, instance-counted pointees
//   sptr_ops  nostd::shared_ptr vs std::shared_ptr, instance-counted pointees, use_count observers
//   fref_ops  nostd::function_ref vs direct invocation of a twin callable
//   var_ops   nostd::variant (absl-internal copy) vs std::variant
//
// What is compared is what this version of the headers offers (checked by detection idiom where a
// member may or may not exist); operations std leaves undefined are never generated.
#include <array>
#include <cstdio>
#include <cstring>
#include <deque>
#include <functional>
#include <limits>
#include <memory>
#include <set>
#include <sstream>
#include <stdexcept>
#include <string>
#include <string_view>
#include <type_traits>
#include <unordered_set>
#include <utility>
#include <variant>
#include <vector>

#include "opentelemetry/nostd/function_ref.h"
#include "opentelemetry/nostd/shared_ptr.h"
#include "opentelemetry/nostd/span.h"
#include "opentelemetry/nostd/string_view.h"
#include "opentelemetry/nostd/unique_ptr.h"
#include "opentelemetry/nostd/utility.h"
#include "opentelemetry/nostd/variant.h"
#include "vh.h"

const char *vh_property_id = "C20";

namespace nostd = opentelemetry::nostd;

// The configuration under test is WITH_STL=OFF: the nostd types must be the repository's own
// implementations, not aliases of the std ones (a differential of std against itself proves nothing).
#if defined(OPENTELEMETRY_STL_VERSION)
#  error "C20 is defined for the WITH_STL=OFF configuration (nostd internal implementations)"
#endif
static_assert(!std::is_same<nostd::string_view, std::string_view>::value, "nostd::string_view is std");
static_assert(!std::is_same<nostd::unique_ptr<int>, std::unique_ptr<int>>::value, "unique_ptr is std");
static_assert(!std::is_same<nostd::shared_ptr<int>, std::shared_ptr<int>>::value, "shared_ptr is std");
static_assert(!std::is_same<nostd::variant<int, char>, std::variant<int, char>>::value, "variant is std");

namespace
{
constexpr size_t kNpos = static_cast<size_t>(-1);

int sgn(int v)
{
  return v < 0 ? -1 : (v > 0 ? 1 : 0);
}

// exact-size heap storage without a terminator: any read past the end is an ASan report
struct Bytes
{
  std::unique_ptr<char[]> mem;
  size_t n;
  explicit Bytes(const std::string &s) : mem(new char[s.size()]), n(s.size())
  {
    if (n)
      std::memcpy(mem.get(), s.data(), n);
  }
  const char *p() const { return mem.get(); }
};

// small alphabet: frequent hits for find, shared prefixes, bytes on both sides of 0x80 (signedness
// of the comparison) and the NUL byte (C-string shortcuts)
const char kAlpha[] = {'a', 'b', '\0', '\xff', 'c', '\x80', '\x7f', 'A', ' ', 'z'};

char gen_char(vh::Reader &rd)
{
  return kAlpha[rd.weighted({6, 5, 4, 3, 2, 2, 1, 1, 1, 1})];
}

std::string gen_content(vh::Reader &rd, const std::vector<std::string> &prev)
{
  size_t kind = rd.weighted({5, 2, 2, 2, 2, 1, 1});
  if (prev.empty() && kind >= 1 && kind <= 4)
    kind = 0;
  switch (kind)
  {
    case 0:
    {
      std::string s;
      size_t len = 1 + rd.below(8);
      for (size_t i = 0; i < len; ++i)
        s.push_back(gen_char(rd));
      return s;
    }
    case 1:
      return prev[rd.below(static_cast<uint32_t>(prev.size()))];
    case 2:
    {
      const std::string &p = prev[rd.below(static_cast<uint32_t>(prev.size()))];
      return p.substr(0, rd.below(static_cast<uint32_t>(p.size() + 1)));
    }
    case 3:
      return prev[rd.below(static_cast<uint32_t>(prev.size()))] + std::string(1, gen_char(rd));
    case 4:
    {
      std::string p = prev[rd.below(static_cast<uint32_t>(prev.size()))];
      if (!p.empty())
        p[rd.below(static_cast<uint32_t>(p.size()))] = gen_char(rd);
      return p;
    }
    case 5:
      return std::string();
    default:
    {
      // long string from few choices: head + filler + tail
      std::string s;
      size_t head = rd.below(5);
      for (size_t i = 0; i < head; ++i)
        s.push_back(gen_char(rd));
      s += std::string(20 + rd.below(40), gen_char(rd));
      s.push_back(gen_char(rd));
      return s;
    }
  }
}

// positions / counts at, around and far beyond the end
size_t gen_pos(vh::Reader &rd, size_t size)
{
  switch (rd.weighted({6, 12, 2, 2, 1, 1, 1, 1}))
  {
    case 0:
      return 0;
    case 1:
      return rd.below(static_cast<uint32_t>(size + 1));
    case 2:
      return size;
    case 3:
      return size + 1;
    case 4:
      return size + 2 + rd.below(5);
    case 5:
      return kNpos;
    case 6:
      return kNpos - 1 - rd.below(3);
    default:
      return (static_cast<size_t>(1) << 63) + rd.below(4);
  }
}

size_t gen_count(vh::Reader &rd, size_t size)
{
  switch (rd.weighted({3, 8, 3, 3, 3, 1, 1}))
  {
    case 0:
      return 0;
    case 1:
      return rd.below(static_cast<uint32_t>(size + 1));
    case 2:
      return kNpos;
    case 3:
      return size;
    case 4:
      return size + 1 + rd.below(4);
    case 5:
      return kNpos - 1 - rd.below(3);
    default:
      return (static_cast<size_t>(1) << 63) + rd.below(4);
  }
}

std::string pshow(size_t v)
{
  if (v == kNpos)
    return "npos";
  if (v > (static_cast<size_t>(1) << 62))
    return "huge" + std::to_string(v >> 60) + "." + std::to_string(v & 0xf);
  return std::to_string(v);
}

struct Guarded
{
  bool threw;
  int sign;
  bool operator==(const Guarded &o) const { return threw == o.threw && sign == o.sign; }
};

template <class F>
Guarded guarded(F f)
{
  try
  {
    return {false, sgn(f())};
  }
  catch (const std::out_of_range &)
  {
    return {true, 0};
  }
}

std::ostream &operator<<(std::ostream &o, const Guarded &g)
{
  if (g.threw)
    return o << "out_of_range";
  return o << g.sign;
}

size_t common_prefix(std::string_view a, std::string_view b)
{
  size_t i = 0;
  while (i < a.size() && i < b.size() && a[i] == b[i])
    ++i;
  return i;
}

constexpr int kViews = 4;

struct SvWorld
{
  std::vector<std::string> contents;  // what the buffers hold (for derived buffers and messages)
  std::vector<Bytes> bufs;
  std::deque<std::string> strs;  // std::string operands (stable addresses)
  nostd::string_view nv[kViews];
  std::string_view sv[kViews];
};

// everything observable about one view without arguments
void sv_check_slot(vh::Case &c, SvWorld &w, int i)
{
  nostd::string_view n = w.nv[i];  // non-const copy: operator[] is a non-const member here
  std::string_view s   = w.sv[i];
  VH_CHECK(c, n.size() == s.size(), "view " << i << ": size " << n.size() << " vs std " << s.size());
  VH_CHECK(c, n.length() == s.length(), "view " << i << ": length " << n.length() << " vs std " << s.length());
  VH_CHECK(c, n.empty() == s.empty(), "view " << i << ": empty() " << n.empty() << " vs std " << s.empty());
  VH_CHECK(c, n.data() == s.data(), "view " << i << ": data() differs from std");
  VH_CHECK(c, n.begin() == s.data() && n.end() == s.data() + s.size(), "view " << i << ": begin/end differ");
  VH_CHECK(c, static_cast<size_t>(n.end() - n.begin()) == s.size(), "view " << i << ": end-begin != size");
  std::string via_it(n.begin(), n.end()), ref(s.begin(), s.end());
  VH_CHECK(c, via_it == ref, "view " << i << ": iteration gives '" << vh::show(via_it) << "' std '" << vh::show(ref) << "'");
  for (size_t k = 0; k < s.size(); ++k)
    VH_CHECK(c, n[k] == s[k] && &n[k] == &s[k], "view " << i << ": [" << k << "] differs from std");
  std::string conv = static_cast<std::string>(n);
  VH_CHECK(c, conv == std::string(s), "view " << i << ": conversion to std::string gives '" << vh::show(conv)
                                              << "' std '" << vh::show(std::string(s)) << "'");
}

}  // namespace

// ================================================================================================
VH_TARGET(sv_ops, 3,
          "a program is non-trivial when at least one step compares two non-empty views sharing a "
          "non-empty common prefix, or uses a position/count at or beyond the end of the view, or "
          "involves a view with an embedded NUL; distinct = distinct (buffers, operation sequence) text")
{
  vh::Reader &rd = c.rd;
  SvWorld w;
  unsigned nbuf = 1 + rd.below(3);
  for (unsigned b = 0; b < nbuf; ++b)
  {
    std::string s = gen_content(rd, w.contents);
    w.contents.push_back(s);
    w.bufs.emplace_back(s);
    c.note("buf" + std::to_string(b) + "(" + std::to_string(s.size()) + ")=" + vh::show(s.substr(0, 24)) + "\n");
  }
  // views 0..2 start as the whole of a buffer; view 3 starts default constructed
  for (int i = 0; i < 3; ++i)
  {
    const Bytes &b = w.bufs[static_cast<size_t>(i) % w.bufs.size()];
    w.nv[i]        = nostd::string_view(b.p(), b.n);
    w.sv[i]        = std::string_view(b.p(), b.n);
  }
  auto interesting = [&](int i) {
    if (w.sv[i].find('\0') != std::string_view::npos)
    {
      c.tag("view-embedded-nul");
      c.nontrivial = true;
    }
    if (w.sv[i].data() == nullptr)
      c.tag("view-null-data");
    else if (w.sv[i].empty())
      c.tag("view-empty-nonnull");
  };
  auto relate = [&](std::string_view a, std::string_view b) {
    size_t cp = common_prefix(a, b);
    if (a == b)
      c.tag(a.empty() ? "cmp-both-empty" : "cmp-equal");
    else if (cp == a.size() || cp == b.size())
      c.tag(cp ? "cmp-proper-prefix" : "cmp-empty-vs-nonempty");
    else
    {
      c.tag(cp ? "cmp-differ-after-prefix" : "cmp-differ-at-0");
      if ((static_cast<unsigned char>(a[cp]) ^ static_cast<unsigned char>(b[cp])) & 0x80)
        c.tag("cmp-differ-highbit");
    }
    if (cp > 0 && !a.empty() && !b.empty())
      c.nontrivial = true;
  };
  auto beyond = [&](size_t pos, size_t size) {
    if (pos >= size)
      c.nontrivial = true;
  };

  unsigned nops = 1 + rd.below(16);
  for (unsigned op = 0; op < nops && (op == 0 || !rd.exhausted()); ++op)
  {
    int i = static_cast<int>(rd.below(kViews)), j = static_cast<int>(rd.below(kViews));
    // operands are usually non-empty views (empty ones are still drawn, just not most of the time)
    for (int t = 0; t < kViews && w.sv[i].empty() && (t > 0 || rd.chance(75)); ++t)
      i = (i + 1) % kViews;
    for (int t = 0; t < kViews && w.sv[j].empty() && (t > 0 || rd.chance(75)); ++t)
      j = (j + 1) % kViews;
    nostd::string_view &ni = w.nv[i], &nj = w.nv[j];
    std::string_view &si = w.sv[i], &sj = w.sv[j];
    std::ostringstream d;
    switch (rd.weighted({10, 4, 4, 10, 8, 8, 4, 4, 4, 12, 10, 10, 6, 4}))
    {
      case 0:
      {  // (ptr,len) slice of a buffer
        const Bytes &b = w.bufs[rd.below(static_cast<uint32_t>(w.bufs.size()))];
        size_t off     = rd.chance(50) ? rd.below(static_cast<uint32_t>(b.n + 1)) : 0;
        size_t len     = rd.chance(40) ? rd.below(static_cast<uint32_t>(b.n - off + 1)) : b.n - off;
        ni             = nostd::string_view(b.p() + off, len);
        si             = std::string_view(b.p() + off, len);
        d << "v" << i << "=slice(buf@" << (&b - &w.bufs[0]) << "," << off << "," << len << ")";
        c.tag("ctor-ptr-len");
        break;
      }
      case 1:
      {  // from std::string (keeps embedded NULs)
        w.strs.push_back(gen_content(rd, w.contents));
        const std::string &z = w.strs.back();
        ni                   = nostd::string_view(z);
        si                   = std::string_view(z);
        d << "v" << i << "=view(std::string '" << vh::show(z.substr(0, 24)) << "'," << z.size() << ")";
        c.tag("ctor-std-string");
        break;
      }
      case 2:
      {  // from a C string (stops at the first NUL)
        w.strs.push_back(gen_content(rd, w.contents));
        const std::string &z = w.strs.back();
        ni                   = nostd::string_view(z.c_str());
        si                   = std::string_view(z.c_str());
        d << "v" << i << "=view(c_str '" << vh::show(z.substr(0, 24)) << "')";
        c.tag(z.find('\0') != std::string::npos ? "ctor-cstr-truncated" : "ctor-cstr");
        break;
      }
      case 3:
      {
        int a = sgn(ni.compare(nj)), b = sgn(si.compare(sj));
        d << "v" << i << ".compare(v" << j << ")";
        relate(si, sj);
        VH_CHECK(c, a == b, "'" << vh::show(std::string(si)) << "'.compare('" << vh::show(std::string(sj))
                                << "') sign " << a << ", std " << b);
        break;
      }
      case 4:
      {
        size_t pos = gen_pos(rd, si.size()), cnt = gen_count(rd, si.size());
        Guarded a = guarded([&] { return ni.compare(pos, cnt, nj); });
        Guarded b = guarded([&] { return si.compare(pos, cnt, sj); });
        d << "v" << i << ".compare(" << pshow(pos) << "," << pshow(cnt) << ",v" << j << ")";
        beyond(pos, si.size());
        c.tag(b.threw ? "cmp3-throw" : "cmp3");
        if (!b.threw)
          relate(si.substr(pos, cnt), sj);
        VH_CHECK(c, a == b, "'" << vh::show(std::string(si)) << "'.compare(" << pshow(pos) << "," << pshow(cnt)
                                << ",'" << vh::show(std::string(sj)) << "') gave " << a << ", std " << b);
        break;
      }
      case 5:
      {
        size_t p1 = gen_pos(rd, si.size()), c1 = gen_count(rd, si.size());
        size_t p2 = gen_pos(rd, sj.size()), c2 = gen_count(rd, sj.size());
        Guarded a = guarded([&] { return ni.compare(p1, c1, nj, p2, c2); });
        Guarded b = guarded([&] { return si.compare(p1, c1, sj, p2, c2); });
        d << "v" << i << ".compare(" << pshow(p1) << "," << pshow(c1) << ",v" << j << "," << pshow(p2) << ","
          << pshow(c2) << ")";
        beyond(p1, si.size());
        beyond(p2, sj.size());
        c.tag(b.threw ? "cmp5-throw" : "cmp5");
        if (!b.threw)
          relate(si.substr(p1, c1), sj.substr(p2, c2));
        VH_CHECK(c, a == b, "'" << vh::show(std::string(si)) << "'.compare(" << pshow(p1) << "," << pshow(c1)
                                << ",'" << vh::show(std::string(sj)) << "'," << pshow(p2) << "," << pshow(c2)
                                << ") gave " << a << ", std " << b);
        break;
      }
      case 6:
      {  // compare(const char*)
        w.strs.push_back(rd.coin() ? std::string(sj) : gen_content(rd, w.contents));
        const char *z = w.strs.back().c_str();
        int a = sgn(ni.compare(z)), b = sgn(si.compare(z));
        d << "v" << i << ".compare(c_str '" << vh::show(w.strs.back().substr(0, 24)) << "')";
        relate(si, std::string_view(z));
        c.tag("cmp-cstr");
        VH_CHECK(c, a == b, "'" << vh::show(std::string(si)) << "'.compare(c_str '" << vh::show(z) << "') sign "
                                << a << ", std " << b);
        break;
      }
      case 7:
      {  // compare(pos,count,const char*)
        w.strs.push_back(rd.coin() ? std::string(sj) : gen_content(rd, w.contents));
        const char *z = w.strs.back().c_str();
        size_t pos = gen_pos(rd, si.size()), cnt = gen_count(rd, si.size());
        Guarded a = guarded([&] { return ni.compare(pos, cnt, z); });
        Guarded b = guarded([&] { return si.compare(pos, cnt, z); });
        d << "v" << i << ".compare(" << pshow(pos) << "," << pshow(cnt) << ",c_str '"
          << vh::show(w.strs.back().substr(0, 24)) << "')";
        beyond(pos, si.size());
        c.tag(b.threw ? "cmp3-cstr-throw" : "cmp3-cstr");
        VH_CHECK(c, a == b, "'" << vh::show(std::string(si)) << "'.compare(" << pshow(pos) << "," << pshow(cnt)
                                << ",c_str '" << vh::show(z) << "') gave " << a << ", std " << b);
        break;
      }
      case 8:
      {  // compare(pos,count,const char*,count2): [s,s+count2) must be a valid range
        const Bytes &bb = w.bufs[rd.below(static_cast<uint32_t>(w.bufs.size()))];
        size_t off = rd.below(static_cast<uint32_t>(bb.n + 1));
        size_t c2  = rd.coin() ? bb.n - off : rd.below(static_cast<uint32_t>(bb.n - off + 1));
        size_t pos = gen_pos(rd, si.size()), cnt = gen_count(rd, si.size());
        Guarded a = guarded([&] { return ni.compare(pos, cnt, bb.p() + off, c2); });
        Guarded b = guarded([&] { return si.compare(pos, cnt, bb.p() + off, c2); });
        d << "v" << i << ".compare(" << pshow(pos) << "," << pshow(cnt) << ",buf@" << (&bb - &w.bufs[0]) << "+" << off
          << "," << c2 << ")";
        beyond(pos, si.size());
        c.tag(b.threw ? "cmp4-ptr-throw" : "cmp4-ptr");
        if (!b.threw)
          relate(si.substr(pos, cnt), std::string_view(bb.p() + off, c2));
        VH_CHECK(c, a == b, "'" << vh::show(std::string(si)) << "'.compare(" << pshow(pos) << "," << pshow(cnt)
                                << ",ptr," << c2 << ") gave " << a << ", std " << b);
        break;
      }
      case 9:
      {  // relational operators, view against view / std::string / C string
        d << "rel(v" << i << ",v" << j << ")";
        relate(si, sj);
        VH_CHECK(c, (ni == nj) == (si == sj), "operator==('" << vh::show(std::string(si)) << "','"
                                                             << vh::show(std::string(sj)) << "') = " << (ni == nj));
        VH_CHECK(c, (ni != nj) == (si != sj), "operator!=('" << vh::show(std::string(si)) << "','"
                                                             << vh::show(std::string(sj)) << "') = " << (ni != nj));
        VH_CHECK(c, (ni < nj) == (si < sj), "operator<('" << vh::show(std::string(si)) << "','"
                                                          << vh::show(std::string(sj)) << "') = " << (ni < nj));
        VH_CHECK(c, (ni > nj) == (si > sj), "operator>('" << vh::show(std::string(si)) << "','"
                                                          << vh::show(std::string(sj)) << "') = " << (ni > nj));
        // the same right operand as an owning string at another address (terminated, other neighbours)
        const std::string z(sj);
        VH_CHECK(c, (ni == z) == (si == z) && (z == ni) == (z == si) && (ni != z) == (si != z) &&
                        (z != ni) == (z != si),
                 "mixed ==/!= of '" << vh::show(std::string(si)) << "' with std::string '" << vh::show(z) << "' differs");
        VH_CHECK(c, (ni < z) == (si < z) && (ni > z) == (si > z),
                 "mixed </> of '" << vh::show(std::string(si)) << "' with std::string '" << vh::show(z) << "' differs");
        c.tag("rel-mixed-string");
        const char *zc = z.c_str();
        VH_CHECK(c, (ni == zc) == (si == zc) && (zc == ni) == (zc == si) && (ni != zc) == (si != zc) &&
                        (zc != ni) == (zc != si),
                 "mixed ==/!= of '" << vh::show(std::string(si)) << "' with C string '" << vh::show(zc) << "' differs");
        VH_CHECK(c, (ni < zc) == (si < zc) && (ni > zc) == (si > zc),
                 "mixed </> of '" << vh::show(std::string(si)) << "' with C string '" << vh::show(zc) << "' differs");
        c.tag(z.find('\0') != std::string::npos ? "rel-mixed-cstr-truncated" : "rel-mixed-cstr");
        break;
      }
      case 10:
      {
        char ch    = rd.chance(70) && !si.empty() ? si[rd.below(static_cast<uint32_t>(si.size()))] : gen_char(rd);
        bool dflt  = rd.chance(20);
        size_t pos = dflt ? 0 : gen_pos(rd, si.size());
        size_t a   = dflt ? ni.find(ch) : ni.find(ch, pos);
        size_t b   = dflt ? si.find(ch) : si.find(ch, pos);
        d << "v" << i << ".find(" << vh::show(std::string(1, ch)) << "," << (dflt ? "default" : pshow(pos)) << ")";
        beyond(pos, si.size());
        c.tag(b == std::string_view::npos ? (pos >= si.size() ? "find-pos>=size" : "find-miss")
                                          : (b == pos ? "find-hit-at-pos" : "find-hit-later"));
        if (ch == '\0')
          c.tag("find-nul");
        if (pos > 0 && pos < si.size() && si.substr(0, pos).find(ch) != std::string_view::npos)
          c.tag("find-earlier-occurrence-skipped");
        VH_CHECK(c, a == b, "'" << vh::show(std::string(si)) << "'.find(" << vh::show(std::string(1, ch)) << ","
                                << pshow(pos) << ") = " << pshow(a) << ", std " << pshow(b));
        break;
      }
      case 11:
      {
        size_t pos = gen_pos(rd, si.size());
        bool dflt  = rd.chance(20);
        size_t cnt = dflt ? kNpos : gen_count(rd, si.size());
        int k      = static_cast<int>(rd.below(kViews));
        d << "v" << k << "=v" << i << ".substr(" << pshow(pos) << "," << (dflt ? "default" : pshow(cnt)) << ")";
        beyond(pos, si.size());
        bool nthrew = false, sthrew = false;
        nostd::string_view nr;
        std::string_view sr;
        try
        {
          nr = dflt ? ni.substr(pos) : ni.substr(pos, cnt);
        }
        catch (const std::out_of_range &)
        {
          nthrew = true;
        }
        try
        {
          sr = dflt ? si.substr(pos) : si.substr(pos, cnt);
        }
        catch (const std::out_of_range &)
        {
          sthrew = true;
        }
        c.tag(sthrew ? "substr-throw" : (pos == si.size() ? "substr-at-end" : (cnt > si.size() - pos ? "substr-clamped" : "substr-inner")));
        VH_CHECK(c, nthrew == sthrew, "'" << vh::show(std::string(si)) << "'.substr(" << pshow(pos) << "," << pshow(cnt)
                                          << "): out_of_range thrown " << nthrew << ", std " << sthrew);
        if (!sthrew)
        {
          VH_CHECK(c, nr.data() == sr.data() && nr.size() == sr.size(),
                   "'" << vh::show(std::string(si)) << "'.substr(" << pshow(pos) << "," << pshow(cnt) << ") = (+"
                       << (nr.data() - ni.data()) << "," << nr.size() << "), std (+" << (sr.data() - si.data()) << ","
                       << sr.size() << ")");
          w.nv[k] = nr;
          w.sv[k] = sr;
        }
        break;
      }
      case 12:
      {  // hashing consistent with equality; usable as an unordered key like the std type
        d << "hash(v" << i << ")";
        std::hash<nostd::string_view> H;
        size_t h = H(ni);
        for (int k = 0; k < kViews; ++k)
          if (w.sv[k] == si)
          {
            VH_CHECK(c, H(w.nv[k]) == h, "views " << i << " and " << k << " are equal ('" << vh::show(std::string(si))
                                                  << "') but hash differently");
            if (k != i && w.sv[k].data() != si.data())
              c.tag("hash-equal-pair-other-address");
          }
        // the same bytes at a fresh address with other neighbours
        Bytes copy{std::string(si)};
        VH_CHECK(c, H(nostd::string_view(copy.p(), copy.n)) == h,
                 "equal content '" << vh::show(std::string(si)) << "' at another address hashes differently");
        std::string padded = "\x01" + std::string(si) + "\x02zz";
        VH_CHECK(c, H(nostd::string_view(padded.data() + 1, si.size())) == h,
                 "equal content '" << vh::show(std::string(si)) << "' inside a larger buffer hashes differently");
        std::unordered_set<nostd::string_view> ns;
        std::unordered_set<std::string_view> ss;
        for (int k = 0; k < kViews; ++k)
        {
          bool a = ns.insert(w.nv[k]).second, b = ss.insert(w.sv[k]).second;
          VH_CHECK(c, a == b, "unordered_set insert of view " << k << " '" << vh::show(std::string(w.sv[k]))
                                                             << "': inserted " << a << ", std " << b);
        }
        VH_CHECK(c, ns.size() == ss.size(), "unordered_set sizes differ " << ns.size() << " vs " << ss.size());
        c.tag("hash");
        // lock-step on the collision pattern (the hash VALUES are not compared): two views hash alike on the
        // nostd side exactly when they do with std::hash<std::string_view>.  Pairs: every two slots, and the
        // view against close neighbours of it - one byte shorter, one NUL longer, last byte changed, first
        // byte behind an embedded NUL changed (a hash of the length only, or of the bytes up to the first
        // NUL, maps these to one value)
        std::hash<std::string_view> HS;
        const size_t hs = HS(si);
        for (int a = 0; a < kViews; ++a)
          for (int b = a + 1; b < kViews; ++b)
            VH_CHECK(c, (H(w.nv[a]) == H(w.nv[b])) == (HS(w.sv[a]) == HS(w.sv[b])),
                     "views '" << vh::show(std::string(w.sv[a])) << "' and '" << vh::show(std::string(w.sv[b]))
                               << "': hash alike " << (H(w.nv[a]) == H(w.nv[b])) << ", std " << (HS(w.sv[a]) == HS(w.sv[b])));
        auto neighbour = [&](const std::string &z, const char *what) {
          Bytes nb{z};
          bool na = H(nostd::string_view(nb.p(), nb.n)) == h, sa = HS(std::string_view(nb.p(), nb.n)) == hs;
          VH_CHECK(c, na == sa, "'" << vh::show(std::string(si)) << "' and its neighbour (" << what << ") '" << vh::show(z)
                                    << "': hash alike " << na << ", std " << sa);
        };
        const std::string cur(si);
        neighbour(cur + std::string(1, '\0'), "one NUL longer");
        if (!cur.empty())
        {
          neighbour(cur.substr(0, cur.size() - 1), "one byte shorter");
          std::string z = cur;
          z.back()      = static_cast<char>(z.back() ^ 0x01);
          neighbour(z, "last byte changed");
          size_t nul = cur.find('\0');
          if (nul != std::string::npos && nul + 1 < cur.size())
          {
            std::string y = cur;
            y[nul + 1]    = static_cast<char>(y[nul + 1] ^ 0x40);
            neighbour(y, "byte behind the first NUL changed");
            c.tag("hash-neighbour-differs-behind-nul");
          }
        }
        break;
      }
      default:
      {  // stream insertion (default formatting state), chained
        d << "os<<v" << i << "<<v" << j;
        std::ostringstream on, os;
        std::ostream &r = (on << ni);
        VH_CHECK(c, &r == &on, "operator<< does not return its stream");
        on << '|' << nj;
        os << si << '|' << sj;
        VH_CHECK(c, on.str() == os.str(), "operator<< wrote '" << vh::show(on.str()) << "', std '" << vh::show(os.str()) << "'");
        VH_CHECK(c, on.good() == os.good(), "stream state after operator<< differs");
        c.tag("ostream");
        break;
      }
    }
    c.note(d.str() + "\n");
    for (int k = 0; k < kViews; ++k)
      sv_check_slot(c, w, k);
    interesting(i);
  }
}

// ================================================================================================
// span vs an index-checked slice model (pointer + length computed independently from the source)
namespace
{
template <class S, class = void>
struct has_first : std::false_type
{};
template <class S>
struct has_first<S, std::void_t<decltype(std::declval<const S &>().first(size_t{}))>> : std::true_type
{};
template <class S, class = void>
struct has_last : std::false_type
{};
template <class S>
struct has_last<S, std::void_t<decltype(std::declval<const S &>().last(size_t{}))>> : std::true_type
{};
template <class S, class = void>
struct has_subspan : std::false_type
{};
template <class S>
struct has_subspan<S, std::void_t<decltype(std::declval<const S &>().subspan(size_t{}, size_t{}))>> : std::true_type
{};

// the model: a slice is (p,n); element i exists iff i < n and is p[i]
template <class Sp, class T>
void check_span(vh::Case &c, const Sp &s, T *p, size_t n, const char *what)
{
  VH_CHECK(c, s.size() == n, what << ": size() " << s.size() << ", model " << n);
  VH_CHECK(c, s.empty() == (n == 0), what << ": empty() " << s.empty() << ", model " << (n == 0));
  VH_CHECK(c, s.data() == p, what << ": data() is not the start of the slice");
  VH_CHECK(c, s.begin() == p && s.end() == p + n, what << ": begin()/end() are not the slice bounds");
  size_t k = 0;
  for (auto &e : s)
  {
    VH_CHECK(c, k < n, what << ": iteration yields more than " << n << " elements");
    VH_CHECK(c, &e == p + k, what << ": iteration element " << k << " is not slice element " << k);
    ++k;
  }
  VH_CHECK(c, k == n, what << ": iteration yields " << k << " elements, model " << n);
  for (size_t i = 0; i < n; ++i)
    VH_CHECK(c, &s[i] == p + i && s[i] == p[i], what << ": [" << i << "] is not slice element " << i);
}

// subviews, only when this version of the header offers them (arguments inside the slice only:
// anything else is undefined for std::span as well)
template <class Sp, class T>
void check_subviews(vh::Case &c, vh::Reader &rd, const Sp &s, T *p, size_t n)
{
  if constexpr (has_first<Sp>::value)
  {
    size_t k = rd.below(static_cast<uint32_t>(n + 1));
    check_span(c, s.first(k), p, k, "first(k)");
    c.tag("span-first");
  }
  if constexpr (has_last<Sp>::value)
  {
    size_t k = rd.below(static_cast<uint32_t>(n + 1));
    check_span(c, s.last(k), p + (n - k), k, "last(k)");
    c.tag("span-last");
  }
  if constexpr (has_subspan<Sp>::value)
  {
    size_t off = rd.below(static_cast<uint32_t>(n + 1));
    size_t k   = rd.below(static_cast<uint32_t>(n - off + 1));
    check_span(c, s.subspan(off, k), p + off, k, "subspan(off,k)");
    c.tag("span-subspan");
  }
  (void)rd;
}

size_t take_const_span(nostd::span<const int> s, long *sum)
{
  *sum = 0;
  for (int x : s)
    *sum += x;
  return s.size();
}

// static extent N over [p,p+N)
template <size_t N>
void check_static(vh::Case &c, int *p, nostd::span<int> *out)
{
  static_assert(nostd::span<int, N>::extent == N, "static extent constant");
  nostd::span<int, N> a(p, N);
  check_span(c, a, p, N, "span<int,N>(ptr,N)");
  nostd::span<int, N> b(p, p + N);
  check_span(c, b, p, N, "span<int,N>(first,last)");
  nostd::span<int, N> cp(a);
  check_span(c, cp, p, N, "span<int,N> copy");
  b = a;
  check_span(c, b, p, N, "span<int,N> copy-assigned");
  nostd::span<const int, N> k(a);
  check_span(c, k, static_cast<const int *>(p), N, "span<const int,N>(span<int,N>)");
  nostd::span<int> dyn(a);
  check_span(c, dyn, p, N, "span<int>(span<int,N>)");
  nostd::span<const int> kdyn(k);
  check_span(c, kdyn, static_cast<const int *>(p), N, "span<const int>(span<const int,N>)");
  nostd::span<const int> kdyn2(a);  // static -> dynamic extent and int -> const int in one conversion
  check_span(c, kdyn2, static_cast<const int *>(p), N, "span<const int>(span<int,N>)");
  long ssum    = 0;
  size_t taken = take_const_span(a, &ssum);  // the same conversion for a by-value parameter
  long msum    = 0;
  for (size_t i = 0; i < N; ++i)
    msum += p[i];
  VH_CHECK(c, taken == N && ssum == msum, "span<const int> parameter from span<int,N>: " << taken << " elements sum " << ssum);
  std::vector<int> v(p, p + N);
  nostd::span<int, N> fromvec(v);
  check_span(c, fromvec, v.data(), N, "span<int,N>(vector of N)");
  const std::vector<int> &cv = v;
  nostd::span<const int, N> fromcvec(cv);
  check_span(c, fromcvec, cv.data(), N, "span<const int,N>(const vector of N)");
  std::array<int, N> arr{};
  nostd::span<int, N> fromarr(arr);
  check_span(c, fromarr, arr.data(), N, "span<int,N>(std::array<int,N>)");
  const std::array<int, N> &carr = arr;
  nostd::span<const int, N> fromcarr(carr);
  check_span(c, fromcarr, carr.data(), N, "span<const int,N>(const std::array<int,N>)");
  *out = a;
}
template <>
void check_static<0>(vh::Case &c, int *p, nostd::span<int> *out)
{
  nostd::span<int, 0> dflt;
  check_span(c, dflt, static_cast<int *>(nullptr), 0, "span<int,0>()");
  nostd::span<int, 0> a(p, static_cast<size_t>(0));
  check_span(c, a, p, 0, "span<int,0>(ptr,0)");
  nostd::span<int, 0> b(p, p);
  check_span(c, b, p, 0, "span<int,0>(first,first)");
  nostd::span<int> dyn(a);
  check_span(c, dyn, p, 0, "span<int>(span<int,0>)");
  nostd::span<const int> kdyn2(a);
  check_span(c, kdyn2, static_cast<const int *>(p), 0, "span<const int>(span<int,0>)");
  *out = a;
}

}  // namespace

VH_TARGET(span_ops, 2,
          "a program is non-trivial when a non-empty span is built and an element is read or written "
          "through it, or a static-extent span is exercised; distinct = distinct (backing sizes, "
          "operation sequence) text")
{
  vh::Reader &rd = c.rd;
  // regions: 0 = vector (0..8 elements), 1 = C array[4], 2 = std::array<int,3>
  std::vector<int> vec(rd.below(9));
  int carr[4];
  std::array<int, 3> arr;
  int fill = 1;
  for (auto &x : vec)
    x = fill++;
  for (auto &x : carr)
    x = fill++;
  for (auto &x : arr)
    x = fill++;
  std::vector<int> mvec(vec), mcarr(carr, carr + 4), marr(arr.begin(), arr.end());  // mirrors
  c.note("vec=" + std::to_string(vec.size()) + "\n");
  struct Region
  {
    int *p;
    size_t n;
    std::vector<int> *mirror;
  };
  Region regs[3] = {{vec.data(), vec.size(), &mvec}, {carr, 4, &mcarr}, {arr.data(), 3, &marr}};
  nostd::span<int> ds[3];
  struct M
  {
    int *p    = nullptr;
    size_t n  = 0;
    int reg   = -1;
  } ms[3];
  // slots start as the three regions (the vector one is empty when the vector is)
  ds[0] = nostd::span<int>(vec.data(), vec.size());
  ds[1] = nostd::span<int>(carr, 4);
  ds[2] = nostd::span<int>(arr.data(), 3);
  for (int r = 0; r < 3; ++r)
    ms[r].p = regs[r].p, ms[r].n = regs[r].n, ms[r].reg = r;
  auto region_of = [&](int *p) {
    for (int r = 0; r < 3; ++r)
      if (p >= regs[r].p && p <= regs[r].p + regs[r].n && regs[r].n)
        return r;
    return -1;
  };
  unsigned nops = 1 + rd.below(14);
  for (unsigned op = 0; op < nops && (op == 0 || !rd.exhausted()); ++op)
  {
    int k = static_cast<int>(rd.below(3)), j = static_cast<int>(rd.below(3));
    std::ostringstream d;
    switch (rd.weighted({8, 6, 4, 4, 4, 2, 5, 10, 10, 8, 6, 3, 3}))
    {
      case 0:
      case 1:
      {
        int r      = static_cast<int>(rd.below(3));
        size_t off = rd.chance(50) ? rd.below(static_cast<uint32_t>(regs[r].n + 1)) : 0;
        size_t len = rd.chance(50) ? rd.below(static_cast<uint32_t>(regs[r].n - off + 1)) : regs[r].n - off;
        int *p     = regs[r].p + off;
        bool fl    = rd.coin();
        if (fl)
          ds[k] = nostd::span<int>(p, p + len);
        else
          ds[k] = nostd::span<int>(p, len);
        ms[k].p = p, ms[k].n = len, ms[k].reg = r;
        d << "s" << k << "=span(" << (fl ? "first,last" : "ptr,count") << " region" << r << "+" << off << "," << len << ")";
        c.tag(fl ? "ctor-first-last" : "ctor-ptr-count");
        break;
      }
      case 2:
      {
        ds[k]   = nostd::span<int>(vec);
        ms[k].p = vec.data(), ms[k].n = vec.size(), ms[k].reg = 0;
        d << "s" << k << "=span(vector)";
        c.tag("ctor-container");
        const std::vector<int> &cv = vec;
        nostd::span<const int> cs(cv);
        check_span(c, cs, cv.data(), cv.size(), "span<const int>(const vector&)");
        nostd::span<const int> cs2(vec);
        check_span(c, cs2, static_cast<const int *>(vec.data()), vec.size(), "span<const int>(vector&)");
        break;
      }
      case 3:
      {
        ds[k]   = nostd::span<int>(carr);
        ms[k].p = carr, ms[k].n = 4, ms[k].reg = 1;
        d << "s" << k << "=span(int[4])";
        c.tag("ctor-c-array");
        nostd::span<int, 4> st(carr);
        check_span(c, st, carr, 4, "span<int,4>(int[4])");
        const int(&kc)[4] = carr;
        nostd::span<const int> cs(kc);
        check_span(c, cs, static_cast<const int *>(carr), 4, "span<const int>(const int[4])");
        break;
      }
      case 4:
      {
        ds[k]   = nostd::span<int>(arr);
        ms[k].p = arr.data(), ms[k].n = 3, ms[k].reg = 2;
        d << "s" << k << "=span(std::array<int,3>)";
        c.tag("ctor-std-array");
        nostd::span<int, 3> st(arr);
        check_span(c, st, arr.data(), 3, "span<int,3>(std::array&)");
        const std::array<int, 3> &ka = arr;
        nostd::span<const int> cs(ka);
        check_span(c, cs, ka.data(), 3, "span<const int>(const std::array&)");
        nostd::span<const int, 3> cst(ka);
        check_span(c, cst, ka.data(), 3, "span<const int,3>(const std::array&)");
        break;
      }
      case 5:
        ds[k]   = nostd::span<int>();
        ms[k].p = nullptr, ms[k].n = 0, ms[k].reg = -1;
        d << "s" << k << "=span()";
        c.tag("ctor-default");
        break;
      case 6:
      {
        if (rd.coin())
        {
          ds[k] = ds[j];
          d << "s" << k << "=s" << j;
        }
        else
        {
          nostd::span<int> t(ds[j]);
          ds[k] = t;
          d << "s" << k << "=copy(s" << j << ")";
        }
        ms[k] = ms[j];
        c.tag("copy");
        break;
      }
      case 7:
      {
        if (ms[k].n == 0)
        {
          d << "write(s" << k << ": empty)";
          break;
        }
        size_t i = rd.below(static_cast<uint32_t>(ms[k].n));
        int x    = 100 + static_cast<int>(rd.below(100));
        ds[k][i] = x;
        (*regs[ms[k].reg].mirror)[static_cast<size_t>(ms[k].p - regs[ms[k].reg].p) + i] = x;
        d << "s" << k << "[" << i << "]=" << x;
        c.tag(i + 1 == ms[k].n ? "write-last" : "write");
        c.nontrivial = true;
        break;
      }
      case 8:
      {
        if (ms[k].n == 0)
        {
          d << "read(s" << k << ": empty)";
          c.tag("read-empty");
          break;
        }
        size_t i = rd.below(static_cast<uint32_t>(ms[k].n));
        const std::vector<int> &mir = *regs[ms[k].reg].mirror;
        int want = mir[static_cast<size_t>(ms[k].p - regs[ms[k].reg].p) + i];  // index-checked by construction
        d << "s" << k << "[" << i << "]";
        c.tag(i + 1 == ms[k].n ? "read-last" : (i == 0 ? "read-first" : "read-inner"));
        c.nontrivial = true;
        VH_CHECK(c, ds[k][i] == want, "s[" << i << "] = " << ds[k][i] << ", slice model " << want);
        // through the range interface
        long sum = 0, msum = 0;
        for (int x : ds[k])
          sum += x;
        for (size_t q = 0; q < ms[k].n; ++q)
          msum += mir[static_cast<size_t>(ms[k].p - regs[ms[k].reg].p) + q];
        VH_CHECK(c, sum == msum, "sum over the span " << sum << ", slice model " << msum);
        long csum = 0;
        size_t cn = take_const_span(ds[k], &csum);  // implicit span<int> -> span<const int>
        VH_CHECK(c, cn == ms[k].n && csum == msum, "span<const int> converted from span<int>: " << cn << " elements sum "
                                                                                             << csum);
        break;
      }
      case 9:
      {  // static extent over the current slice (extent = its length, 0..4)
        size_t n = ms[k].n;
        int *p   = ms[k].p;
        if (n > 4 || (n == 0 && p == nullptr))
        {
          n = n > 4 ? 4 : 0;
          p = n ? p : carr;
        }
        nostd::span<int> out;
        switch (n)
        {
          case 0:
            check_static<0>(c, p, &out);
            break;
          case 1:
            check_static<1>(c, p, &out);
            break;
          case 2:
            check_static<2>(c, p, &out);
            break;
          case 3:
            check_static<3>(c, p, &out);
            break;
          default:
            check_static<4>(c, p, &out);
            break;
        }
        ds[j]   = out;
        ms[j].p = p, ms[j].n = n, ms[j].reg = n ? region_of(p) : -1;
        if (n && ms[j].reg < 0)
          ms[j].reg = ms[k].reg;
        d << "s" << j << "=static<" << n << ">(s" << k << ")";
        c.tag("static-extent-" + std::to_string(n));
        c.nontrivial = true;
        break;
      }
      case 10:
      {
        d << "subviews(s" << k << ")";
        check_subviews(c, rd, ds[k], ms[k].p, ms[k].n);
        if (!has_first<nostd::span<int>>::value && !has_last<nostd::span<int>>::value &&
            !has_subspan<nostd::span<int>>::value)
        {
          // this version of the header has no first/last/subspan: a subview is what callers build from the
          // span's own data()/size() (and begin()/end()); that is compared with the slice model instead
          size_t off = rd.below(static_cast<uint32_t>(ms[k].n + 1));
          size_t cnt = rd.below(static_cast<uint32_t>(ms[k].n - off + 1));
          nostd::span<int> sub(ds[k].data() + off, cnt);
          check_span(c, sub, ms[k].p + off, cnt, "span(s.data()+off,count)");
          nostd::span<int> tail(ds[k].begin() + off, ds[k].end());
          check_span(c, tail, ms[k].p + off, ms[k].n - off, "span(s.begin()+off,s.end())");
          nostd::span<int> whole(ds[k].data(), ds[k].size());
          check_span(c, whole, ms[k].p, ms[k].n, "span(s.data(),s.size())");
          d << "[" << off << "," << cnt << "]";
          c.tag(cnt ? "subviews-not-offered:slice-built-from-data()+offset" : "subviews-not-offered:empty-slice-from-data()+offset");
          if (cnt)
          {
            c.nontrivial = true;
            VH_CHECK(c, sub[cnt - 1] == ms[k].p[off + cnt - 1], "last element of the rebuilt slice");
          }
        }
        break;
      }
      case 11:
      {  // nostd::data / nostd::size
        d << "data/size";
        VH_CHECK(c, nostd::data(vec) == std::data(vec) && nostd::size(vec) == std::size(vec), "nostd::data/size(vector)");
        const std::vector<int> &cv = vec;
        VH_CHECK(c, nostd::data(cv) == std::data(cv) && nostd::size(cv) == std::size(cv), "nostd::data/size(const vector)");
        VH_CHECK(c, nostd::data(carr) == std::data(carr) && nostd::size(carr) == std::size(carr), "nostd::data/size(int[4])");
        VH_CHECK(c, nostd::data(arr) == std::data(arr) && nostd::size(arr) == std::size(arr), "nostd::data/size(std::array)");
        std::initializer_list<int> il = {7, 8, 9};
        VH_CHECK(c, nostd::data(il) == std::data(il) && nostd::size(il) == il.size(), "nostd::data/size(initializer_list)");
        std::string str(rd.below(5), 'x');
        VH_CHECK(c, nostd::data(str) == std::data(str) && nostd::size(str) == std::size(str), "nostd::data/size(string)");
        c.tag("data-size");
        break;
      }
      default:
      {  // other element types / containers: span<const char> over a string, initializer_list argument
        std::string str = "abc";
        str.resize(rd.below(6), 'q');
        nostd::span<char> sc(str);
        check_span(c, sc, str.data(), str.size(), "span<char>(std::string&)");
        const std::string &cstr = str;
        nostd::span<const char> scc(cstr);
        check_span(c, scc, cstr.data(), cstr.size(), "span<const char>(const std::string&)");
        long sum  = 0;
        std::initializer_list<int> il = {4, 5, 6};
        size_t n3                     = take_const_span(il, &sum);
        VH_CHECK(c, n3 == 3 && sum == 15, "span<const int> from an initializer_list: " << n3 << " elements sum " << sum);
        std::vector<std::pair<std::string, int>> kv(rd.below(4), {"k", 1});
        nostd::span<const std::pair<std::string, int>> skv(kv.data(), kv.size());
        check_span(c, skv, static_cast<const std::pair<std::string, int> *>(kv.data()), kv.size(), "span<const pair>");
        d << "misc(string " << str.size() << ", kv " << kv.size() << ")";
        c.tag("other-element-types");
        break;
      }
    }
    c.note(d.str() + "\n");
    for (int q = 0; q < 3; ++q)
      check_span(c, ds[q], ms[q].p, ms[q].n, "slot");
    VH_CHECK(c, vec == mvec, "vector contents differ from the model after a write through a span");
    VH_CHECK(c, std::equal(carr, carr + 4, mcarr.begin()), "int[4] contents differ from the model");
    VH_CHECK(c, std::equal(arr.begin(), arr.end(), marr.begin()), "std::array contents differ from the model");
  }
}

// ================================================================================================
// smart pointers: instance-counted pointees, one registry per side (0 = nostd, 1 = std)
namespace
{
struct Registry
{
  std::set<int> live;
  int constructed  = 0;
  int destroyed    = 0;
  int double_destroy = 0;  // destructor ran for an id that is not live
  int next_auto    = 1000;  // ids of array elements (default constructed)
  void reset() { *this = Registry(); }
  std::string show() const
  {
    std::string s = "live{";
    for (int id : live)
      s += std::to_string(id) + " ";
    return s + "} ctor=" + std::to_string(constructed) + " dtor=" + std::to_string(destroyed) +
           (double_destroy ? " DOUBLE-DESTROY=" + std::to_string(double_destroy) : "");
  }
};
Registry g_reg[2];

template <int Side>
struct Obj
{
  int id;
  Obj() : Obj(g_reg[Side].next_auto++) {}
  explicit Obj(int i) : id(i)
  {
    g_reg[Side].live.insert(id);
    ++g_reg[Side].constructed;
  }
  Obj(const Obj &)            = delete;
  Obj &operator=(const Obj &) = delete;
  virtual ~Obj()
  {
    if (!g_reg[Side].live.erase(id))
      ++g_reg[Side].double_destroy;
    ++g_reg[Side].destroyed;
    id = -1;
  }
  virtual int kind() const { return 0; }
};

template <int Side>
struct Der : Obj<Side>
{
  int extra;
  explicit Der(int i) : Obj<Side>(i), extra(i * 2) {}
  int kind() const override { return 1; }
};

// a derived class whose Obj base is NOT at offset 0 (second, non-empty polymorphic base first): every
// derived-to-base conversion of a pointer to it needs an address adjustment, so a conversion path that
// re-interprets the bits instead of converting the pointer shows in id / kind() read through the base
struct Pad
{
  long pad0 = 0x5a5a5a5a, pad1 = 0x0f0f0f0f;
  virtual ~Pad() {}
  virtual long pad_sum() const { return pad0 + pad1; }
};
template <int Side>
struct Der2 : Pad, Obj<Side>
{
  int extra;
  explicit Der2(int i) : Obj<Side>(i), extra(i * 3) {}
  int kind() const override { return 2; }
};

// Finding C20-uptr-reset-order (FIXED in /repo 73d00ce): nostd::unique_ptr::reset destroyed the old
// object BEFORE it stored the new pointer; std::unique_ptr stores first ([unique.ptr.single.modifiers]:
// "the order of these operations is significant because the call to get_deleter() may destroy *this").
// Shapes that observe the order - an object that (transitively) owns the pointer that manages it, a
// pointee whose destructor looks at / resets its owner - made the nostd side destroy an object twice.
// They are generated unless the finding is listed as open again (vh::excluded).
const bool kHoldBack_uptr_reset_order = false;
const char *const kUptrResetOrder     = "C20-uptr-reset-order";

struct NPol
{
  static constexpr int side = 0;
  template <class T>
  using up = nostd::unique_ptr<T>;
  template <class T>
  using sp = nostd::shared_ptr<T>;
};
struct SPol
{
  static constexpr int side = 1;
  template <class T>
  using up = std::unique_ptr<T>;
  template <class T>
  using sp = std::shared_ptr<T>;
};

struct POp
{
  int kind = 0;
  int i = 0, j = 0, k = 0;
  int id   = 0;
  int flag = 0;
  int n    = 0;
  int alt  = 0;        // late draw: selects among alternatives added later (0 = the original form)
  bool blind = false;  // shapes held back / excluded as an open finding are replaced by their harmless twin
};

enum UKind
{
  U_MAKE,
  U_MAKE_DERIVED_TO_BASE,
  U_MAKE_DERIVED,
  U_RESET_NEW,
  U_RESET,
  U_NULL,
  U_MOVE_ASSIGN,
  U_MOVE_CONSTRUCT,
  U_SWAP,
  U_CONVERT_DERIVED,
  U_RELEASE_DELETE,
  U_RELEASE_REWRAP,
  U_FROM_STD,
  U_TO_STD,
  U_STD_BACK,
  U_ARR_MAKE,
  U_ARR_RESET,
  U_ARR_MOVE,
  U_ARR_NULL,
  U_CHAIN_PUSH,
  U_CHAIN_POP,
  U_CHAIN_POP_SECOND,
  U_CHAIN_SPLICE,
  U_RING_CLOSE,
  U_RING_BREAK,
  U_WATCH_MAKE,
  U_WATCH_DROP,
  U_NKINDS
};
const char *const kUNames[] = {"make",          "make_derived_to_base", "make_derived", "reset_new",    "reset",
                               "assign_null",   "move_assign",          "move_construct", "swap",       "convert_derived",
                               "release_delete", "release_rewrap",      "from_std",     "to_std",       "std_back",
                               "arr_make",      "arr_reset",            "arr_move",     "arr_null",
                               "chain_push",    "chain_pop",            "chain_pop_second", "chain_splice",
                               "ring_close",    "ring_break",           "watch_make",   "watch_drop"};
static_assert(sizeof(kUNames) / sizeof(kUNames[0]) == U_NKINDS, "one name per unique_ptr operation");

template <class P>
struct UWorld
{
  static constexpr int S = P::side;
  using O                = Obj<S>;
  using D                = Der<S>;
  template <class T>
  using up = typename P::template up<T>;
  using D2               = Der2<S>;
  up<O> b[4];
  up<D> d[2];
  up<D2> e;  // derived object whose Obj base sits at a non-zero offset
  up<O[]> arr;
  std::unique_ptr<O> parked;  // a std::unique_ptr on both sides (conversions from/to the std type)
  static const char *side_name() { return S == 0 ? "nostd" : "std (harness error)"; }
  // a pointee that owns the next one through the pointer under test (list idiom: head = move(head->next),
  // where the source of the move assignment is owned by the object the destination is about to give up)
  struct UNode : O
  {
    up<UNode> next;
    bool dying = false;
    explicit UNode(int i) : O(i) {}
    ~UNode()
    {
      // entered again for the same object while its first destruction is still running: the pointer under
      // test deletes the object a second time (the recursion would never end, so the case stops here)
      if (dying)
        vh::fatal_failure(std::string(side_name()) + " side: object " + std::to_string(this->id) +
                          " is destroyed a second time from inside its own destruction (exactly one destruction per "
                          "managed object); " + g_reg[S].show());
      dying = true;
    }
  };
  up<UNode> chain[2];
  // a closed ownership cycle (head -> ... -> tail -> head), reachable only through this raw pointer; a cycle
  // of length 1 is an object that owns itself.  Giving up ANY of its links destroys every member once.
  UNode *ring[2] = {nullptr, nullptr};
  // a pointee that looks at the pointer managing it from inside its destructor (and, mode 1, resets that
  // pointer again): with the std type the owner already holds its new value at that point
  std::string wlog;  // declared before the watchers: written by their destructors
  struct WNode : O
  {
    up<WNode> *owner;
    int mode;
    std::string *log;
    bool dying = false;
    WNode(int i, up<WNode> *ow, int m, std::string *lg) : O(i), owner(ow), mode(m), log(lg) {}
    ~WNode()
    {
      if (dying)
        vh::fatal_failure(std::string(side_name()) + " side: watcher " + std::to_string(this->id) +
                          " is destroyed a second time from inside its own destruction (exactly one destruction per "
                          "managed object); " + g_reg[S].show());
      dying = true;
      if (owner == nullptr)
        return;
      const WNode *seen = owner->get();
      *log += "dtor(" + std::to_string(this->id) + ") sees owner=" +
              (seen == nullptr ? std::string("null") : seen == this ? std::string("itself") : "other:" + std::to_string(seen->id));
      if (mode == 1)
      {
        *log += " resets-owner";
        owner->reset();
      }
      *log += "; ";
    }
  };
  up<WNode> wslot[2];

  UWorld() = default;
  ~UWorld()
  {
    // leaving (also by a failed check): nothing observes any more, cycles are opened by release()
    for (auto &w : wslot)
      if (w)
        w->owner = nullptr;
    for (auto &r : ring)
      if (r)
      {
        up<UNode> t(r->next.release());
        r = nullptr;
      }
  }
  void close_ring(int k, int id, bool two)
  {
    if (ring[k])
      return;
    if (!chain[k] && two)
    {
      UNode *a = new UNode(id), *b2 = new UNode(id + 250);  // two objects that own each other
      a->next.reset(b2);
      b2->next.reset(a);
      ring[k] = a;
    }
    else if (!chain[k])
    {
      UNode *n = new UNode(id);  // an object that owns itself
      n->next.reset(n);
      ring[k] = n;
    }
    else
    {
      UNode *head = chain[k].release();
      UNode *tail = head;
      while (tail->next)
        tail = tail->next.get();
      tail->next.reset(head);
      ring[k] = head;
    }
  }
  int ring_len(int k) const
  {
    int n = 0;
    if (ring[k])
    {
      const UNode *p = ring[k];
      do
      {
        ++n;
        p = p->next.get();
      } while (p && p != ring[k] && n < 64);
    }
    return n;
  }
  int chain_len(int k) const
  {
    int n = 0;
    for (const UNode *p = chain[k].get(); p && n < 64; p = p->next.get())
      ++n;
    return n;
  }

  void step(const POp &op, std::ostream &o)
  {
    switch (op.kind)
    {
      case U_MAKE:
        b[op.i] = up<O>(new O(op.id));
        break;
      case U_MAKE_DERIVED_TO_BASE:
        if (op.alt & 1)
        {
          if (op.flag)
          {
            up<O> t(up<D2>(new D2(op.id)));  // converting move construction, base at a non-zero offset
            b[op.i] = std::move(t);
          }
          else
            b[op.i] = up<D2>(new D2(op.id));
        }
        else if (op.flag)
        {
          up<O> t(up<D>(new D(op.id)));  // converting move construction
          b[op.i] = std::move(t);
        }
        else
          b[op.i] = up<D>(new D(op.id));  // converting move assignment
        break;
      case U_MAKE_DERIVED:
        if (op.alt & 1)
          e.reset(new D2(op.id));
        else
          d[op.k].reset(new D(op.id));
        break;
      case U_RESET_NEW:
        b[op.i].reset(new O(op.id));
        break;
      case U_RESET:
        b[op.i].reset();
        break;
      case U_NULL:
        b[op.i] = nullptr;
        break;
      case U_MOVE_ASSIGN:
      {
        up<O> &src = b[op.j];  // may be the destination itself
        b[op.i]    = std::move(src);
        break;
      }
      case U_MOVE_CONSTRUCT:
      {
        up<O> t(std::move(b[op.j]));
        o << "src-null-after-move=" << (b[op.j].get() == nullptr) << " ";
        b[op.i] = std::move(t);
        break;
      }
      case U_SWAP:
        b[op.i].swap(b[op.j]);
        break;
      case U_CONVERT_DERIVED:
        if (op.alt & 1)
        {
          if (op.flag)
          {
            up<O> t(std::move(e));
            b[op.i] = std::move(t);
          }
          else
            b[op.i] = std::move(e);
          o << "src-null-after-move=" << (e.get() == nullptr) << " ";
        }
        else if (op.flag)
        {
          up<O> t(std::move(d[op.k]));
          b[op.i] = std::move(t);
        }
        else
          b[op.i] = std::move(d[op.k]);
        break;
      case U_RELEASE_DELETE:
      {
        O *p = b[op.i].release();
        o << "released=" << (p ? p->id : -1) << " null-after=" << (b[op.i].get() == nullptr) << " ";
        delete p;
        break;
      }
      case U_RELEASE_REWRAP:
      {
        O *p = b[op.i].release();
        o << "released=" << (p ? p->id : -1) << " ";
        if (op.flag)
          b[op.j] = up<O>(p);
        else
          b[op.j].reset(p);
        break;
      }
      case U_FROM_STD:
      {
        // the nostd pointer accepts std::unique_ptr<U>&& (construction and assignment)
        if ((op.flag & 1) && (op.alt & 1))
        {
          std::unique_ptr<D2> s(op.flag & 4 ? nullptr : new D2(op.id));
          if (op.flag & 2)
          {
            up<O> t(std::move(s));
            b[op.i] = std::move(t);
          }
          else
            b[op.i] = std::move(s);
          o << "std-src-null=" << (s == nullptr) << " ";
        }
        else if (op.flag & 1)
        {
          std::unique_ptr<D> s(op.flag & 4 ? nullptr : new D(op.id));
          if (op.flag & 2)
          {
            up<O> t(std::move(s));
            b[op.i] = std::move(t);
          }
          else
            b[op.i] = std::move(s);
          o << "std-src-null=" << (s == nullptr) << " ";
        }
        else
        {
          std::unique_ptr<O> s(op.flag & 4 ? nullptr : new O(op.id));
          if (op.flag & 2)
          {
            up<O> t(std::move(s));
            b[op.i] = std::move(t);
          }
          else
            b[op.i] = std::move(s);
          o << "std-src-null=" << (s == nullptr) << " ";
        }
        break;
      }
      case U_TO_STD:
      {
        std::unique_ptr<O> x = std::move(b[op.i]);  // nostd: operator std::unique_ptr<T>() &&
        o << "src-null=" << (b[op.i].get() == nullptr) << " ";
        parked = std::move(x);
        break;
      }
      case U_STD_BACK:
        b[op.i] = std::move(parked);
        break;
      case U_ARR_MAKE:
        arr = up<O[]>(new O[static_cast<size_t>(op.n)]);
        break;
      case U_ARR_RESET:
        if (op.flag)
          arr.reset(new O[static_cast<size_t>(op.n)]);
        else
          arr.reset();
        break;
      case U_ARR_MOVE:
      {
        up<O[]> t(std::move(arr));
        o << "arr-null-after-move=" << (arr.get() == nullptr) << " ";
        if (op.flag)
        {
          arr = std::move(t);
        }
        else
        {
          up<O[]> &self = arr;
          t.swap(self);
          t.swap(arr);
        }
        break;
      }
      case U_ARR_NULL:
        arr = nullptr;
        break;
      case U_CHAIN_PUSH:
        for (int q = 0; q < ((op.flag & 4) ? 2 : 1); ++q)
        {
          up<UNode> n(new UNode(op.id + 250 * q));
          n->next     = std::move(chain[op.k]);
          chain[op.k] = std::move(n);
        }
        break;
      case U_CHAIN_POP:
        if (chain[op.k])
          chain[op.k] = std::move(chain[op.k]->next);
        break;
      case U_CHAIN_POP_SECOND:
        if (chain[op.k] && chain[op.k]->next)
          chain[op.k]->next = std::move(chain[op.k]->next->next);
        break;
      case U_CHAIN_SPLICE:
        // the tail of one chain replaces the whole other chain (or, k twice, the chain itself)
        if (chain[op.k] && chain[op.k]->next)
          chain[op.flag & 1] = std::move(chain[op.k]->next);
        break;
      case U_RING_CLOSE:
        close_ring(op.k, op.id, (op.flag & 2) != 0);
        break;
      case U_RING_BREAK:
      {
        close_ring(op.k, op.id + 500, (op.flag & 2) != 0);  // no cycle yet: chain k (or a fresh object owning itself) is closed first
        UNode *h   = ring[op.k];
        ring[op.k] = nullptr;
        switch (op.blind ? 0 : op.alt % 5)
        {
          case 0:
          {  // opened by release(): becomes a plain chain again (successor ... head)
            up<UNode> t(h->next.release());
            chain[op.flag & 1] = std::move(t);
            break;
          }
          case 1:  // from here on: one link is given up through the member itself; std destroys every
                   // member of the cycle exactly once (the link is null before the first delete)
            h->next.reset();
            break;
          case 2:
            h->next = nullptr;
            break;
          case 3:
            h->next = up<UNode>();
            break;
          default:
            h->next.reset(new UNode(op.id));
            break;
        }
        break;
      }
      case U_WATCH_MAKE:
      {
        WNode *n = new WNode(op.id, op.blind ? nullptr : &wslot[op.k], op.flag & 1, &wlog);
        switch ((op.flag >> 1) % 3)
        {
          case 0:
            wslot[op.k].reset(n);
            break;
          case 1:
            wslot[op.k] = up<WNode>(n);
            break;
          default:
          {
            up<WNode> t(n);
            wslot[op.k].swap(t);
            break;  // the old watcher dies with t: its owner holds the new one
          }
        }
        break;
      }
      case U_WATCH_DROP:
        if (!wslot[op.k])  // nothing to give up yet: a watcher moves in first (constructor, nothing destroyed)
          wslot[op.k] = up<WNode>(new WNode(op.id + 500, op.blind ? nullptr : &wslot[op.k], op.flag & 1, &wlog));
        switch (op.alt % 4)
        {
          case 0:
            wslot[op.k].reset();
            break;
          case 1:
            wslot[op.k] = nullptr;
            break;
          case 2:
            wslot[op.k] = up<WNode>();
            break;
          default:
            wslot[op.k] = std::move(wslot[op.k ^ 1]);  // the other watcher moves in
            break;
        }
        break;
    }
    for (auto &w : wslot)
      if (w && w->owner)
        w->owner = &w;
    if (!wlog.empty())
    {
      o << wlog;
      wlog.clear();
    }
  }

  void observe(std::ostream &o) const
  {
    for (int i = 0; i < 4; ++i)
    {
      o << "b" << i << "=";
      if (b[i].get() == nullptr)
        o << "null";
      else
        o << b[i]->id << "/" << (*b[i]).kind() << "/" << b[i].get()->id;
      o << (static_cast<bool>(b[i]) ? "+" : "-") << (b[i] == nullptr) << (nullptr == b[i]) << (b[i] != nullptr)
        << (nullptr != b[i]) << " ";
    }
    for (int k = 0; k < 2; ++k)
    {
      o << "d" << k << "=";
      if (d[k].get() == nullptr)
        o << "null";
      else
        o << d[k]->id << "/" << d[k]->kind() << "/" << d[k]->extra;
      o << (static_cast<bool>(d[k]) ? "+" : "-") << " ";
    }
    o << "e=";
    if (e.get() == nullptr)
      o << "null";
    else
      o << e->id << "/" << e->kind() << "/" << (*e).extra << "/" << e.get()->pad_sum();
    o << (static_cast<bool>(e) ? "+" : "-") << " eq=";
    for (int i = 0; i < 4; ++i)
    {
      for (int j = 0; j < 4; ++j)
        o << (b[i] == b[j]) << (b[i] != b[j]);
      for (int k = 0; k < 2; ++k)
        o << (b[i] == d[k]) << (b[i] != d[k]) << (d[k] == b[i]);
      o << (b[i] == e) << (b[i] != e) << (e == b[i]);  // mixed comparison needs the pointer adjustment
    }
    o << " arr=" << (arr.get() ? arr.get()[0].id : -1) << (static_cast<bool>(arr) ? "+" : "-");
    o << " parked=" << (parked ? parked->id : -1);
    for (int k = 0; k < 2; ++k)
    {
      o << " chain" << k << "=[";
      int guard = 0;
      for (const UNode *n = chain[k].get(); n && guard < 64; n = n->next.get(), ++guard)
        o << n->id << ",";
      o << "]";
    }
    for (int k = 0; k < 2; ++k)
    {
      o << " ring" << k << "=(";
      if (ring[k])
      {
        const UNode *n = ring[k];
        int guard     = 0;
        do
        {
          o << n->id << ",";
          n = n->next.get();
        } while (n && n != ring[k] && ++guard < 64);
        o << (n == ring[k] ? "closed" : "OPEN");
      }
      o << ")";
    }
    for (int k = 0; k < 2; ++k)
      o << " w" << k << "=" << (wslot[k] ? wslot[k]->id : -1) << (static_cast<bool>(wslot[k]) ? "+" : "-");
    o << " " << g_reg[S].show();
  }
};
}  // namespace

VH_TARGET(uptr_ops, 3,
          "a program is non-trivial when it contains an ownership transfer between two slots that "
          "both hold an object, a self move-assignment / self swap of an owning pointer, a "
          "release, a conversion (derived-to-base, from/to std::unique_ptr) of an owning "
          "pointer, a move assignment whose source is owned by the object the destination holds "
          "(list pop), the opening / destruction of an ownership cycle (an object owning itself, two "
          "objects owning each other, a closed chain), or the destruction of a pointee that looks at "
          "its owner; distinct = distinct operation sequence text")
{
  vh::Reader &rd = c.rd;
  g_reg[0].reset();
  g_reg[1].reset();
  int next_id = 1;
  {
    UWorld<NPol> wn;
    UWorld<SPol> ws;
    // start with some owners so that short programs already transfer ownership
    for (int i = 0; i < 2; ++i, ++next_id)
    {
      wn.b[i].reset(new Obj<0>(next_id));
      ws.b[i].reset(new Obj<1>(next_id));
    }
    wn.d[0].reset(new Der<0>(next_id));
    ws.d[0].reset(new Der<1>(next_id));
    ++next_id;
    wn.e.reset(new Der2<0>(next_id));
    ws.e.reset(new Der2<1>(next_id));
    ++next_id;
    unsigned nops = 1 + rd.below(24);
    for (unsigned step = 0; step < nops && (step == 0 || !rd.exhausted()); ++step)
    {
      POp op;
      op.kind = static_cast<int>(
          rd.weighted({14, 5, 5, 4, 3, 3, 12, 6, 8, 6, 4, 5, 6, 4, 4, 3, 2, 2, 1, 9, 6, 3, 3, 5, 6, 5, 4}));
      op.i    = static_cast<int>(rd.below(4));
      op.j    = static_cast<int>(rd.below(4));
      op.k    = static_cast<int>(rd.below(2));
      op.flag = static_cast<int>(rd.below(8));
      op.n    = 1 + static_cast<int>(rd.below(3));
      op.alt  = static_cast<int>(rd.below(20));
      op.id   = next_id++;
      // operands are usually owning slots (decided on the std side, which is the reference)
      for (int t = 0; t < 4 && !ws.b[op.j] && (t > 0 || rd.chance(70)); ++t)
        op.j = (op.j + 1) % 4;
      if (op.kind == U_RELEASE_DELETE || op.kind == U_RELEASE_REWRAP || op.kind == U_TO_STD || op.kind == U_SWAP ||
          op.kind == U_MOVE_ASSIGN)
        for (int t = 0; t < 4 && !ws.b[op.i] && (t > 0 || rd.chance(60)); ++t)
          op.i = (op.i + 1) % 4;
      if (op.kind == U_CONVERT_DERIVED && !ws.d[op.k] && rd.chance(70))
        op.k ^= 1;
      if ((op.kind == U_MOVE_ASSIGN || op.kind == U_SWAP) && rd.chance(12))
        op.j = op.i;  // self
      // chain / ring / watcher operations go to the slot where they have an effect (no extra draw)
      {
        int need = op.kind == U_CHAIN_POP ? 2 : (op.kind == U_CHAIN_POP_SECOND || op.kind == U_CHAIN_SPLICE) ? 3 : 0;
        if (need && ws.chain_len(op.k) < need && ws.chain_len(op.k ^ 1) > ws.chain_len(op.k))
          op.k ^= 1;
        if (op.kind == U_RING_BREAK && !ws.ring[op.k] && (ws.ring[op.k ^ 1] || ws.chain_len(op.k ^ 1) > ws.chain_len(op.k)))
          op.k ^= 1;
        if (op.kind == U_RING_CLOSE && ws.ring[op.k] && !ws.ring[op.k ^ 1])
          op.k ^= 1;
        if (op.kind == U_WATCH_DROP && !ws.wslot[op.k] && ws.wslot[op.k ^ 1])
          op.k ^= 1;
      }
      // the shapes of C20-uptr-reset-order (see kHoldBack_uptr_reset_order) are replaced by their harmless
      // twins while the finding is held back or listed as open: a cycle is only ever opened by release(),
      // watchers do not look at their owner
      if (op.kind == U_RING_BREAK || op.kind == U_WATCH_MAKE || op.kind == U_WATCH_DROP)
      {
        bool open_finding = vh::excluded(kUptrResetOrder);
        if (kHoldBack_uptr_reset_order || open_finding)
        {
          op.blind = true;
          if (open_finding && (op.kind != U_RING_BREAK || op.alt % 5 != 0))
            vh::count_excluded(kUptrResetOrder);
        }
      }
      bool src_owns = ws.b[op.j].get() != nullptr, dst_owns = ws.b[op.i].get() != nullptr;
      std::ostringstream d;
      d << kUNames[op.kind] << "(i=" << op.i << ",j=" << op.j << ",k=" << op.k << ",f=" << op.flag << ",a=" << op.alt
        << (op.blind ? ",held-back" : "") << ")";
      c.note(d.str() + "\n");
      const bool second_base = (op.alt & 1) != 0;
      switch (op.kind)
      {
        case U_RING_CLOSE:
          if (ws.ring[op.k])
            c.tag("ring_close-not-applicable");
          else
          {
            int len = ws.chain_len(op.k);
            c.tag(len == 0 ? ((op.flag & 2) ? "ring_close-two-objects-own-each-other" : "ring_close-object-owns-itself")
                           : len == 1 ? "ring_close-chain-of-1" : "ring_close-chain-of-2+");
          }
          break;
        case U_RING_BREAK:
        {
          static const char *const how[] = {"opened-by-release", "member.reset()", "member=nullptr", "member=move(empty)",
                                            "member.reset(new)"};
          int len = ws.ring[op.k] ? ws.ring_len(op.k) : (ws.chain_len(op.k) ? ws.chain_len(op.k) : ((op.flag & 2) ? 2 : 1));
          c.tag(std::string("ring_break-") + how[op.blind ? 0 : op.alt % 5] + (len == 1 ? "-self-owner" : "-cycle-of-2+"));
          c.nontrivial = true;
          break;
        }
        case U_WATCH_MAKE:
          c.tag(std::string("watch_make") + (ws.wslot[op.k] ? "-over-watcher" : "-into-null") + (op.blind ? "-blind" : "") +
                (!op.blind && (op.flag & 1) ? "-reentrant" : ""));
          c.nontrivial = c.nontrivial || (!op.blind && ws.wslot[op.k]);
          break;
        case U_WATCH_DROP:
        {
          static const char *const how[] = {"reset()", "=nullptr", "=move(empty)", "=move(other-watcher)"};
          c.tag(std::string("watch_drop-") + how[op.alt % 4] + (op.blind ? "-blind" : (op.flag & 1) && !ws.wslot[op.k] ? "-reentrant" : ""));
          c.nontrivial = c.nontrivial || !op.blind;
          break;
        }
        case U_MAKE_DERIVED_TO_BASE:
        case U_MAKE_DERIVED:
          c.tag(std::string(kUNames[op.kind]) + (second_base ? "-base-at-offset" : ""));
          break;
        case U_MOVE_ASSIGN:
        case U_MOVE_CONSTRUCT:
        case U_SWAP:
          if (op.i == op.j)
          {
            c.tag(std::string(kUNames[op.kind]) + (dst_owns ? "-self-owning" : "-self-null"));
            c.nontrivial = c.nontrivial || dst_owns;
          }
          else
          {
            c.tag(std::string(kUNames[op.kind]) + (src_owns ? (dst_owns ? "-both-own" : "-into-null") : (dst_owns ? "-null-over-owning" : "-both-null")));
            c.nontrivial = c.nontrivial || (src_owns && dst_owns);
          }
          break;
        case U_RELEASE_DELETE:
        case U_TO_STD:
          c.tag(std::string(kUNames[op.kind]) + (dst_owns ? "-owning" : "-null"));
          c.nontrivial = c.nontrivial || dst_owns;
          break;
        case U_RELEASE_REWRAP:
          c.tag(std::string(kUNames[op.kind]) + (op.i == op.j ? "-same-slot" : "") + (dst_owns ? "-owning" : "-null"));
          c.nontrivial = c.nontrivial || dst_owns;
          break;
        case U_CONVERT_DERIVED:
        {
          bool owning = second_base ? ws.e != nullptr : ws.d[op.k] != nullptr;
          c.tag(std::string(kUNames[op.kind]) + (second_base ? "-base-at-offset" : "") + (owning ? "-owning" : "-null") +
                (dst_owns ? "-over-owning" : ""));
          c.nontrivial = c.nontrivial || owning;
          break;
        }
        case U_FROM_STD:
          c.tag(std::string("from_std") + (op.flag & 1 ? (second_base ? "-derived-base-at-offset" : "-derived") : "") +
                (op.flag & 2 ? "-ctor" : "-assign") +
                (op.flag & 4 ? "-null" : ""));
          c.nontrivial = c.nontrivial || !(op.flag & 4);
          break;
        case U_STD_BACK:
          c.tag(std::string("std_back") + (ws.parked ? "-owning" : "-null"));
          break;
        case U_CHAIN_POP:
        case U_CHAIN_POP_SECOND:
        case U_CHAIN_SPLICE:
        {
          // non-trivial when the move assignment's source is owned by the object the destination gives up
          int len = 0;
          for (auto *n = ws.chain[op.k].get(); n; n = n->next.get())
            ++len;
          bool deep = len >= (op.kind == U_CHAIN_POP ? 2 : 3);
          c.tag(std::string(kUNames[op.kind]) + (deep ? "-source-owned-by-destination's-object" : "-short"));
          c.nontrivial = c.nontrivial || deep;
          break;
        }
        default:
          c.tag(kUNames[op.kind]);
          break;
      }
      std::ostringstream on, os;
      wn.step(op, on);
      ws.step(op, os);
      wn.observe(on);
      ws.observe(os);
      VH_CHECK(c, on.str() == os.str(), "after step " << step << " " << d.str() << "\n  nostd: " << on.str()
                                                      << "\n  std:   " << os.str());
      VH_CHECK(c, g_reg[0].double_destroy == 0, "nostd side destroyed an object twice: " << g_reg[0].show());
    }
  }
  VH_CHECK(c, g_reg[0].live.empty() && g_reg[0].constructed == g_reg[0].destroyed && g_reg[0].double_destroy == 0,
           "nostd side at the end: " << g_reg[0].show() << " (std side: " << g_reg[1].show() << ")");
  VH_CHECK(c, g_reg[1].live.empty() && g_reg[1].constructed == g_reg[1].destroyed,
           "std side at the end (harness error): " << g_reg[1].show());
}

// ================================================================================================
namespace
{
// a pointee that itself holds a shared pointer of the side under test (list idioms: p = p->next)
template <class P>
struct Node : Obj<P::side>
{
  typename P::template sp<Node> next;
  explicit Node(int i) : Obj<P::side>(i) {}
};
template <class P>
struct DNode : Node<P>
{
  explicit DNode(int i) : Node<P>(i) {}
  int kind() const override { return 1; }
};

// derived node whose Node base sits at a non-zero offset (see Pad / Der2)
template <class P>
struct DNode2 : Pad, Node<P>
{
  explicit DNode2(int i) : Node<P>(i) {}
  int kind() const override { return 2; }
};

enum SKind
{
  S_MAKE_RAW,
  S_MAKE_FROM_STD,
  S_DROP_EXT,
  S_COPY_ASSIGN,
  S_MOVE_ASSIGN,
  S_COPY_CONSTRUCT,
  S_MOVE_CONSTRUCT,
  S_NULL,
  S_SWAP,
  S_MAKE_DERIVED,
  S_CONVERT_DERIVED,
  S_FROM_UNIQUE,
  S_LINK,
  S_ADVANCE_COPY,
  S_ADVANCE_MOVE,
  S_UNLINK,
  S_TO_CONST,
  S_ADVANCE_NULL,
  S_RING_CLOSE,
  S_RING_BREAK,
  S_NKINDS
};
const char *const kSNames[] = {"make_raw",    "make_from_std",  "drop_ext",       "copy_assign", "move_assign",     "copy_construct",
                               "move_construct", "assign_null", "swap",           "make_derived", "convert_derived", "from_unique",
                               "link",        "advance_copy",   "advance_move",   "unlink",      "to_const",
                               "advance_null", "ring_close",    "ring_break"};
static_assert(sizeof(kSNames) / sizeof(kSNames[0]) == S_NKINDS, "one name per shared_ptr operation");

template <class P>
struct SWorld
{
  static constexpr int S = P::side;
  using N                = Node<P>;
  using DN               = DNode<P>;
  template <class T>
  using sp = typename P::template sp<T>;
  template <class T>
  using up = typename P::template up<T>;
  using DN2              = DNode2<P>;
  sp<N> s[4];
  sp<DN> d[2];
  sp<DN2> e;  // derived node whose Node base sits at a non-zero offset
  sp<const N> cs;
  std::shared_ptr<N> ext[2];  // std::shared_ptr co-owners on both sides: use_count() is observable
  // an ownership cycle without outside owner (a node owning itself / two nodes owning each other), reachable
  // through this raw pointer only; giving up one link through the member destroys every member once
  N *ring[2] = {nullptr, nullptr};

  SWorld() = default;
  ~SWorld()
  {
    for (auto &r : ring)
      if (r)
      {
        sp<N> t(std::move(r->next));  // opened by moving the link out
        r = nullptr;
      }
  }
  void close_ring(int k, int id, bool two)
  {
    if (ring[k])
      return;
    N *a = new N(id);
    if (two)
    {
      N *b2   = new N(id + 250);
      a->next = sp<N>(b2);
      b2->next = sp<N>(a);
    }
    else
      a->next = sp<N>(a);
    ring[k] = a;
  }

  void step(const POp &op, std::ostream &o)
  {
    switch (op.kind)
    {
      case S_MAKE_RAW:
        s[op.i] = sp<N>(new N(op.id));
        break;
      case S_MAKE_FROM_STD:
        ext[op.k] = std::make_shared<N>(op.id);
        if (op.flag & 1)
          s[op.i] = sp<N>(ext[op.k]);  // nostd: shared_ptr(std::shared_ptr<T>)
        else
        {
          sp<N> t = ext[op.k];
          s[op.i] = t;
        }
        break;
      case S_DROP_EXT:
        ext[op.k].reset();
        break;
      case S_COPY_ASSIGN:
      {
        const sp<N> &src = s[op.j];  // may be the destination itself
        s[op.i]          = src;
        break;
      }
      case S_MOVE_ASSIGN:
      {
        sp<N> &src = s[op.j];  // may be the destination itself
        s[op.i]    = std::move(src);
        break;
      }
      case S_COPY_CONSTRUCT:
      {
        sp<N> t(s[op.j]);
        o << "copy-equal=" << (t == s[op.j]) << " ";
        s[op.i] = std::move(t);
        break;
      }
      case S_MOVE_CONSTRUCT:
      {
        sp<N> t(std::move(s[op.j]));
        o << "src-null-after-move=" << (s[op.j].get() == nullptr) << " ";
        s[op.i] = std::move(t);
        break;
      }
      case S_NULL:
        s[op.i] = nullptr;
        break;
      case S_SWAP:
        s[op.i].swap(s[op.j]);
        break;
      case S_MAKE_DERIVED:
        if (op.alt & 1)
          e = sp<DN2>(new DN2(op.id));
        else
          d[op.k] = sp<DN>(new DN(op.id));
        break;
      case S_CONVERT_DERIVED:
        if ((op.alt & 1) && (op.flag & 1))
        {
          sp<DN2> t(e);  // keeps e: ownership shared across pointer types, addresses differ
          s[op.i] = sp<N>(std::move(t));
        }
        else if (op.alt & 1)
        {
          sp<N> t(std::move(e));
          o << "src-null-after-move=" << (e.get() == nullptr) << " ";
          s[op.i] = std::move(t);
        }
        else if (op.flag & 1)
        {
          sp<DN> t(d[op.k]);  // keeps d[k]: ownership shared across pointer types
          s[op.i] = sp<N>(std::move(t));
        }
        else
        {
          sp<N> t(std::move(d[op.k]));
          o << "src-null-after-move=" << (d[op.k].get() == nullptr) << " ";
          s[op.i] = std::move(t);
        }
        break;
      case S_FROM_UNIQUE:
      {
        N *raw = (op.flag & 4) ? nullptr : new N(op.id);
        if (op.flag & 1)
        {
          std::unique_ptr<N> u(raw);
          s[op.i] = sp<N>(std::move(u));  // nostd: shared_ptr(std::unique_ptr<T>&&)
          o << "u-null=" << (u == nullptr) << " ";
        }
        else
        {
          up<N> u(raw);
          s[op.i] = sp<N>(std::move(u));  // nostd: shared_ptr(nostd::unique_ptr<T>&&)
          o << "u-null=" << (u == nullptr) << " ";
        }
        break;
      }
      case S_LINK:
        // edges only lead to a larger id: the ownership graph stays acyclic (a cycle leaks on both sides)
        if (s[op.i] && s[op.j] && s[op.j]->id > s[op.i]->id)
        {
          s[op.i]->next = s[op.j];
          o << "linked ";
        }
        break;
      case S_ADVANCE_COPY:
        if (s[op.i])
        {
          s[op.i] = s[op.i]->next;  // the source is owned by the object the destination releases
          o << "advanced ";
        }
        break;
      case S_ADVANCE_MOVE:
        if (s[op.i])
        {
          s[op.i] = std::move(s[op.i]->next);
          o << "advanced ";
        }
        break;
      case S_UNLINK:
        if (s[op.i])
          s[op.i]->next = nullptr;
        break;
      case S_TO_CONST:
        if (op.alt & 1)
        {
          sp<DN2> t(e);
          cs = sp<const N>(std::move(t));  // derived-to-base (adjusted) and to const in one conversion
        }
        else
        {
          sp<N> t(s[op.i]);
          cs = sp<const N>(std::move(t));
        }
        break;
      case S_ADVANCE_NULL:
        if (s[op.i])
        {
          sp<N> keep = s[op.i]->next;  // the rest of the list survives the owner of its head
          s[op.i]    = nullptr;
          o << "kept=" << (keep ? keep->id : -1) << " ";
          s[op.i] = std::move(keep);
        }
        break;
      case S_RING_CLOSE:
        close_ring(op.k, op.id, (op.flag & 2) != 0);
        break;
      case S_RING_BREAK:
      {
        close_ring(op.k, op.id + 500, (op.flag & 2) != 0);
        N *h       = ring[op.k];
        ring[op.k] = nullptr;
        switch (op.alt % 5)
        {
          case 0:
          {
            sp<N> t(std::move(h->next));  // link moved out, cycle dies with the local
            break;
          }
          case 1:
            h->next = nullptr;  // from here on the member that is assigned dies during the assignment
            break;
          case 2:
            h->next = sp<N>();
            break;
          // (no copy assignment here: libstdc++'s copy assignment releases the old control block before it
          // stores the new one and then writes into the member that has just been destroyed)
          case 3:
          {
            sp<N> empty;
            h->next.swap(empty);
            break;
          }
          default:
            h->next = sp<N>(new N(op.id));
            break;
        }
        break;
      }
    }
  }

  void observe(std::ostream &o) const
  {
    for (int i = 0; i < 4; ++i)
    {
      o << "s" << i << "=";
      if (s[i].get() == nullptr)
        o << "null";
      else
      {
        o << s[i]->id << "/" << (*s[i]).kind() << ">";
        // the chain behind it
        const N *n = s[i].get();
        for (int hop = 0; hop < 6 && n->next; ++hop)
        {
          n = n->next.get();
          o << n->id << ">";
        }
      }
      o << (static_cast<bool>(s[i]) ? "+" : "-") << (s[i] == nullptr) << (nullptr == s[i]) << (s[i] != nullptr)
        << (nullptr != s[i]) << " ";
    }
    for (int k = 0; k < 2; ++k)
      o << "d" << k << "=" << (d[k] ? d[k]->id : -1) << (static_cast<bool>(d[k]) ? "+" : "-") << " ";
    o << "e=";
    if (e.get() == nullptr)
      o << "null";
    else
      o << e->id << "/" << (*e).kind() << "/" << e.get()->pad_sum();
    o << (static_cast<bool>(e) ? "+" : "-") << " ";
    o << "cs=" << (cs ? cs->id : -1) << "/" << (cs ? cs->kind() : -1) << " eq=";
    for (int i = 0; i < 4; ++i)
    {
      for (int j = 0; j < 4; ++j)
        o << (s[i] == s[j]) << (s[i] != s[j]);
      for (int k = 0; k < 2; ++k)
        o << (s[i] == d[k]) << (s[i] != d[k]) << (d[k] == s[i]);
      o << (s[i] == cs) << (cs != s[i]);
      o << (s[i] == e) << (s[i] != e) << (e == s[i]);  // mixed comparison needs the pointer adjustment
    }
    o << (cs == e) << (e != cs);
    for (int k = 0; k < 2; ++k)
      o << " ext" << k << "=" << (ext[k] ? ext[k]->id : -1) << "#" << ext[k].use_count();
    for (int k = 0; k < 2; ++k)
    {
      o << " ring" << k << "=(";
      if (ring[k])
      {
        const N *n = ring[k];
        int guard  = 0;
        do
        {
          o << n->id << ",";
          n = n->next.get();
        } while (n && n != ring[k] && ++guard < 8);
        o << (n == ring[k] ? "closed" : "OPEN");
      }
      o << ")";
    }
    o << " " << g_reg[S].show();
  }
  // owners of the object in slot i among the observable handles (std side is the reference)
  int owners_of(int i) const
  {
    if (!s[i])
      return 0;
    int n = 0;
    for (int q = 0; q < 4; ++q)
      n += s[q].get() == s[i].get();
    for (int q = 0; q < 2; ++q)
      n += (d[q].get() == s[i].get()) + (ext[q].get() == s[i].get());
    n += cs.get() == s[i].get();
    n += static_cast<const N *>(e.get()) == s[i].get();
    return n;
  }
};
}  // namespace

VH_TARGET(sptr_ops, 3,
          "a program is non-trivial when it contains a copy/move/swap between two slots of which at "
          "least one owns an object, a self copy-/move-assignment or self swap of an owning "
          "pointer, an advance along a link (p = p->next, also through p = nullptr), the destruction of "
          "an ownership cycle through one of its own links, or a conversion (derived-to-base, from "
          "unique_ptr, to const) of an owning pointer; distinct = distinct operation sequence text")
{
  vh::Reader &rd = c.rd;
  g_reg[0].reset();
  g_reg[1].reset();
  int next_id = 1;
  {
    SWorld<NPol> wn;
    SWorld<SPol> ws;
    for (int i = 0; i < 2; ++i, ++next_id)
    {
      wn.s[i] = nostd::shared_ptr<Node<NPol>>(new Node<NPol>(next_id));
      ws.s[i] = std::shared_ptr<Node<SPol>>(new Node<SPol>(next_id));
    }
    wn.d[0] = nostd::shared_ptr<DNode<NPol>>(new DNode<NPol>(next_id));
    ws.d[0] = std::shared_ptr<DNode<SPol>>(new DNode<SPol>(next_id));
    ++next_id;
    wn.e = nostd::shared_ptr<DNode2<NPol>>(new DNode2<NPol>(next_id));
    ws.e = std::shared_ptr<DNode2<SPol>>(new DNode2<SPol>(next_id));
    ++next_id;
    unsigned nops = 1 + rd.below(24);
    for (unsigned step = 0; step < nops && (step == 0 || !rd.exhausted()); ++step)
    {
      POp op;
      op.kind = static_cast<int>(rd.weighted({12, 6, 3, 14, 12, 6, 6, 4, 8, 3, 5, 5, 10, 6, 5, 2, 3, 4, 2, 6}));
      op.i    = static_cast<int>(rd.below(4));
      op.j    = static_cast<int>(rd.below(4));
      op.k    = static_cast<int>(rd.below(2));
      op.flag = static_cast<int>(rd.below(8));
      op.alt  = static_cast<int>(rd.below(12));
      op.id   = next_id++;
      for (int t = 0; t < 4 && !ws.s[op.j] && (t > 0 || rd.chance(70)); ++t)
        op.j = (op.j + 1) % 4;
      if (op.kind == S_SWAP || op.kind == S_MOVE_ASSIGN || op.kind == S_COPY_ASSIGN || op.kind == S_LINK ||
          op.kind == S_ADVANCE_COPY || op.kind == S_ADVANCE_MOVE || op.kind == S_TO_CONST || op.kind == S_ADVANCE_NULL)
        for (int t = 0; t < 4 && !ws.s[op.i] && (t > 0 || rd.chance(60)); ++t)
          op.i = (op.i + 1) % 4;
      if (op.kind == S_CONVERT_DERIVED && !ws.d[op.k] && rd.chance(70))
        op.k ^= 1;
      if ((op.kind == S_MOVE_ASSIGN || op.kind == S_COPY_ASSIGN || op.kind == S_SWAP) && rd.chance(15))
        op.j = op.i;  // self
      if (op.kind == S_LINK)
      {
        // look for a pair of slots holding two different objects
        for (int t = 0; t < 4 && (!ws.s[op.j] || ws.s[op.j].get() == ws.s[op.i].get()); ++t)
          op.j = (op.j + 1) % 4;
        if (ws.s[op.i] && ws.s[op.j] && ws.s[op.j]->id < ws.s[op.i]->id)
          std::swap(op.i, op.j);
      }
      if (op.kind == S_ADVANCE_COPY || op.kind == S_ADVANCE_MOVE || op.kind == S_ADVANCE_NULL)
        for (int t = 0; t < 4 && !(ws.s[op.i] && ws.s[op.i]->next) && (t > 0 || rd.chance(75)); ++t)
          op.i = (op.i + 1) % 4;
      if (op.kind == S_RING_BREAK && !ws.ring[op.k] && ws.ring[op.k ^ 1])
        op.k ^= 1;
      if (op.kind == S_RING_CLOSE && ws.ring[op.k] && !ws.ring[op.k ^ 1])
        op.k ^= 1;
      // open finding F17 (assignment releases the old object before it takes the new one): when it
      // is excluded, self-assignment and assignment from the own pointee's member are not generated
      if (vh::excluded("F17"))
      {
        if ((op.kind == S_MOVE_ASSIGN || op.kind == S_COPY_ASSIGN) && op.i == op.j)
        {
          op.j = (op.i + 1) % 4;
          vh::count_excluded("F17");
        }
        if (op.kind == S_ADVANCE_COPY || op.kind == S_ADVANCE_MOVE)
        {
          op.kind = S_UNLINK;
          vh::count_excluded("F17");
        }
        if (op.kind == S_RING_BREAK && (op.alt % 5 == 2 || op.alt % 5 == 4))
        {
          op.alt = 0;  // the assigned member is owned by the object the assignment releases
          vh::count_excluded("F17");
        }
      }
      bool src_owns = ws.s[op.j].get() != nullptr, dst_owns = ws.s[op.i].get() != nullptr;
      std::ostringstream d;
      d << kSNames[op.kind] << "(i=" << op.i << ",j=" << op.j << ",k=" << op.k << ",f=" << op.flag << ",a=" << op.alt << ")";
      c.note(d.str() + "\n");
      const bool second_base = (op.alt & 1) != 0;
      switch (op.kind)
      {
        case S_MAKE_DERIVED:
          c.tag(std::string(kSNames[op.kind]) + (second_base ? "-base-at-offset" : ""));
          break;
        case S_ADVANCE_NULL:
          if (dst_owns)
          {
            c.tag(std::string(kSNames[op.kind]) + (ws.owners_of(op.i) == 1 ? "-sole-owner" : "-shared") +
                  (ws.s[op.i]->next != nullptr ? "-has-next" : "-end-of-list"));
            c.nontrivial = true;
          }
          else
            c.tag(std::string(kSNames[op.kind]) + "-null");
          break;
        case S_RING_CLOSE:
          c.tag(ws.ring[op.k] ? "ring_close-not-applicable"
                              : (op.flag & 2) ? "ring_close-two-nodes-own-each-other" : "ring_close-node-owns-itself");
          break;
        case S_RING_BREAK:
        {
          static const char *const how[] = {"link-moved-out", "member=nullptr", "member=move(empty)", "member.swap(empty)",
                                            "member=move(new)"};
          int len = 0;
          if (ws.ring[op.k])
          {
            const Node<SPol> *n = ws.ring[op.k];
            do
            {
              ++len;
              n = n->next.get();
            } while (n && n != ws.ring[op.k] && len < 8);
          }
          else
            len = (op.flag & 2) ? 2 : 1;
          c.tag(std::string("ring_break-") + how[op.alt % 5] + (len == 1 ? "-self-owner" : "-cycle-of-2"));
          c.nontrivial = true;
          break;
        }
        case S_COPY_ASSIGN:
        case S_MOVE_ASSIGN:
        case S_SWAP:
        case S_COPY_CONSTRUCT:
        case S_MOVE_CONSTRUCT:
          if (op.i == op.j)
          {
            c.tag(std::string(kSNames[op.kind]) +
                  (dst_owns ? (ws.owners_of(op.i) == 1 ? "-self-sole-owner" : "-self-shared") : "-self-null"));
            c.nontrivial = c.nontrivial || dst_owns;
          }
          else
          {
            bool same = src_owns && ws.s[op.i].get() == ws.s[op.j].get();
            c.tag(std::string(kSNames[op.kind]) +
                  (same ? "-same-object" : src_owns ? (dst_owns ? "-both-own" : "-into-null") : (dst_owns ? "-null-over-owning" : "-both-null")));
            c.nontrivial = c.nontrivial || src_owns || dst_owns;
          }
          break;
        case S_ADVANCE_COPY:
        case S_ADVANCE_MOVE:
          if (dst_owns)
          {
            bool has_next = ws.s[op.i]->next != nullptr;
            c.tag(std::string(kSNames[op.kind]) + (ws.owners_of(op.i) == 1 ? "-sole-owner" : "-shared") +
                  (has_next ? "-has-next" : "-end-of-list"));
            c.nontrivial = true;
          }
          else
            c.tag(std::string(kSNames[op.kind]) + "-null");
          break;
        case S_CONVERT_DERIVED:
        {
          bool owning = second_base ? ws.e != nullptr : ws.d[op.k] != nullptr;
          c.tag(std::string(kSNames[op.kind]) + (second_base ? "-base-at-offset" : "") + (op.flag & 1 ? "-copy" : "-move") +
                (owning ? "-owning" : "-null"));
          c.nontrivial = c.nontrivial || owning;
          break;
        }
        case S_FROM_UNIQUE:
          c.tag(std::string(kSNames[op.kind]) + (op.flag & 1 ? "-std" : "-nostd") + (op.flag & 4 ? "-null" : ""));
          c.nontrivial = c.nontrivial || !(op.flag & 4);
          break;
        case S_LINK:
          c.tag(src_owns && dst_owns && ws.s[op.j]->id > ws.s[op.i]->id ? "link" : "link-not-applicable");
          break;
        case S_TO_CONST:
          if (second_base)
          {
            c.tag(ws.e ? "to_const-from-derived-base-at-offset-owning" : "to_const-from-derived-base-at-offset-null");
            c.nontrivial = c.nontrivial || ws.e != nullptr;
          }
          else
          {
            c.tag(dst_owns ? "to_const-owning" : "to_const-null");
            c.nontrivial = c.nontrivial || dst_owns;
          }
          break;
        default:
          c.tag(kSNames[op.kind]);
          break;
      }
      std::ostringstream on, os;
      wn.step(op, on);
      ws.step(op, os);
      wn.observe(on);
      ws.observe(os);
      VH_CHECK(c, on.str() == os.str(), "after step " << step << " " << d.str() << "\n  nostd: " << on.str()
                                                      << "\n  std:   " << os.str());
      VH_CHECK(c, g_reg[0].double_destroy == 0, "nostd side destroyed an object twice: " << g_reg[0].show());
    }
  }
  VH_CHECK(c, g_reg[0].live.empty() && g_reg[0].constructed == g_reg[0].destroyed && g_reg[0].double_destroy == 0,
           "nostd side at the end: " << g_reg[0].show() << " (std side: " << g_reg[1].show() << ")");
  VH_CHECK(c, g_reg[1].live.empty() && g_reg[1].constructed == g_reg[1].destroyed,
           "std side at the end (harness error): " << g_reg[1].show());
}

// ================================================================================================
// function_ref vs direct invocation of a twin callable
namespace
{
long fn_triple(int x)
{
  return 3L * x + 1;
}
long fn_neg(int x)
{
  return -static_cast<long>(x);
}
// convertible-but-different signatures for function_ref<long(int)>: the stored pointer goes through void* and
// must be called through its OWN type, with the argument / result conversions applied around the call
int fn_conv(long x)  // argument widened, result widened
{
  return static_cast<int>(x % 1000) * 2 - 7;
}
long fn_cref(const int &x)  // argument bound to a reference
{
  return 5L * x - 3;
}
long fn_noexcept(int x) noexcept  // noexcept is part of the function type
{
  return 11L - x;
}
short fn_short(short x)  // argument narrowed, result widened
{
  return static_cast<short>(x + 1);
}
struct Acc
{
  long acc;
  long operator()(int x)
  {
    acc = acc * 31 + x;
    return acc;
  }
};
struct CAcc
{
  long k;
  long operator()(int x) const { return k ^ x; }
};
using FR = nostd::function_ref<long(int)>;

long call_by_value(FR f, int x)  // how the API takes callbacks
{
  return f(x);
}
long call_copy_of(const FR &f, int x)
{
  FR g(f);
  FR h(std::move(g));
  return h(x);
}
// the shape of the API's ForEachKeyValue: stops when the callback returns false
size_t for_each_kv(const std::vector<std::pair<std::string, std::string>> &kv,
                   nostd::function_ref<bool(nostd::string_view, nostd::string_view)> cb)
{
  size_t calls = 0;
  for (auto &e : kv)
  {
    ++calls;
    if (!cb(e.first, e.second))
      break;
  }
  return calls;
}
}  // namespace

VH_TARGET(fref_ops, 2,
          "a program is non-trivial when a call goes through a copy of a reference, reaches a "
          "stateful callable that was already called before (state carried between calls), or reaches a "
          "function whose signature differs from the reference's (converted argument / result); distinct = "
          "distinct (seeds, operation sequence) text")
{
  vh::Reader &rd = c.rd;
  long seed_a = rd.range(-5, 5), seed_l = rd.range(-5, 5), kk = rd.range(0, 255);
  Acc fa{seed_a}, fa_twin{seed_a};
  CAcc ca{kk};  // (a const-qualified callable object cannot be bound: BindTo casts its address to void*)
  auto lam      = [acc = seed_l](int x) mutable -> int { acc = acc * 7 + x; return static_cast<int>(acc % 100000); };
  auto lam_twin = lam;
  long ext = 0, ext_twin = 0;
  auto rlam      = [&ext](int x) { ext += x; return ext * 2; };
  auto rlam_twin = [&ext_twin](int x) { ext_twin += x; return ext_twin * 2; };
  long (*fp)(int)     = rd.coin() ? fn_triple : fn_neg;
  long (*nullfp)(int) = nullptr;
  c.note("seeds " + std::to_string(seed_a) + "," + std::to_string(seed_l) + "," + std::to_string(kk) + "\n");

  // a function_ref of ANOTHER signature as the callable (named object: the outer reference stores its address)
  Acc fi{seed_a + 1}, fi_twin{seed_a + 1};
  auto inner_lam = [&fi](long v) { return static_cast<int>(fi(static_cast<int>(v)) % 1000); };
  nostd::function_ref<int(long)> inner_named(inner_lam);
  int (*fp_conv)(long) = fn_conv;
  // (a noexcept FUNCTION cannot be bound at all in C++17 - BindTo(F&) is chosen and does not compile - so only
  // the pointer form is offered)
  long (*fp_noexcept)(int) noexcept = fn_noexcept;
  enum
  {
    T_FN,
    T_FPTR,
    T_FUNCTOR,
    T_CONST_FUNCTOR,
    T_LAMBDA,
    T_REF_LAMBDA,
    T_FN_CONV,
    T_FPTR_CONV,
    T_FN_CREF,
    T_FN_NOEXCEPT,
    T_FN_SHORT,
    T_INNER_REF,
    T_N
  };
  static const char *const tn[] = {"function",       "fptr",          "functor",       "const-functor",
                                   "mutable-lambda", "ref-lambda",    "function-int(long)", "fptr-int(long)",
                                   "function-long(const-int&)", "fptr-noexcept", "function-short(short)",
                                   "function_ref<int(long)>"};
  int calls[T_N] = {};
  auto direct    = [&](int t, int x) -> long {
    switch (t)
    {
      case T_FN:
        return fn_triple(x);
      case T_FPTR:
        return fp(x);
      case T_FUNCTOR:
        return fa_twin(x);
      case T_CONST_FUNCTOR:
        return ca(x);
      case T_LAMBDA:
        return lam_twin(x);
      case T_REF_LAMBDA:
        return rlam_twin(x);
      case T_FN_CONV:
      case T_FPTR_CONV:
        return fn_conv(x);
      case T_FN_CREF:
        return fn_cref(x);
      case T_FN_NOEXCEPT:
        return fn_noexcept(x);
      case T_FN_SHORT:
        return fn_short(static_cast<short>(x));
      default:
        return static_cast<int>(fi_twin(x) % 1000);
    }
  };
  auto bind = [&](int t) -> FR {
    switch (t)
    {
      case T_FN:
        return FR(fn_triple);
      case T_FPTR:
        return FR(fp);
      case T_FUNCTOR:
        return FR(fa);
      case T_CONST_FUNCTOR:
        return FR(ca);
      case T_LAMBDA:
        return FR(lam);
      case T_REF_LAMBDA:
        return FR(rlam);
      case T_FN_CONV:
        return FR(fn_conv);
      case T_FPTR_CONV:
        return FR(fp_conv);
      case T_FN_CREF:
        return FR(fn_cref);
      case T_FN_NOEXCEPT:
        return FR(fp_noexcept);
      case T_FN_SHORT:
        return FR(fn_short);
      default:
        return FR(inner_named);
    }
  };
  struct Ref
  {
    FR f;
    int target;
    bool is_copy;
  };
  std::vector<Ref> refs;
  refs.reserve(64);
  for (int t = 0; t < T_N; ++t)
    refs.push_back(Ref{bind(t), t, false});

  VH_CHECK(c, !static_cast<bool>(FR(nullptr)), "function_ref(nullptr) converts to true");
  VH_CHECK(c, !static_cast<bool>(FR(nullfp)), "function_ref(null function pointer) converts to true");

  unsigned nops = 1 + rd.below(20);
  for (unsigned op = 0; op < nops && (op == 0 || !rd.exhausted()) && refs.size() < 60; ++op)
  {
    std::ostringstream d;
    size_t r = rd.below(static_cast<uint32_t>(refs.size()));
    switch (rd.weighted({10, 2, 5, 4, 2, 2, 3}))
    {
      case 6:
      {  // a copy is independent of the reference it was copied from: copy a NON-CONST LVALUE reference, then
         // re-bind the source object to another callable; the copy must still reach the original callable
        int t  = refs[r].target;
        int t2 = static_cast<int>(rd.below(T_N));
        // (function_ref is not assignable: the source object is destroyed and another reference is created
        // in the same storage)
        alignas(FR) unsigned char storage[sizeof(FR)];
        FR *src = new (storage) FR(refs[r].f);  // a non-const source object
        FR cp(*src);                             // copy construction from a non-const lvalue
        src->~FR();
        src = new (storage) FR(bind(t2));        // the storage now holds a reference to something else
        int x      = rd.range(-50, 50);
        long got   = cp(x);
        long want  = direct(t, x);
        d << "copy of lvalue ref" << r << "(" << tn[t] << "), source re-bound to " << tn[t2] << ", call copy(" << x << ")";
        c.tag("copy-outlives-rebinding-of-its-source");
        c.nontrivial = true;
        ++calls[t];
        VH_CHECK(c, got == want, d.str() << " returned " << got << ", direct invocation of the original callable " << want);
        src->~FR();
        break;
      }
      case 0:
      {  // call through a stored reference
        int x      = rd.range(-50, 50);
        int t      = refs[r].target;
        long got   = refs[r].f(x);
        long want  = direct(t, x);
        d << "call ref" << r << "(" << tn[t] << (refs[r].is_copy ? ",copy" : "") << ")(" << x << ")";
        c.tag(std::string("call-") + tn[t] + (refs[r].is_copy ? "-via-copy" : ""));
        if (refs[r].is_copy || ((t == T_FUNCTOR || t == T_LAMBDA || t == T_REF_LAMBDA || t == T_INNER_REF) && calls[t] > 0) ||
            (t >= T_FN_CONV && t <= T_FN_SHORT))
          c.nontrivial = true;
        ++calls[t];
        VH_CHECK(c, got == want, d.str() << " returned " << got << ", direct invocation " << want);
        VH_CHECK(c, static_cast<bool>(refs[r].f), "a bound function_ref converts to false");
        break;
      }
      case 1:
      {
        int t = static_cast<int>(rd.below(T_N));
        refs.push_back(Ref{bind(t), t, false});
        d << "bind " << tn[t];
        break;
      }
      case 2:
      {
        refs.push_back(Ref{FR(refs[r].f), refs[r].target, true});
        d << "copy ref" << r;
        break;
      }
      case 3:
      {  // by-value parameter / copy + move construction inside the callee
        int x     = rd.range(-50, 50);
        int t     = refs[r].target;
        bool deep = rd.coin();
        long got  = deep ? call_copy_of(refs[r].f, x) : call_by_value(refs[r].f, x);
        long want = direct(t, x);
        d << "pass ref" << r << "(" << tn[t] << ")(" << x << ")" << (deep ? " copy+move" : " by value");
        c.tag(std::string("pass-") + tn[t]);
        c.nontrivial = true;
        ++calls[t];
        VH_CHECK(c, got == want, d.str() << " returned " << got << ", direct invocation " << want);
        break;
      }
      case 4:
      {  // bound to a temporary for the duration of one call
        int x = rd.range(-50, 50), m = rd.range(1, 9);
        long got = call_by_value([m](int v) { return static_cast<long>(v) * m; }, x);
        d << "temporary lambda *" << m << " (" << x << ")";
        c.tag("call-temporary-lambda");
        VH_CHECK(c, got == static_cast<long>(x) * m, d.str() << " returned " << got);
        break;
      }
      default:
      {  // other signatures: reference, move-only and view arguments, early stop
        int a = rd.range(0, 20), inc = rd.range(1, 5);
        // (function_ref does not own: the callables are named objects that outlive the references)
        auto bump_fn = [inc](int &v) { v += inc; };
        nostd::function_ref<void(int &)> bump(bump_fn);
        int v = a;
        bump(v);
        VH_CHECK(c, v == a + inc, "function_ref<void(int&)>: argument not passed by reference (" << v << ")");
        auto take_fn = [](std::unique_ptr<int> p) { return p ? *p + 1 : -1; };
        nostd::function_ref<int(std::unique_ptr<int>)> take(take_fn);
        int got = take(std::unique_ptr<int>(new int(a)));
        VH_CHECK(c, got == a + 1, "function_ref<int(unique_ptr)>: returned " << got);
        auto joiner = [](const std::string &x, std::string y) { return x + "/" + y; };
        nostd::function_ref<std::string(const std::string &, std::string)> join(joiner);
        std::string js = join("k" + std::to_string(a), std::string(static_cast<size_t>(inc), 'v'));
        VH_CHECK(c, js == joiner("k" + std::to_string(a), std::string(static_cast<size_t>(inc), 'v')),
                 "function_ref<string(const string&,string)>: returned '" << js << "'");
        std::vector<std::pair<std::string, std::string>> kv;
        for (int q = 0; q < 4; ++q)
          kv.emplace_back("k" + std::to_string(q), std::string(1, static_cast<char>('a' + q)) + std::string(1, '\0') + "z");
        size_t limit = 1 + rd.below(5), count = 0;
        std::string seen;
        size_t n_calls = for_each_kv(kv, [&](nostd::string_view k, nostd::string_view val) {
          seen += std::string(k.data(), k.size()) + "=" + std::string(val.data(), val.size()) + ";";
          return ++count < limit;
        });
        std::string want;
        size_t want_calls = limit < 4 ? limit : 4;
        for (size_t q = 0; q < want_calls; ++q)
          want += kv[q].first + "=" + kv[q].second + ";";
        VH_CHECK(c, n_calls == want_calls && seen == want,
                 "function_ref<bool(string_view,string_view)>: " << n_calls << " calls saw '" << vh::show(seen)
                                                                  << "', expected " << want_calls << " calls '"
                                                                  << vh::show(want) << "'");
        d << "signatures(a=" << a << ",inc=" << inc << ")";
        c.tag("other-signatures");
        break;
      }
    }
    c.note(d.str() + "\n");
    // the referenced callables hold exactly the state of their directly invoked twins
    VH_CHECK(c, fa.acc == fa_twin.acc, "functor state after calls through function_ref " << fa.acc << ", direct "
                                                                                       << fa_twin.acc);
    VH_CHECK(c, ext == ext_twin, "captured-by-reference state after calls through function_ref " << ext << ", direct "
                                                                                               << ext_twin);
    VH_CHECK(c, fi.acc == fi_twin.acc, "state behind the inner function_ref<int(long)> " << fi.acc << ", direct " << fi_twin.acc);
  }
  // the mutable lambdas: same next value on both (the reference calls the original object, not a copy)
  VH_CHECK(c, lam(1) == lam_twin(1), "mutable lambda state differs from its directly invoked twin");
}

// ================================================================================================
// variant (absl-internal copy) vs std::variant
namespace
{
struct VReg
{
  int live       = 0;
  bool arm_copy  = false;  // the next copy construction / copy assignment of a Tracked throws
};
VReg g_vreg[2];

// instance counted alternative; construction from a negative value throws (the way to the
// valueless state); copying throws on demand; moving never throws
template <int Side>
struct Tracked
{
  int val;
  explicit Tracked(int v) : val(v)
  {
    if (v < 0)
      throw std::runtime_error("Tracked(negative)");
    ++g_vreg[Side].live;
  }
  Tracked(const Tracked &o) : val(o.val)
  {
    if (g_vreg[Side].arm_copy)
    {
      g_vreg[Side].arm_copy = false;
      throw std::runtime_error("Tracked copy");
    }
    ++g_vreg[Side].live;
  }
  Tracked(Tracked &&o) noexcept : val(o.val)
  {
    o.val = -7;
    ++g_vreg[Side].live;
  }
  Tracked &operator=(const Tracked &o)
  {
    if (g_vreg[Side].arm_copy)
    {
      g_vreg[Side].arm_copy = false;
      throw std::runtime_error("Tracked copy assignment");
    }
    val = o.val;
    return *this;
  }
  Tracked &operator=(Tracked &&o) noexcept
  {
    if (this != &o)
    {
      val   = o.val;
      o.val = -7;
    }
    return *this;
  }
  ~Tracked() { --g_vreg[Side].live; }
  friend bool operator==(const Tracked &a, const Tracked &b) { return a.val == b.val; }
  friend bool operator!=(const Tracked &a, const Tracked &b) { return a.val != b.val; }
  friend bool operator<(const Tracked &a, const Tracked &b) { return a.val < b.val; }
  friend bool operator>(const Tracked &a, const Tracked &b) { return a.val > b.val; }
  friend bool operator<=(const Tracked &a, const Tracked &b) { return a.val <= b.val; }
  friend bool operator>=(const Tracked &a, const Tracked &b) { return a.val >= b.val; }
};

std::string rs(const nostd::monostate &)
{
  return "mono";
}
std::string rs(const std::monostate &)
{
  return "mono";
}
std::string rs(const int &v)
{
  return "i:" + std::to_string(v);
}
std::string rs(const double &v)
{
  char b[48];
  snprintf(b, sizeof b, "d:%a", v);
  return b;
}
std::string rs(const std::string &s)
{
  return "s:" + vh::show(s);
}
template <int S>
std::string rs(const Tracked<S> &t)
{
  return "T:" + std::to_string(t.val);
}
// renderings for the 16-alternative worlds: the tag names the alternative TYPE, so a value stored in (or
// visited as) another arithmetic alternative shows even when the number is the same
std::string rs(const bool &v)
{
  return v ? "b:1" : "b:0";
}
std::string rs(const long &v)
{
  return "i64:" + std::to_string(v);
}
std::string rs(const unsigned &v)
{
  return "u32:" + std::to_string(v);
}
std::string rs(const unsigned long &v)
{
  return "u64:" + std::to_string(v);
}
std::string rs(const unsigned char &v)
{
  return "u8:" + std::to_string(static_cast<int>(v));
}
std::string rs(const char *const &v)
{
  return std::string("cstr:") + (v ? v : "(null)");
}
std::string rs(const std::string_view &v)
{
  return "sv:" + vh::show(std::string(v));
}
std::string rs(const nostd::string_view &v)
{
  return "nsv:" + vh::show(std::string(v.data(), v.size()));
}
template <class T>
std::string rs(const nostd::span<const T> &sp)
{
  std::string r = "span[" + std::to_string(sp.size()) + "]{";
  for (const T &x : sp)
    r += rs(x) + ",";
  return r + "}";
}
// comparable placeholder alternatives (never chosen by a conversion: the constructor is explicit)
template <int N>
struct Dm
{
  int v;
  explicit Dm(int x) : v(x) {}
  friend bool operator==(const Dm &a, const Dm &b) { return a.v == b.v; }
  friend bool operator!=(const Dm &a, const Dm &b) { return a.v != b.v; }
  friend bool operator<(const Dm &a, const Dm &b) { return a.v < b.v; }
  friend bool operator>(const Dm &a, const Dm &b) { return a.v > b.v; }
  friend bool operator<=(const Dm &a, const Dm &b) { return a.v <= b.v; }
  friend bool operator>=(const Dm &a, const Dm &b) { return a.v >= b.v; }
};
template <int N>
std::string rs(const Dm<N> &d)
{
  return "D" + std::to_string(N) + ":" + std::to_string(d.v);
}
// storage referenced by pointer / view / span alternatives: one copy, used by both sides (the pointers stored
// in the two variants are equal, so ordering comparisons of the const char* alternative agree by construction)
const char kPool[]                                  = "a\0bb\0ccc";  // C strings at offsets 0, 2, 5
const char kLit[4]                                  = "lit";
const size_t kPoolOff[]                             = {0, 2, 5, 5};
bool g_bools[2]                                     = {true, false};
const std::vector<int32_t> kVecI32                  = {1, -2, 3};
const std::vector<int64_t> kVecI64                  = {1L << 40, -5};
const std::vector<uint32_t> kVecU32                 = {7u};
const std::vector<double> kVecF64                   = {0.5, -1.5};
const std::vector<nostd::string_view> kVecSv        = {"x", "yz"};
const std::vector<uint64_t> kVecU64                 = {1UL << 63};
const std::vector<uint8_t> kVecU8                   = {0, 255, 7};
const std::string kStdString                        = std::string("st\0r", 4);

struct NApi
{
  static constexpr int side = 0;
  template <class... T>
  using variant    = nostd::variant<T...>;
  using monostate  = nostd::monostate;
  using bad_access = nostd::bad_variant_access;
  template <size_t I, class V>
  static decltype(auto) get(V &&v)
  {
    return nostd::get<I>(std::forward<V>(v));
  }
  template <class T, class V>
  static decltype(auto) get_t(V &&v)
  {
    return nostd::get<T>(std::forward<V>(v));
  }
  template <size_t I, class V>
  static auto get_if(V *v)
  {
    return nostd::get_if<I>(v);
  }
  template <class T, class V>
  static auto get_if_t(V *v)
  {
    return nostd::get_if<T>(v);
  }
  template <class T, class V>
  static bool holds(const V &v)
  {
    return nostd::holds_alternative<T>(v);
  }
  template <class F, class... V>
  static decltype(auto) visit(F &&f, V &&...v)
  {
    return nostd::visit(std::forward<F>(f), std::forward<V>(v)...);
  }
};
struct SApi
{
  static constexpr int side = 1;
  template <class... T>
  using variant    = std::variant<T...>;
  using monostate  = std::monostate;
  using bad_access = std::bad_variant_access;
  template <size_t I, class V>
  static decltype(auto) get(V &&v)
  {
    return std::get<I>(std::forward<V>(v));
  }
  template <class T, class V>
  static decltype(auto) get_t(V &&v)
  {
    return std::get<T>(std::forward<V>(v));
  }
  template <size_t I, class V>
  static auto get_if(V *v)
  {
    return std::get_if<I>(v);
  }
  template <class T, class V>
  static auto get_if_t(V *v)
  {
    return std::get_if<T>(v);
  }
  template <class T, class V>
  static bool holds(const V &v)
  {
    return std::holds_alternative<T>(v);
  }
  template <class F, class... V>
  static decltype(auto) visit(F &&f, V &&...v)
  {
    return std::visit(std::forward<F>(f), std::forward<V>(v)...);
  }
};

static_assert(nostd::variant_size<nostd::variant<int, char, double>>::value == 3, "variant_size");
static_assert(std::is_same<nostd::variant_alternative_t<1, nostd::variant<int, char, double>>, char>::value,
              "variant_alternative_t");

// a value to put into a variant: alternative 0 mono, 1 int, 2 string, 3 Tracked, 4 double
struct Val
{
  int alt = 0;
  int iv  = 0;
  double dv = 0;
  std::string sv;
  std::string show() const
  {
    switch (alt)
    {
      case 0:
        return "mono";
      case 1:
        return rs(iv);
      case 2:
        return rs(sv);
      case 3:
        return "T:" + std::to_string(iv);
      default:
        return rs(dv);
    }
  }
};

Val gen_val(vh::Reader &rd)
{
  Val v;
  v.alt = static_cast<int>(rd.weighted({2, 5, 5, 6, 3}));
  switch (v.alt)
  {
    case 1:
      v.iv = rd.range(-3, 3);
      break;
    case 2:
    {
      static const char *const pool[] = {"", "a", "b", "ab", "a\0b", "this string does not fit the small buffer....", "zz"};
      static const size_t lens[]      = {0, 1, 1, 2, 3, 45, 2};
      size_t k                        = rd.below(7);
      v.sv                            = std::string(pool[k], lens[k]);
      break;
    }
    case 3:
      v.iv = rd.chance(25) ? -1 : rd.range(0, 4);  // -1: the constructor throws
      break;
    case 4:
    {
      static const double dpool[] = {0.0, -0.0, 1.5, -2.25, std::numeric_limits<double>::infinity(),
                                     std::numeric_limits<double>::quiet_NaN(), 1e300};
      v.dv = dpool[rd.below(7)];
      break;
    }
    default:
      break;
  }
  return v;
}

enum VKind
{
  V_EMPLACE_INDEX,
  V_EMPLACE_TYPE,
  V_ASSIGN_VALUE,
  V_CONSTRUCT_VALUE,
  V_COPY_ASSIGN,
  V_MOVE_ASSIGN,
  V_COPY_CONSTRUCT,
  V_MOVE_CONSTRUCT,
  V_SWAP,
  V_MUTATE,
  V_GET,
  V_VISIT2,
  V_COMPARE,
  V_DUP_EMPLACE,
  V_C_PUT,
  V_C_GET,
  V_C_COMPARE,
  V_C_TRANSFER,
  V_VISIT_VB,
  V_VISIT_CB,
  V_A_PUT,
  V_NKINDS
};
const char *const kVNames[] = {"emplace_index", "emplace_type",  "assign_value", "construct_value", "copy_assign",
                               "move_assign",   "copy_construct", "move_construct", "swap",         "mutate",
                               "get",           "visit2",         "compare",      "dup_emplace",
                               "c_put",         "c_get",          "c_compare",    "c_transfer",      "visit_vb",
                               "visit_cb",      "a_put"};
static_assert(sizeof(kVNames) / sizeof(kVNames[0]) == V_NKINDS, "one name per variant operation");
// arguments of a converting construction / assignment into the 16-alternative variant C; only argument types
// for which the C++17 rule (plain overload resolution) and the P0608/P1957 rule select the same alternative
const char *const kCArg[] = {"bool",   "char",          "short",      "int",         "unsigned", "long", "unsigned-long",
                             "float",  "double",        "char-array", "const-char*", "string_view", "D7", "D8",
                             "D9",     "D10",           "D11",        "D12",         "D14",      "D15"};
constexpr int kNCArg      = 20;
const int kCArgOfIndex[]  = {0, 3, 5, 4, 8, 10, 11, 12, 13, 14, 15, 16, 17, 6, 18, 19};  // an argument kind per alternative
const size_t kCArgIndex[] = {0, 1, 1, 1, 3, 2, 13, 4, 4, 5, 5, 6, 7, 8, 9, 10, 11, 12, 14, 15};
// arguments for the mirror of the API's AttributeValue (span alternatives: containers convert)
const char *const kAArg[] = {"bool",          "int",           "long",          "unsigned",      "unsigned-long", "double",
                             "char-array",    "const-char*",   "nostd::string_view", "std::string", "span<bool>", "vector<int32>",
                             "vector<int64>", "vector<uint32>", "vector<double>", "vector<string_view>", "vector<uint64>",
                             "vector<uint8>", "span<const int32>", "float",      "short"};
constexpr int kNAArg      = 21;
const size_t kAArgIndex[] = {0, 1, 2, 3, 13, 4, 5, 5, 6, 6, 7, 8, 9, 10, 11, 12, 14, 15, 8, 4, 1};

struct VOp
{
  int kind = 0;
  int i = 0, j = 0;
  int flag = 0;
  int probe = 0;
  bool arm  = false;
  Val val;
  int ck = 0;  // late draws for the 16-alternative worlds: argument kind ...
  int cn = 0;  // ... and a small value
};

template <class A>
struct VWorld
{
  static constexpr int S = A::side;
  using T                = Tracked<S>;
  using Mono             = typename A::monostate;
  using V                = typename A::template variant<Mono, int, std::string, T, double>;
  using B                = typename A::template variant<int, std::string, int>;  // repeated type: index API only
  V v[3];
  B w[2];
  // the alternative list of the API's AttributeValue with the span alternatives replaced by comparable
  // placeholders: indices 5..15, several arithmetic candidates for every conversion
  using C = typename A::template variant<bool, int32_t, int64_t, uint32_t, double, const char *, std::string_view, Dm<7>,
                                          Dm<8>, Dm<9>, Dm<10>, Dm<11>, Dm<12>, uint64_t, Dm<14>, Dm<15>>;
  // exactly the alternative list of opentelemetry::common::AttributeValue (selection and visitation only:
  // spans are not comparable)
  using AV = typename A::template variant<bool, int32_t, int64_t, uint32_t, double, const char *, nostd::string_view,
                                           nostd::span<const bool>, nostd::span<const int32_t>, nostd::span<const int64_t>,
                                           nostd::span<const uint32_t>, nostd::span<const double>,
                                           nostd::span<const nostd::string_view>, uint64_t, nostd::span<const uint64_t>,
                                           nostd::span<const uint8_t>>;
  C cv[2];
  AV av;

  template <size_t I, class Arg>
  static void cput(C &dst, int how, Arg &&arg)
  {
    if (how == 0)
      dst = std::forward<Arg>(arg);  // converting assignment: the alternative is selected by overload resolution
    else if (how == 1)
      dst = C(std::forward<Arg>(arg));  // converting construction
    else
      dst.template emplace<I>(std::forward<Arg>(arg));
  }
  static void c_put(C &dst, int kind, int how, int n)
  {
    switch (kind)
    {
      case 0:
        cput<0>(dst, how, (n & 1) != 0);
        break;
      case 1:
        cput<1>(dst, how, static_cast<char>('a' + n));
        break;
      case 2:
        cput<1>(dst, how, static_cast<short>(n - 2));
        break;
      case 3:
        cput<1>(dst, how, n - 1);
        break;
      case 4:
        cput<3>(dst, how, static_cast<unsigned>(n));
        break;
      case 5:
        cput<2>(dst, how, static_cast<long>(n) - 1);
        break;
      case 6:
        cput<13>(dst, how, static_cast<unsigned long>(n));
        break;
      case 7:
        cput<4>(dst, how, 0.5f * static_cast<float>(n));
        break;
      case 8:
        cput<4>(dst, how, 0.25 * n);
        break;
      case 9:
        cput<5>(dst, how, kLit);  // an array of const char, like a string literal
        break;
      case 10:
        cput<5>(dst, how, static_cast<const char *>(kPool + kPoolOff[n & 3]));
        break;
      case 11:
        cput<6>(dst, how, std::string_view(kPool, static_cast<size_t>(1 + 2 * (n & 3))));
        break;
      case 12:
        cput<7>(dst, how, Dm<7>(n));
        break;
      case 13:
        cput<8>(dst, how, Dm<8>(n));
        break;
      case 14:
        cput<9>(dst, how, Dm<9>(n));
        break;
      case 15:
        cput<10>(dst, how, Dm<10>(n));
        break;
      case 16:
        cput<11>(dst, how, Dm<11>(n));
        break;
      case 17:
        cput<12>(dst, how, Dm<12>(n));
        break;
      case 18:
        cput<14>(dst, how, Dm<14>(n));
        break;
      default:
        cput<15>(dst, how, Dm<15>(n));
        break;
    }
  }
  template <class Arg>
  static void aput(AV &dst, int how, Arg &&arg)
  {
    if (how & 1)
      dst = AV(std::forward<Arg>(arg));
    else
      dst = std::forward<Arg>(arg);
  }
  static void a_put(AV &dst, int kind, int how, int n)
  {
    switch (kind)
    {
      case 0:
        aput(dst, how, (n & 1) != 0);
        break;
      case 1:
        aput(dst, how, n - 1);
        break;
      case 2:
        aput(dst, how, static_cast<long>(n) - 1);
        break;
      case 3:
        aput(dst, how, static_cast<unsigned>(n));
        break;
      case 4:
        aput(dst, how, static_cast<unsigned long>(n));
        break;
      case 5:
        aput(dst, how, 0.25 * n);
        break;
      case 6:
        aput(dst, how, kLit);
        break;
      case 7:
        aput(dst, how, static_cast<const char *>(kPool + kPoolOff[n & 3]));
        break;
      case 8:
        aput(dst, how, nostd::string_view(kPool, static_cast<size_t>(1 + 2 * (n & 3))));
        break;
      case 9:
        aput(dst, how, kStdString);
        break;
      case 10:
        aput(dst, how, nostd::span<bool>(g_bools, static_cast<size_t>(n & 1) + 1));
        break;
      case 11:
        aput(dst, how, kVecI32);
        break;
      case 12:
        aput(dst, how, kVecI64);
        break;
      case 13:
        aput(dst, how, kVecU32);
        break;
      case 14:
        aput(dst, how, kVecF64);
        break;
      case 15:
        aput(dst, how, kVecSv);
        break;
      case 16:
        aput(dst, how, kVecU64);
        break;
      case 17:
        aput(dst, how, kVecU8);
        break;
      case 18:
        aput(dst, how, nostd::span<const int32_t>(kVecI32.data(), static_cast<size_t>(n) % 4));
        break;
      case 19:
        aput(dst, how, 0.5f * static_cast<float>(n));
        break;
      default:
        aput(dst, how, static_cast<short>(n - 2));
        break;
    }
  }
  template <size_t I>
  static void probe_cget(C &x, std::ostream &o)
  {
    try
    {
      o << "get<" << I << ">=" << rs(A::template get<I>(x));
    }
    catch (const typename A::bad_access &)
    {
      o << "get<" << I << ">=bad_access";
    }
    const C &cx = x;
    using Alt   = std::remove_reference_t<decltype(A::template get<I>(x))>;
    try
    {
      o << " get<T>=" << rs(A::template get_t<Alt>(cx));
    }
    catch (const typename A::bad_access &)
    {
      o << " get<T>=bad_access";
    }
    auto *p = A::template get_if<I>(&x);
    auto *q = A::template get_if_t<Alt>(&cx);
    o << " get_if=" << (p ? rs(*p) : "null") << "/" << (q ? rs(*q) : "null") << " holds=" << A::template holds<Alt>(cx);
  }
  template <size_t... I>
  static void probe_cget_n(C &x, size_t n, std::ostream &o, std::index_sequence<I...>)
  {
    (void)std::initializer_list<int>{(n == I ? (probe_cget<I>(x, o), 0) : 0)...};
  }

  template <size_t I>
  static void probe_get(V &x, std::ostream &o)
  {
    try
    {
      o << "get<" << I << ">=" << rs(A::template get<I>(x));
    }
    catch (const typename A::bad_access &)
    {
      o << "get<" << I << ">=bad_access";
    }
    const V &cx = x;
    try
    {
      o << " const=" << rs(A::template get<I>(cx));
    }
    catch (const typename A::bad_access &)
    {
      o << " const=bad_access";
    }
    using Alt = std::remove_reference_t<decltype(A::template get<I>(x))>;
    try
    {
      o << " get<T>=" << rs(A::template get_t<Alt>(x));
    }
    catch (const typename A::bad_access &)
    {
      o << " get<T>=bad_access";
    }
    auto *p = A::template get_if<I>(&x);
    auto *q = A::template get_if_t<Alt>(&cx);
    o << " get_if=" << (p ? rs(*p) : "null") << "/" << (q ? rs(*q) : "null");
    o << " get_if(nullptr)=" << (A::template get_if<I>(static_cast<V *>(nullptr)) == nullptr);
  }

  void put(V &dst, const Val &val, int how)
  {
    // how: 0 emplace<I>, 1 emplace<T>, 2 converting assignment, 3 converting construction
    switch (val.alt)
    {
      case 0:
        if (how == 0)
          dst.template emplace<0>();
        else if (how == 1)
          dst.template emplace<Mono>();
        else if (how == 2)
          dst = Mono{};
        else
          dst = V(Mono{});
        break;
      case 1:
        if (how == 0)
          dst.template emplace<1>(val.iv);
        else if (how == 1)
          dst.template emplace<int>(val.iv);
        else if (how == 2)
        {
          if (val.iv == 3)
            dst = static_cast<char>(val.iv);  // char -> int under both selection rules
          else
            dst = val.iv;
        }
        else
          dst = V(val.iv);
        break;
      case 2:
        if (how == 0)
          dst.template emplace<2>(val.sv);
        else if (how == 1)
          dst.template emplace<std::string>(val.sv.data(), val.sv.size());
        else if (how == 2)
        {
          if (val.sv.find('\0') == std::string::npos && (val.sv.size() & 1))
            dst = val.sv.c_str();  // const char* -> std::string, the only candidate
          else
            dst = val.sv;
        }
        else
          dst = V(val.sv);
        break;
      case 3:
        if (how == 0)
          dst.template emplace<3>(val.iv);
        else if (how == 1)
          dst.template emplace<T>(val.iv);
        else if (how == 2)
        {
          if (val.iv & 1)
          {
            // converting assignment from an LVALUE: the variant itself copy-constructs the alternative, which may
            // throw (arm_copy).  The alternative moves without throwing, so a temporary is built first and the old
            // value survives a throwing copy - as with std::variant (seeded C20-m9 destroyed the old value first)
            T tmp(val.iv);
            dst = tmp;
          }
          else
            dst = T(val.iv);
        }
        else
          dst = V(T(val.iv));
        break;
      default:
        if (how == 0)
          dst.template emplace<4>(val.dv);
        else if (how == 1)
          dst.template emplace<double>(val.dv);
        else if (how == 2)
        {
          if (val.dv == 1.5)
            dst = 1.5f;  // float -> double under both selection rules
          else
            dst = val.dv;
        }
        else
          dst = V(val.dv);
        break;
    }
  }

  void step(const VOp &op, std::ostream &o)
  {
    g_vreg[S].arm_copy = op.arm;
    try
    {
      switch (op.kind)
      {
        case V_EMPLACE_INDEX:
          put(v[op.i], op.val, 0);
          break;
        case V_EMPLACE_TYPE:
          put(v[op.i], op.val, 1);
          break;
        case V_ASSIGN_VALUE:
          put(v[op.i], op.val, 2);
          break;
        case V_CONSTRUCT_VALUE:
          put(v[op.i], op.val, 3);
          break;
        case V_COPY_ASSIGN:
        {
          const V &src = v[op.j];  // may be the destination itself
          v[op.i]      = src;
          break;
        }
        case V_MOVE_ASSIGN:  // i != j
          v[op.i] = std::move(v[op.j]);
          o << "src-index-after-move=" << static_cast<long>(v[op.j].index()) << " ";
          if (v[op.j].index() == 2)
            v[op.j].template emplace<2>("moved-from");  // a moved-from string has an unspecified value
          break;
        case V_COPY_CONSTRUCT:
        {
          V t(v[op.j]);
          o << "copy-equal=" << (t == v[op.j]) << " ";
          v[op.i] = std::move(t);
          break;
        }
        case V_MOVE_CONSTRUCT:
        {
          V t(std::move(v[op.j]));
          o << "src-index-after-move=" << static_cast<long>(v[op.j].index()) << " ";
          if (op.i != op.j && v[op.j].index() == 2)
            v[op.j].template emplace<2>("moved-from");
          v[op.i] = std::move(t);
          break;
        }
        case V_SWAP:
          if (S == 1 && v[op.i].valueless_by_exception() != v[op.j].valueless_by_exception())
          {
            // reference side only: libstdc++ 12's variant::swap leaves BOTH operands holding the value
            // when exactly one is valueless (its recursive call never resets the source), contrary to
            // [variant.swap] "exchanges the values"; the exchange is spelled out with three moves here
            V t(std::move(v[op.i]));
            v[op.i] = std::move(v[op.j]);
            v[op.j] = std::move(t);
          }
          else if (op.flag & 1)
          {
            using std::swap;
            swap(v[op.i], v[op.j]);
          }
          else
            v[op.i].swap(v[op.j]);
          break;
        case V_MUTATE:
          if (!v[op.i].valueless_by_exception())
          {
            struct Mut
            {
              void operator()(Mono &) const {}
              void operator()(int &x) const { x += 1; }
              void operator()(std::string &x) const { x += "+"; }
              void operator()(T &x) const { x.val += 10; }
              void operator()(double &x) const { x = -x; }
            };
            A::visit(Mut{}, v[op.i]);
          }
          break;
        case V_GET:
          switch (op.probe)
          {
            case 0:
              probe_get<0>(v[op.i], o);
              break;
            case 1:
              probe_get<1>(v[op.i], o);
              break;
            case 2:
              probe_get<2>(v[op.i], o);
              break;
            case 3:
              probe_get<3>(v[op.i], o);
              break;
            default:
              probe_get<4>(v[op.i], o);
              break;
          }
          o << " ";
          break;
        case V_VISIT2:
          try
          {
            o << "visit2=" << A::visit([](const auto &a, const auto &b) { return rs(a) + "&" + rs(b); }, v[op.i], v[op.j])
              << " ";
          }
          catch (const typename A::bad_access &)
          {
            o << "visit2=bad_access ";
          }
          break;
        case V_COMPARE:
        {
          const V &a = v[op.i], &b = v[op.j];
          o << "cmp=" << (a == b) << (a != b) << (a < b) << (a > b) << (a <= b) << (a >= b) << " ";
          break;
        }
        case V_DUP_EMPLACE:
        {
          B &x = w[op.i & 1];
          if (op.probe % 3 == 0)
            x.template emplace<0>(op.val.iv);
          else if (op.probe % 3 == 1)
            x.template emplace<1>(op.val.sv);
          else
            x.template emplace<2>(op.val.iv);
          if (op.flag & 2)
            w[(op.i & 1) ^ 1] = x;  // an equal variant elsewhere (copy assignment of the repeated-type variant)
          break;
        }
        case V_C_PUT:
          c_put(cv[op.i & 1], op.ck % kNCArg, op.flag % 3, op.cn);
          break;
        case V_C_GET:
          probe_cget_n(cv[op.i & 1], static_cast<size_t>(op.probe), o, std::make_index_sequence<16>());
          o << " ";
          break;
        case V_C_COMPARE:
        {
          if (op.flag & 2)  // first give the other variant the same alternative (value cn): same-index comparison
            c_put(cv[1], kCArgOfIndex[cv[0].index()], 2, op.cn);
          const C &a = cv[0], &b = cv[1];
          o << "ccmp=" << (a == b) << (a != b) << (a < b) << (a > b) << (a <= b) << (a >= b) << (b < a) << " ";
          break;
        }
        case V_C_TRANSFER:
        {
          C &dst = cv[op.i & 1], &src = cv[(op.i & 1) ^ 1];
          switch (op.flag)
          {
            case 0:
              dst = src;
              break;
            case 1:
            {
              C t(src);
              dst = std::move(t);
              break;
            }
            case 2:
              dst.swap(src);
              break;
            default:
            {
              C t(std::move(src));  // (every alternative is trivially movable: the source keeps its value)
              dst = t;
              break;
            }
          }
          break;
        }
        case V_VISIT_VB:  // two variants, 6 x 4 index combinations
          try
          {
            o << "visit_vb=" << A::visit([](const auto &a, const auto &b) { return rs(a) + "&" + rs(b); }, v[op.i], w[op.j & 1])
              << " ";
          }
          catch (const typename A::bad_access &)
          {
            o << "visit_vb=bad_access ";
          }
          break;
        case V_VISIT_CB:  // 17 x 4 index combinations
          o << "visit_cb=" << A::visit([](const auto &a, const auto &b) { return rs(a) + "&" + rs(b); }, cv[op.i & 1], w[op.j & 1])
            << " ";
          break;
        case V_A_PUT:
          a_put(av, op.ck % kNAArg, op.flag, op.cn);
          break;
      }
    }
    catch (const std::runtime_error &e)
    {
      o << "threw(" << e.what() << ") ";
    }
    g_vreg[S].arm_copy = false;
  }

  void observe(std::ostream &o) const
  {
    for (int i = 0; i < 3; ++i)
    {
      const V &x = v[i];
      o << "v" << i << "=#" << static_cast<long>(x.index()) << (x.valueless_by_exception() ? "!" : "") << ":";
      try
      {
        o << A::visit([](const auto &a) { return rs(a); }, x);
      }
      catch (const typename A::bad_access &)
      {
        o << "bad_access";
      }
      o << "[" << A::template holds<Mono>(x) << A::template holds<int>(x) << A::template holds<std::string>(x)
        << A::template holds<T>(x) << A::template holds<double>(x) << "] ";
    }
    for (int i = 0; i < 2; ++i)
    {
      const B &x = w[i];
      o << "w" << i << "=#" << x.index() << ":";
      if (x.index() == 0)
        o << A::template get<0>(x);
      else if (x.index() == 1)
        o << vh::show(A::template get<1>(x));
      else
        o << A::template get<2>(x);
      o << "[" << (A::template get_if<0>(&x) != nullptr) << (A::template get_if<1>(&x) != nullptr)
        << (A::template get_if<2>(&x) != nullptr) << "] ";
    }
    o << "w0?w1=" << (w[0] == w[1]) << (w[0] != w[1]) << (w[0] < w[1]) << (w[0] >= w[1]);
    for (int i = 0; i < 2; ++i)
    {
      const C &x = cv[i];
      o << " c" << i << "=#" << x.index() << ":" << A::visit([](const auto &a) { return rs(a); }, x) << "["
        << A::template holds<bool>(x) << A::template holds<int32_t>(x) << A::template holds<int64_t>(x)
        << A::template holds<uint32_t>(x) << A::template holds<double>(x) << A::template holds<const char *>(x)
        << A::template holds<std::string_view>(x) << A::template holds<uint64_t>(x) << A::template holds<Dm<7>>(x)
        << A::template holds<Dm<12>>(x) << A::template holds<Dm<15>>(x) << "]";
    }
    o << " av=#" << av.index() << ":" << A::visit([](const auto &a) { return rs(a); }, av);
    o << " liveT=" << g_vreg[S].live;
  }
};
}  // namespace

VH_TARGET(var_ops, 3,
          "a program is non-trivial when it changes the active alternative of a variant that holds a "
          "non-trivial alternative (string / instance-counted), reaches or uses the valueless state, "
          "or compares / visits two variants holding the same alternative; distinct = distinct "
          "operation sequence text")
{
  vh::Reader &rd = c.rd;
  g_vreg[0] = VReg();
  g_vreg[1] = VReg();
  {
    VWorld<NApi> wn;
    VWorld<SApi> ws;
    // start from three different alternatives
    {
      Val a, b, t;
      a.alt = 1, a.iv = rd.range(0, 2);
      b.alt = 2, b.sv = rd.coin() ? "ab" : "this string does not fit the small buffer....";
      t.alt = 3, t.iv = rd.range(0, 2);
      wn.put(wn.v[0], a, 0), ws.put(ws.v[0], a, 0);
      wn.put(wn.v[1], b, 0), ws.put(ws.v[1], b, 0);
      wn.put(wn.v[2], t, 0), ws.put(ws.v[2], t, 0);
      c.note("start " + a.show() + " " + b.show() + " " + t.show() + "\n");
      // the 16-alternative variants start on alternatives derived from the same draws (no extra bytes): the
      // first operation already meets an active index >= 5 in most cases
      static const int kStart[9] = {0, 6, 10, 11, 12, 15, 19, 5, 8};
      int k0 = kStart[(a.iv * 3 + t.iv) % 9], k1 = kStart[(t.iv * 3 + a.iv + 4) % 9];
      VWorld<NApi>::c_put(wn.cv[0], k0, 2, a.iv), VWorld<SApi>::c_put(ws.cv[0], k0, 2, a.iv);
      VWorld<NApi>::c_put(wn.cv[1], k1, 2, t.iv), VWorld<SApi>::c_put(ws.cv[1], k1, 2, t.iv);
      VWorld<NApi>::a_put(wn.av, 10 + a.iv + 3 * t.iv, 1, a.iv), VWorld<SApi>::a_put(ws.av, 10 + a.iv + 3 * t.iv, 1, a.iv);
    }
    unsigned nops = 1 + rd.below(24);
    for (unsigned step = 0; step < nops && (step == 0 || !rd.exhausted()); ++step)
    {
      VOp op;
      op.kind  = static_cast<int>(rd.weighted({10, 6, 8, 4, 8, 6, 4, 4, 6, 4, 8, 6, 10, 3, 14, 5, 5, 3, 4, 3, 8}));
      op.i     = static_cast<int>(rd.below(3));
      op.j     = static_cast<int>(rd.below(3));
      op.flag  = static_cast<int>(rd.below(4));
      op.probe = static_cast<int>(rd.below(5));
      op.val   = gen_val(rd);
      if (op.kind >= V_C_PUT)
      {
        op.ck = static_cast<int>(rd.below(kNCArg * kNAArg));
        op.cn = static_cast<int>(rd.below(4));
      }
      if ((op.kind == V_EMPLACE_INDEX || op.kind == V_EMPLACE_TYPE) && rd.chance(15))
      {
        op.val.alt = 3;  // the throwing construction: the way into the valueless state
        op.val.iv  = -1;
      }
      // a valueless variant, once reached, is usually one of the operands of what follows
      for (int q = 0; q < 3; ++q)
        if (ws.v[q].valueless_by_exception() && rd.chance(45))
        {
          if (op.kind == V_GET || op.kind == V_MUTATE || rd.coin())
            op.i = q;
          else
            op.j = q;
          break;
        }
      if (op.kind >= V_C_PUT && op.kind != V_VISIT_VB)
      {
        op.i &= 1;
        if (op.kind == V_C_GET)  // the active alternative or any of the 16
          op.probe = (op.flag & 1) ? static_cast<int>(ws.cv[op.i].index()) : op.ck % 16;
      }
      if (op.kind == V_MOVE_ASSIGN && op.i == op.j)
        op.j = (op.i + 1) % 3;  // self-move of the contained value is unspecified for library types
      if (op.kind == V_DUP_EMPLACE && op.val.alt != 1 && op.val.alt != 2)
      {
        op.val.alt = 1;
        op.val.iv  = op.flag;
      }
      if (op.kind == V_DUP_EMPLACE)
        op.probe = op.val.alt == 2 ? 1 : (op.flag & 1 ? 0 : 2);
      if (op.kind == V_GET && rd.chance(50) && !ws.v[op.i].valueless_by_exception())
        op.probe = static_cast<int>(ws.v[op.i].index());
      op.arm = (op.kind == V_COPY_ASSIGN || op.kind == V_COPY_CONSTRUCT) && ws.v[op.j].index() == 3 && rd.chance(25);
      if (op.kind == V_ASSIGN_VALUE && op.val.alt == 3 && op.val.iv >= 0 && (op.val.iv & 1) && rd.chance(50))
        op.arm = true;  // the copy made inside the converting assignment throws
      const auto &si = ws.v[op.i], &sj = ws.v[op.j];  // the std side is the reference for the tags
      bool i_heavy = si.index() == 2 || si.index() == 3;
      std::ostringstream d;
      d << kVNames[op.kind] << "(i=" << op.i << ",j=" << op.j << ",f=" << op.flag << ",p=" << op.probe
        << (op.arm ? ",copy-throws" : "") << "," << op.val.show();
      if (op.kind == V_C_PUT)
        d << "," << kCArg[op.ck % kNCArg] << ":" << op.cn;
      if (op.kind == V_A_PUT)
        d << "," << kAArg[op.ck % kNAArg] << ":" << op.cn;
      d << ")";
      c.note(d.str() + "\n");
      bool throws = op.val.alt == 3 && op.val.iv < 0;
      switch (op.kind)
      {
        case V_EMPLACE_INDEX:
        case V_EMPLACE_TYPE:
        case V_ASSIGN_VALUE:
        case V_CONSTRUCT_VALUE:
          if (throws)
          {
            c.tag(std::string(kVNames[op.kind]) + "-throws");
            c.nontrivial = true;
          }
          else
          {
            bool same = static_cast<size_t>(op.val.alt) == si.index();
            c.tag(std::string(kVNames[op.kind]) + (si.valueless_by_exception() ? "-into-valueless" : same ? "-same-alt" : "-other-alt"));
            c.nontrivial = c.nontrivial || (!same && i_heavy) || si.valueless_by_exception();
          }
          break;
        case V_COPY_ASSIGN:
        case V_MOVE_ASSIGN:
        case V_COPY_CONSTRUCT:
        case V_MOVE_CONSTRUCT:
        case V_SWAP:
        {
          std::string t = kVNames[op.kind];
          if (op.i == op.j)
            t += "-self";
          else if (si.valueless_by_exception() || sj.valueless_by_exception())
            t += si.valueless_by_exception() && sj.valueless_by_exception() ? "-both-valueless" : "-one-valueless";
          else
            t += si.index() == sj.index() ? "-same-alt" : "-other-alt";
          if (op.arm)
            t += "-copy-throws";
          c.tag(t);
          c.nontrivial = c.nontrivial || i_heavy || sj.index() == 2 || sj.index() == 3 || si.valueless_by_exception() ||
                         sj.valueless_by_exception();
          break;
        }
        case V_GET:
          c.tag(si.valueless_by_exception() ? "get-valueless" : (static_cast<size_t>(op.probe) == si.index() ? "get-active" : "get-inactive"));
          c.nontrivial = c.nontrivial || si.valueless_by_exception();
          break;
        case V_VISIT2:
        case V_COMPARE:
        {
          std::string t = kVNames[op.kind];
          if (si.valueless_by_exception() || sj.valueless_by_exception())
            t += "-valueless";
          else if (si.index() == sj.index())
            t += si == sj ? "-same-alt-equal" : "-same-alt-differ";
          else
            t += "-other-alt";
          if ((si.index() == 4 && std::get<4>(si) != std::get<4>(si)) || (sj.index() == 4 && std::get<4>(sj) != std::get<4>(sj)))
            t += "-nan";
          c.tag(t);
          c.nontrivial = c.nontrivial || si.valueless_by_exception() || sj.valueless_by_exception() || si.index() == sj.index();
          break;
        }
        case V_MUTATE:
          c.tag(si.valueless_by_exception() ? "mutate-valueless-skipped" : "mutate");
          break;
        case V_C_PUT:
        {
          static const char *const how[] = {"-converting-assignment", "-converting-construction", "-emplace<I>"};
          c.tag(std::string("c_put-") + kCArg[op.ck % kNCArg]);
          c.tag(std::string("c_put") + how[op.flag % 3] + (kCArgIndex[op.ck % kNCArg] >= 5 ? "-index>=5" : "-index<5"));
          c.nontrivial = c.nontrivial || op.flag % 3 != 2 || kCArgIndex[op.ck % kNCArg] >= 5;
          break;
        }
        case V_C_GET:
        {
          size_t act = ws.cv[op.i].index();
          c.tag(std::string("c_get-") + (static_cast<size_t>(op.probe) == act ? "active" : "inactive") +
                (act >= 5 ? "-active-index>=5" : "-active-index<5"));
          c.nontrivial = c.nontrivial || act >= 5;
          break;
        }
        case V_C_COMPARE:
        {
          size_t a = ws.cv[0].index(), b = (op.flag & 2) ? a : ws.cv[1].index();
          c.tag(std::string("c_compare") + (a == b ? "-same-alt" : "-other-alt") + (a >= 5 || b >= 5 ? "-index>=5" : "-index<5"));
          c.nontrivial = c.nontrivial || a == b || a >= 5 || b >= 5;
          break;
        }
        case V_C_TRANSFER:
        {
          static const char *const how[] = {"copy-assign", "copy-construct", "swap", "move-construct"};
          size_t a = ws.cv[op.i].index(), b = ws.cv[op.i ^ 1].index();
          c.tag(std::string("c_transfer-") + how[op.flag] + (a == b ? "-same-alt" : "-other-alt") +
                (a >= 5 || b >= 5 ? "-index>=5" : "-index<5"));
          c.nontrivial = c.nontrivial || a >= 5 || b >= 5;
          break;
        }
        case V_VISIT_VB:
        {
          size_t flat = si.valueless_by_exception() ? 99 : si.index() * 3 + ws.w[op.j & 1].index();
          c.tag(si.valueless_by_exception() ? "visit_vb-valueless" : flat >= 5 ? "visit_vb-pair-index>=5" : "visit_vb-pair-index<5");
          c.nontrivial = true;
          break;
        }
        case V_VISIT_CB:
          c.tag(ws.cv[op.i].index() >= 5 ? "visit_cb-index>=5" : "visit_cb-index<5");
          c.nontrivial = true;
          break;
        case V_A_PUT:
          c.tag(std::string("a_put-") + kAArg[op.ck % kNAArg] + ((op.flag & 1) ? "-construction" : "-assignment"));
          c.nontrivial = c.nontrivial || kAArgIndex[op.ck % kNAArg] >= 5;
          break;
        default:
          c.tag(kVNames[op.kind]);
          break;
      }
      std::ostringstream on, os;
      wn.step(op, on);
      ws.step(op, os);
      wn.observe(on);
      ws.observe(os);
      VH_CHECK(c, on.str() == os.str(), "after step " << step << " " << d.str() << "\n  nostd: " << on.str()
                                                      << "\n  std:   " << os.str());
      // the reference selects the alternative the tables above name (a disagreement is a harness error: the
      // argument list would no longer be one both selection rules agree on)
      if (op.kind == V_C_PUT)
        VH_CHECK(c, ws.cv[op.i].index() == kCArgIndex[op.ck % kNCArg],
                 "std side (harness error): " << d.str() << " selected alternative " << ws.cv[op.i].index());
      if (op.kind == V_A_PUT)
        VH_CHECK(c, ws.av.index() == kAArgIndex[op.ck % kNAArg],
                 "std side (harness error): " << d.str() << " selected alternative " << ws.av.index());
      // hashing consistent with equality (nostd side; the hash values themselves are not compared)
      {
        using NB = VWorld<NApi>::B;
        std::hash<NB> H;
        NB copy(wn.w[0]);
        VH_CHECK(c, H(copy) == H(wn.w[0]), "a copy of a variant hashes differently");
        if (wn.w[0] == wn.w[1])
        {
          VH_CHECK(c, H(wn.w[0]) == H(wn.w[1]), "equal variants hash differently");
          if (op.kind == V_DUP_EMPLACE)
            c.tag("hash-equal-variants");
        }
      }
      if (ws.v[0].valueless_by_exception() || ws.v[1].valueless_by_exception() || ws.v[2].valueless_by_exception())
        c.tag("state-has-valueless");
    }
  }
  VH_CHECK(c, g_vreg[0].live == 0, "nostd side: " << g_vreg[0].live << " instance(s) of the counted alternative alive at the end");
  VH_CHECK(c, g_vreg[1].live == 0, "std side (harness error): " << g_vreg[1].live << " instance(s) alive at the end");
}

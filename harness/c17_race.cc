// C17 (engine E-THR): RemoveCallback / instrument destruction racing a collection (obs_remove_race);
// collections of two or three readers running concurrently (obs_concurrent_collect, see there).
// "A removed callback (or one whose instrument was destroyed) is never invoked again" must also hold
// when the removal happens on another thread while a reader collects: a flag is set AFTER
// RemoveCallback / the instrument's destruction has returned, and the callback reports a violation
// if it ever runs with the flag set.  Real threads, brute force over rounds; ASan and TSan builds.
#include <atomic>
#include <chrono>
#include <cstdint>
#include <map>
#include <memory>
#include <string>
#include <thread>
#include <vector>

#include "opentelemetry/metrics/async_instruments.h"
#include "opentelemetry/metrics/meter.h"
#include "opentelemetry/metrics/observer_result.h"
#include "opentelemetry/sdk/metrics/data/metric_data.h"
#include "opentelemetry/sdk/metrics/data/point_data.h"
#include "opentelemetry/sdk/metrics/export/metric_producer.h"
#include "opentelemetry/sdk/metrics/meter_provider.h"
#include "opentelemetry/sdk/metrics/metric_reader.h"
#include "vh.h"

const char *vh_property_id = "C17";

namespace
{
namespace otel = opentelemetry;
namespace sdkm = opentelemetry::sdk::metrics;
namespace apim = opentelemetry::metrics;

class RaceReader final : public sdkm::MetricReader
{
public:
  sdkm::AggregationTemporality GetAggregationTemporality(sdkm::InstrumentType) const noexcept override
  {
    return sdkm::AggregationTemporality::kCumulative;
  }

private:
  bool OnForceFlush(std::chrono::microseconds) noexcept override { return true; }
  bool OnShutDown(std::chrono::microseconds) noexcept override { return true; }
};

struct CbState
{
  std::atomic<bool> removed{false};
  std::atomic<int> calls{0};
  std::atomic<int> calls_after_removal{0};
  int64_t value = 1;
};

void callback(apim::ObserverResult result, void *state)
{
  auto *s = static_cast<CbState *>(state);
  if (s->removed.load())
    s->calls_after_removal++;
  s->calls++;
  if (otel::nostd::holds_alternative<otel::nostd::shared_ptr<apim::ObserverResultT<int64_t>>>(result))
    otel::nostd::get<otel::nostd::shared_ptr<apim::ObserverResultT<int64_t>>>(result)->Observe(s->value);
}
}  // namespace

VH_TARGET(obs_remove_race, 2,
          "a collector thread races RemoveCallback / instrument destruction on another thread; non-trivial "
          "when some callback was invoked at least once before its removal in some round (the collection "
          "and the removal really overlapped in time); distinct = distinct configuration text")
{
  vh::Reader &rd  = c.rd;
  unsigned ncb    = 1 + rd.below(3);
  bool destroy    = rd.coin();
  unsigned rounds = 10 + rd.below(20);
  unsigned spin   = rd.below(200);
  c.note("callbacks=" + std::to_string(ncb) + (destroy ? " destroy-instrument" : " remove-callbacks") + " rounds=" +
         std::to_string(rounds) + " spin=" + std::to_string(spin) + "\n");
  bool overlapped = false;
  auto provider   = std::make_shared<sdkm::MeterProvider>();
  auto reader     = std::shared_ptr<sdkm::MetricReader>(new RaceReader());
  provider->AddMetricReader(reader);
  auto meter = provider->GetMeter("c17-race");
  for (unsigned round = 0; round < rounds; ++round)
  {
    auto inst = meter->CreateInt64ObservableCounter("race_" + std::to_string(round));
    std::vector<std::unique_ptr<CbState>> states;
    for (unsigned i = 0; i < ncb; ++i)
    {
      states.emplace_back(new CbState());
      inst->AddCallback(callback, states.back().get());
    }
    std::atomic<bool> stop{false};
    std::atomic<unsigned> collects{0};
    std::thread collector([&]() {
      while (!stop.load())
      {
        reader->Collect([](sdkm::ResourceMetrics &) { return true; });
        collects++;
      }
    });
    std::thread remover([&]() {
      while (collects.load() < 1)
        std::this_thread::yield();
      for (unsigned i = 0; i < spin; ++i)
        std::this_thread::yield();
      if (destroy)
      {
        inst = otel::nostd::shared_ptr<apim::ObservableInstrument>(nullptr);
        for (auto &s : states)
          s->removed = true;
      }
      else
      {
        for (auto &s : states)
        {
          inst->RemoveCallback(callback, s.get());
          s->removed = true;
        }
      }
      // let a few more collections run after the removal
      unsigned target = collects.load() + 3;
      while (collects.load() < target)
        std::this_thread::yield();
      stop = true;
    });
    remover.join();
    collector.join();
    for (auto &s : states)
    {
      VH_CHECK(c, s->calls_after_removal.load() == 0,
               "round " << round << ": a callback was invoked " << s->calls_after_removal.load()
                        << " time(s) after " << (destroy ? "its instrument's destruction" : "RemoveCallback")
                        << " had returned");
      if (s->calls.load() > 0)
        overlapped = true;
    }
  }
  c.nontrivial = overlapped;
}

// ------------------------------------------------------------------------------------------------
// Collections by several readers at the same time.  Every callback reports a running total that
// grows by one per invocation and its own attribute set, so whatever the schedule:
//   * "invoked exactly once per collection": the number of invocations of a callback equals the
//     number of Collect calls made by all readers, and it is one in every sequential collection;
//   * "a cumulative reader receives the reported total / a delta reader the difference from what it
//     was last given, independent of other readers' collections": the total a reader holds after a
//     collection (the value for a cumulative reader, the sum of everything it was given for a delta
//     reader) is a total that was reported during that collection - at least the total before the
//     Collect call plus one, at most the total when it returned - and in the closing sequential
//     round it is exactly the total reported in that very collection.
namespace
{
class TemporalityReader final : public sdkm::MetricReader
{
public:
  explicit TemporalityReader(bool delta) : delta_(delta) {}
  sdkm::AggregationTemporality GetAggregationTemporality(sdkm::InstrumentType) const noexcept override
  {
    return delta_ ? sdkm::AggregationTemporality::kDelta : sdkm::AggregationTemporality::kCumulative;
  }
  bool delta() const { return delta_; }

private:
  bool OnForceFlush(std::chrono::microseconds) noexcept override { return true; }
  bool OnShutDown(std::chrono::microseconds) noexcept override { return true; }
  bool delta_;
};

struct GrowState
{
  int64_t id = 0;
  std::atomic<int64_t> total{0};
};

void growing_callback(apim::ObserverResult result, void *state)
{
  auto *s   = static_cast<GrowState *>(state);
  int64_t t = ++s->total;
  if (otel::nostd::holds_alternative<otel::nostd::shared_ptr<apim::ObserverResultT<int64_t>>>(result))
    otel::nostd::get<otel::nostd::shared_ptr<apim::ObserverResultT<int64_t>>>(result)->Observe(t, {{"cb", s->id}});
}

// one Collect: the value delivered per callback id (absent = no point), false when something that
// is wrong whatever the schedule was seen (text in *err)
bool collect_points(sdkm::MetricReader &reader, std::map<int64_t, int64_t> *out, std::string *err)
{
  bool ok = reader.Collect([&](sdkm::ResourceMetrics &rm) {
    for (auto &sm : rm.scope_metric_data_)
      for (auto &md : sm.metric_data_)
        for (auto &p : md.point_data_attr_)
        {
          auto it = p.attributes.find("cb");
          if (it == p.attributes.end() || !otel::nostd::holds_alternative<int64_t>(it->second) ||
              !otel::nostd::holds_alternative<sdkm::SumPointData>(p.point_data) ||
              !otel::nostd::holds_alternative<int64_t>(otel::nostd::get<sdkm::SumPointData>(p.point_data).value_))
          {
            *err = "a point that is not a long sum with the callback's attribute set was delivered";
            continue;
          }
          int64_t id = otel::nostd::get<int64_t>(it->second);
          if (out->count(id))
            *err = "two points for the attribute set of callback " + std::to_string(id) + " in one collection";
          (*out)[id] = otel::nostd::get<int64_t>(otel::nostd::get<sdkm::SumPointData>(p.point_data).value_);
        }
    return true;
  });
  if (!ok)
    *err = "MetricReader::Collect returned false";
  return err->empty();
}
}  // namespace

VH_TARGET(obs_concurrent_collect, 2,
          "two or three readers of mixed temporality collect concurrently from one observable counter; "
          "non-trivial when, in some round, some reader's Collect started before and returned after a "
          "callback invocation made for another reader (the collections really overlapped in time); "
          "distinct = distinct configuration text")
{
  vh::Reader &rd    = c.rd;
  unsigned nreaders = 2 + rd.below(2);
  std::vector<bool> delta;
  std::string cfg = "readers=";
  for (unsigned i = 0; i < nreaders; ++i)
  {
    delta.push_back(rd.coin());
    cfg += delta.back() ? "D" : "C";
  }
  unsigned ncb    = 1 + rd.below(2);
  unsigned rounds = 2 + rd.below(4);
  unsigned per    = 10 + rd.below(50);
  c.note(cfg + " callbacks=" + std::to_string(ncb) + " rounds=" + std::to_string(rounds) + " collects-per-reader=" +
         std::to_string(per) + "\n");
  bool overlapped = false;
  for (unsigned round = 0; round < rounds; ++round)
  {
    auto provider = std::make_shared<sdkm::MeterProvider>();
    std::vector<std::shared_ptr<TemporalityReader>> readers;
    for (unsigned i = 0; i < nreaders; ++i)
    {
      readers.emplace_back(new TemporalityReader(delta[i]));
      provider->AddMetricReader(readers.back());
    }
    auto meter = provider->GetMeter("c17-concurrent");
    auto inst  = meter->CreateInt64ObservableCounter("grow");
    std::vector<std::unique_ptr<GrowState>> states;
    for (unsigned i = 0; i < ncb; ++i)
    {
      states.emplace_back(new GrowState());
      states.back()->id = static_cast<int64_t>(i);
      inst->AddCallback(growing_callback, states.back().get());
    }
    // per reader, per callback: the total the reader holds (cumulative: last value; delta: sum)
    std::vector<std::map<int64_t, int64_t>> held(nreaders);
    std::vector<std::string> errs(nreaders);
    std::vector<char> saw_overlap(nreaders, 0);
    std::atomic<unsigned> ready{0};
    auto one_collect = [&](unsigned r, bool sequential) {
      std::vector<int64_t> before;
      for (auto &s : states)
        before.push_back(s->total.load());
      std::map<int64_t, int64_t> got;
      std::string err;
      if (!collect_points(*readers[r], &got, &err))
      {
        errs[r] = err;
        return;
      }
      for (unsigned k = 0; k < ncb && errs[r].empty(); ++k)
      {
        int64_t after = states[k]->total.load();
        auto it       = got.find(static_cast<int64_t>(k));
        if (delta[r])
          held[r][k] += it == got.end() ? 0 : it->second;
        else if (it != got.end())
          held[r][k] = it->second;
        else
          errs[r] = "no point for callback " + std::to_string(k) + " was delivered to the cumulative reader";
        if (after - before[k] > 1)
          saw_overlap[r] = 1;
        if (sequential && after != before[k] + 1)
          errs[r] = "callback " + std::to_string(k) + " was invoked " + std::to_string(after - before[k]) +
                    " time(s) in one collection made while no other collection was running";
        int64_t h = held[r][k];
        if (errs[r].empty() && (h < before[k] + 1 || h > after))
          errs[r] = std::string(delta[r] ? "the deltas given to delta" : "the value given to cumulative") + " reader " +
                    std::to_string(r) + " for callback " + std::to_string(k) + " add up to " + std::to_string(h) +
                    "; the totals reported during this collection lie in [" + std::to_string(before[k] + 1) + ", " +
                    std::to_string(after) + "]" + (sequential ? " (sequential collection)" : " (concurrent collections)");
      }
    };
    std::vector<std::thread> threads;
    for (unsigned r = 0; r < nreaders; ++r)
      threads.emplace_back([&, r]() {
        ready++;
        while (ready.load() < nreaders)
          std::this_thread::yield();
        for (unsigned i = 0; i < per && errs[r].empty(); ++i)
          one_collect(r, false);
      });
    for (auto &t : threads)
      t.join();
    for (unsigned r = 0; r < nreaders; ++r)
    {
      VH_CHECK(c, errs[r].empty(), "round " << round << ", reader " << r << ": " << errs[r]);
      overlapped = overlapped || saw_overlap[r];
    }
    // closing round, sequential
    for (unsigned r = 0; r < nreaders; ++r)
    {
      one_collect(r, true);
      VH_CHECK(c, errs[r].empty(), "round " << round << ", closing collection of reader " << r << ": " << errs[r]);
    }
    for (unsigned k = 0; k < ncb; ++k)
      VH_CHECK(c, states[k]->total.load() == static_cast<int64_t>(nreaders) * (per + 1),
               "round " << round << ": callback " << k << " was invoked " << states[k]->total.load() << " times during "
                        << nreaders * (per + 1) << " collections");
  }
  c.nontrivial = overlapped;
}

// C17 (engine E-THR): RemoveCallback / instrument destruction racing a collection.
// "A removed callback (or one whose instrument was destroyed) is never invoked again" must also hold
// when the removal happens on another thread while a reader collects: a flag is set AFTER
// RemoveCallback / the instrument's destruction has returned, and the callback reports a violation
// if it ever runs with the flag set.  Real threads, brute force over rounds; ASan and TSan builds.
#include <atomic>
#include <chrono>
#include <memory>
#include <string>
#include <thread>
#include <vector>

#include "opentelemetry/metrics/async_instruments.h"
#include "opentelemetry/metrics/meter.h"
#include "opentelemetry/metrics/observer_result.h"
#include "opentelemetry/sdk/metrics/meter_provider.h"
#include "opentelemetry/sdk/metrics/metric_reader.h"
#include "vh.h"

const char *vh_property_id = "C17";

namespace
{
namespace otel = opentelemetry;
namespace sdkm = opentelemetry::sdk::metrics;
namespace apim = opentelemetry::metrics;

class RaceReader final : public sdkm::MetricReader
{
public:
  sdkm::AggregationTemporality GetAggregationTemporality(sdkm::InstrumentType) const noexcept override
  {
    return sdkm::AggregationTemporality::kCumulative;
  }

private:
  bool OnForceFlush(std::chrono::microseconds) noexcept override { return true; }
  bool OnShutDown(std::chrono::microseconds) noexcept override { return true; }
};

struct CbState
{
  std::atomic<bool> removed{false};
  std::atomic<int> calls{0};
  std::atomic<int> calls_after_removal{0};
  int64_t value = 1;
};

void callback(apim::ObserverResult result, void *state)
{
  auto *s = static_cast<CbState *>(state);
  if (s->removed.load())
    s->calls_after_removal++;
  s->calls++;
  if (otel::nostd::holds_alternative<otel::nostd::shared_ptr<apim::ObserverResultT<int64_t>>>(result))
    otel::nostd::get<otel::nostd::shared_ptr<apim::ObserverResultT<int64_t>>>(result)->Observe(s->value);
}
}  // namespace

VH_TARGET(obs_remove_race, 2,
          "a collector thread races RemoveCallback / instrument destruction on another thread; non-trivial "
          "when some callback was invoked at least once before its removal in some round (the collection "
          "and the removal really overlapped in time); distinct = distinct configuration text")
{
  vh::Reader &rd  = c.rd;
  unsigned ncb    = 1 + rd.below(3);
  bool destroy    = rd.coin();
  unsigned rounds = 10 + rd.below(20);
  unsigned spin   = rd.below(200);
  c.note("callbacks=" + std::to_string(ncb) + (destroy ? " destroy-instrument" : " remove-callbacks") + " rounds=" +
         std::to_string(rounds) + " spin=" + std::to_string(spin) + "\n");
  bool overlapped = false;
  auto provider   = std::make_shared<sdkm::MeterProvider>();
  auto reader     = std::shared_ptr<sdkm::MetricReader>(new RaceReader());
  provider->AddMetricReader(reader);
  auto meter = provider->GetMeter("c17-race");
  for (unsigned round = 0; round < rounds; ++round)
  {
    auto inst = meter->CreateInt64ObservableCounter("race_" + std::to_string(round));
    std::vector<std::unique_ptr<CbState>> states;
    for (unsigned i = 0; i < ncb; ++i)
    {
      states.emplace_back(new CbState());
      inst->AddCallback(callback, states.back().get());
    }
    std::atomic<bool> stop{false};
    std::atomic<unsigned> collects{0};
    std::thread collector([&]() {
      while (!stop.load())
      {
        reader->Collect([](sdkm::ResourceMetrics &) { return true; });
        collects++;
      }
    });
    std::thread remover([&]() {
      while (collects.load() < 1)
        std::this_thread::yield();
      for (unsigned i = 0; i < spin; ++i)
        std::this_thread::yield();
      if (destroy)
      {
        inst = otel::nostd::shared_ptr<apim::ObservableInstrument>(nullptr);
        for (auto &s : states)
          s->removed = true;
      }
      else
      {
        for (auto &s : states)
        {
          inst->RemoveCallback(callback, s.get());
          s->removed = true;
        }
      }
      // let a few more collections run after the removal
      unsigned target = collects.load() + 3;
      while (collects.load() < target)
        std::this_thread::yield();
      stop = true;
    });
    remover.join();
    collector.join();
    for (auto &s : states)
    {
      VH_CHECK(c, s->calls_after_removal.load() == 0,
               "round " << round << ": a callback was invoked " << s->calls_after_removal.load()
                        << " time(s) after " << (destroy ? "its instrument's destruction" : "RemoveCallback")
                        << " had returned");
      if (s->calls.load() > 0)
        overlapped = true;
    }
  }
  c.nontrivial = overlapped;
}

"""Generates build/build.ninja: sanitizer builds of the SDK from the repository working tree, the
E-SCHED shadow trees (token-renamed copies of the concurrent sources) and one binary per harness."""
import glob
import os

import props

CXX = "clang++"
# -ftrivial-auto-var-init=pattern: an uninitialised automatic variable holds 0xAA.. instead of whatever
# the stack happened to contain (mostly zeros in a harness), so a read of one changes the outcome
# reproducibly.  Code that reads no uninitialised memory is unaffected.
BASE = "-std=gnu++17 -g -O1 -fno-omit-frame-pointer -Wno-deprecated-declarations -ftrivial-auto-var-init=pattern"
# VH_COVERAGE=1 (tools/coverage.sh, its own build directory): source-based coverage instrumentation of everything
# clang compiles, so that the library lines the generated cases never reach can be listed per anchored file.
COV = " -fprofile-instr-generate -fcoverage-mapping" if os.environ.get("VH_COVERAGE") else ""
BASE += COV
SAN = {
    "asan": "-fsanitize=address,undefined -fno-sanitize-recover=undefined",
    "tsan": "-fsanitize=thread",
    "fuzz": "-fsanitize=fuzzer-no-link,address,undefined -fno-sanitize-recover=undefined",
}
LINKSAN = {
    "asan": "-fsanitize=address,undefined",
    "tsan": "-fsanitize=thread",
    "fuzz": "-fsanitize=fuzzer,address,undefined",
}


def esc(p):
    return p.replace(" ", "$ ").replace(":", "$:")


def lib_sources(repo):
    srcs = sorted(glob.glob(os.path.join(repo, "sdk/src/**/*.cc"), recursive=True))
    out = []
    for s in srcs:
        rel = os.path.relpath(s, repo)
        if rel.endswith("fork_windows.cc"):
            continue
        out.append(rel)
    return out


def shadow_dest(rel):
    """repo-relative path -> path inside a shadow include root"""
    for pre in ("sdk/include/", "api/include/", "ext/include/"):
        if rel.startswith(pre):
            return rel[len(pre):]
    if rel.startswith("sdk/src/"):
        return "shadow_src/" + rel[len("sdk/src/"):]
    return "shadow_misc/" + rel


def generate(verif, repo, bdir):
    if COV:  # the g++-built variants do not know the clang coverage flags: built with clang in a coverage build
        for b_ in props.BINARIES.values():
            b_.pop("cxx", None)
    L = []
    w = L.append
    w("ninja_required_version = 1.7")
    w("cxx = %s" % CXX)
    w("verif = %s" % verif)
    w("repo = %s" % repo)
    w("rule cc")
    w("  command = $cxx $flags -MD -MF $out.d -c $in -o $out")
    w("  depfile = $out.d")
    w("  deps = gcc")
    w("  description = CC $out")
    w("rule ar")
    w("  command = rm -f $out && ar crs $out @$out.rsp")
    w("  rspfile = $out.rsp")
    w("  rspfile_content = $in")
    w("  description = AR $out")
    w("rule link")
    w("  command = $cxx $ldflags -o $out $in $libs")
    w("  description = LINK $out")
    w("rule shadow")
    w("  command = sed -E -f $verif/sched/rename.sed $in > $out")
    w("  description = SHADOW $out")

    def incs(abi, extra_first=()):
        parts = ["-I" + p for p in extra_first]
        parts += ["-DOPENTELEMETRY_ABI_VERSION_NO=%d" % abi,
                  "-I%s/api/include" % repo, "-I%s/sdk/include" % repo, "-I%s/sdk" % repo,
                  "-I%s/ext/include" % repo, "-I%s/harness/common" % verif, "-I%s/sched" % verif,
                  "-I%s/harness" % verif]
        return " ".join(parts)

    # --- SDK libraries, one per (sanitizer, abi) actually requested by some binary ---------------
    libs_needed = set()
    for name, b in props.BINARIES.items():
        if b.get("lib", True):
            libs_needed.add((b.get("san", "asan") if b.get("main") != "fuzz" else "asan", b.get("abi", 1), b.get("cxx", CXX)))
    lsrcs = lib_sources(repo)
    for (san, abi, cxx) in sorted(libs_needed):
        objs = []
        tag = "" if cxx == CXX else "_" + cxx.replace("+", "x")
        for rel in lsrcs:
            o = "obj/lib_%s_abi%d%s/%s.o" % (san, abi, tag, rel.replace("/", "_"))
            w("build %s: cc %s" % (esc(o), esc(os.path.join(repo, rel))))
            w("  flags = %s %s %s" % (BASE, SAN[san], incs(abi)))
            if cxx != CXX:
                w("  cxx = %s" % cxx)
            objs.append(o)
        w("build lib/libotel_%s_abi%d%s.a: ar %s" % (san, abi, tag, " ".join(esc(o) for o in objs)))

    # --- common harness objects per sanitizer variant ---------------------------------------------
    common = {}
    compilers = sorted({b.get("cxx", CXX) for b in props.BINARIES.values()})
    for cxx_ in compilers:
      for san in ("asan", "tsan", "fuzz"):
        if cxx_ != CXX and san == "fuzz":
            continue
        for src in ("vh_core.cc", "main_rc.cc", "main_fuzz.cc", "main_plain.cc"):
            if san == "fuzz" and src in ("main_rc.cc", "main_plain.cc"):
                continue
            if san != "fuzz" and src == "main_fuzz.cc":
                continue
            p = os.path.join(verif, "harness/common", src)
            if not os.path.exists(p):
                continue
            ctag = "" if cxx_ == CXX else "_" + cxx_.replace("+", "x")
            o = "obj/common_%s%s/%s.o" % (san, ctag, src)
            # the driver mains are never coverage-instrumented
            flags = SAN[san] if san != "fuzz" else SAN["asan"]
            w("build %s: cc %s" % (o, esc(p)))
            w("  flags = %s %s %s" % (BASE, flags, incs(1)))
            if cxx_ != CXX:
                w("  cxx = %s" % cxx_)
            common[(san, src, cxx_)] = o

    # --- binaries ---------------------------------------------------------------------------------
    def expand(b, key):
        """<key>_globs: glob patterns relative to the repository, resolved against THIS tree"""
        out = list(b.get(key, []))
        for pat in b.get(key + "_globs", []):
            for f in sorted(glob.glob(os.path.join(repo, pat), recursive=True)):
                rel = os.path.relpath(f, repo)
                if rel.endswith("fork_windows.cc") or rel in b.get("exclude", []):
                    continue
                if rel not in out:
                    out.append(rel)
        return out

    for name, b in sorted(props.BINARIES.items()):
        b = dict(b)
        for key in ("shadow", "shadow_srcs", "repo_srcs"):
            b[key] = expand(b, key)
        main = b.get("main", "rc")
        san = "fuzz" if main == "fuzz" else b.get("san", "asan")
        abi = b.get("abi", 1)
        bcxx = b.get("cxx", CXX)
        cxx_line = ("  cxx = %s" % bcxx) if bcxx != CXX else None
        defs = " ".join("-D" + d for d in b.get("defines", []))
        first = []
        order_only = []
        objs = []
        if b.get("shadow"):
            sroot = "shadow/%s" % name
            # relative (ninja runs in the build dir): the depfile then names the generated headers
            # exactly as the shadow edges do, so an edit to a shadowed source rebuilds in ONE pass
            first.append(sroot)
            first.append(os.path.join(sroot, "shadow_src"))
            for rel in b["shadow"]:
                dst = os.path.join(sroot, shadow_dest(rel))
                w("build %s: shadow %s | %s/sched/rename.sed" % (esc(dst), esc(os.path.join(repo, rel)), verif))
                order_only.append(dst)
            for rel in b.get("shadow_srcs", []):
                dst = os.path.join(sroot, shadow_dest(rel))
                o = "obj/%s/shadow_%s.o" % (name, rel.replace("/", "_"))
                w("build %s: cc %s || %s" % (esc(o), esc(dst), " ".join(esc(x) for x in order_only)))
                w("  flags = %s %s %s %s -include vsched.h" % (BASE, SAN[san], defs, incs(abi, first)))
                objs.append(o)
        extra_inc = ""
        if b.get("shadow"):
            extra_inc = " -include vsched.h"
        for src in b["srcs"]:
            p = os.path.join(verif, src)
            o = "obj/%s/%s.o" % (name, src.replace("/", "_"))
            oo = (" || " + " ".join(esc(x) for x in order_only)) if order_only else ""
            w("build %s: cc %s%s" % (esc(o), esc(p), oo))
            w("  flags = %s %s %s %s%s" % (BASE, SAN[san], defs, incs(abi, first), extra_inc))
            if cxx_line:
                w(cxx_line)
            objs.append(o)
        for rel in b.get("repo_srcs", []):
            o = "obj/%s/repo_%s.o" % (name, rel.replace("/", "_"))
            oo = (" || " + " ".join(esc(x) for x in order_only)) if order_only else ""
            w("build %s: cc %s%s" % (esc(o), esc(os.path.join(repo, rel)), oo))
            w("  flags = %s %s %s %s" % (BASE, SAN[san], defs, incs(abi, first)))
            objs.append(o)
        objs.append(common[(san, "vh_core.cc", bcxx)])
        objs.append(common[(san, {"rc": "main_rc.cc", "fuzz": "main_fuzz.cc", "plain": "main_plain.cc"}[main], bcxx)])
        libs = []
        implicit = []
        if b.get("lib", True):
            lsan = "asan" if san == "fuzz" else san
            la = "lib/libotel_%s_abi%d%s.a" % (lsan, abi, "" if bcxx == CXX else "_" + bcxx.replace("+", "x"))
            libs.append(la)
            implicit.append(la)
        if main == "rc":
            libs.append("-lrapidcheck")
        libs.append("-lpthread")
        w("build bin/%s: link %s%s" % (name, " ".join(esc(o) for o in objs),
                                      (" | " + " ".join(implicit)) if implicit else ""))
        w("  ldflags = %s%s" % (LINKSAN[san], COV))
        w("  libs = %s" % " ".join(libs))
        if cxx_line:
            w(cxx_line)
    text = "\n".join(L) + "\n"
    path = os.path.join(bdir, "build.ninja")
    old = None
    if os.path.exists(path):
        with open(path) as f:
            old = f.read()
    if old != text:
        with open(path, "w") as f:
            f.write(text)

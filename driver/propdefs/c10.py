from props import *  # noqa: F401,F403

# ------------------------------------------------------------------------------------------------
# header-only API: nothing of the SDK is linked
rc_bin("c10_rc", ["harness/c10_context.cc"], lib=False)
# the thread programs once more under ThreadSanitizer (a small run in the quick tier, the full one in thorough)
rc_bin("c10_rc_tsan", ["harness/c10_context.cc"], lib=False, san="tsan")
PROPS["C10"] = dict(
    level_text="Model-based property tests over generated operation histories (rapidcheck, ASan/UBSan; real threads, "
               "and ThreadSanitizer for the thread programs): every explored history agreed with "
               "a persistent-map model of the context family and a per-token stack model of the runtime "
               "context. Exploration is the right level: the domain (all histories of SetValue/SetValues/Attach/"
               "Detach/Scope, all detach orders and depths) is unbounded and the models are cheap, so breadth of "
               "generated histories is what finds shadowing, ownership and unwinding defects; the thread clause is "
               "checked with per-thread oracles that hold under every schedule, not by enumerating schedules.",
    technique="stateful model-based PBT (persistent map model with a reachability model for values that only "
              "contexts own; stack model: a token is matched by its context, most-recent-first, unwind-above on "
              "out-of-order detach, and at most once); every live context re-queried after every mutation; "
              "real-thread runs with per-thread models (nondeterministic schedule, schedule-independent oracle), "
              "shared Context objects used by all threads at once under ThreadSanitizer",
    rule="Cases are choice streams decoded into context-family histories / attach-detach-scope programs.",
    generators="ctx_map: 1..28 operations from {SetValue 30 (member call | RuntimeContext::SetValue(k,v,&ctx) | "
               "trace::SetSpan), SetValues 20 (0..3 pairs), query 16, new root Context(k,v)/Context(container) 8, "
               "copy 6, drop 6, chain of 8..63 SetValue calls 5, chain of 300..2099 SetValue calls 1 (at most two per "
               "case; total length <= ~5200, far below the ~20000 nested releases an ASan stack takes)}; containers: "
               "map, vector<pair<view,..>>, unordered_map, vector<pair<string,..>>, C array, nostd::span, "
               "initializer_list; 18 pool keys (empty, NUL-containing, prefixes of each other, 300-byte, span/root "
               "keys and near misses), half of the draws from 5 keys so that re-binding is frequent; values: all 8 "
               "ContextValue alternatives; span / span context / baggage values are pool objects (the harness keeps "
               "a reference) or, half of the time, objects created for that one binding and let go by the harness "
               "right after the call. rt_stack / rt_threads: 1..5 initial derived contexts, then 1..40 (30) steps "
               "from {query, attach, detach-top (explicit | by destruction), derive from current / from a held "
               "context, attach burst (2..40, stride 0..3 through the family: the same context many times), detach "
               "any token, destroy any token, new Scope (pool span | span owned by the scope's context only; context "
               "held or not), end any Scope, attach a temporary copy, unwind burst, foreign-token steps with helper "
               "threads (rt_stack), barriers / yields / shared-object steps (rt_threads: look-ups in, SetValue / "
               "SetValues / RuntimeContext::SetValue on, and Attach of a Context object that the other threads use "
               "at the same moment)}; three depth profiles; final unwind in stack order / creation order / scattered",
    oracle="ctx_map: persistent-map model written from the statement (a derived context = its source + the new "
           "bindings, most recent binding wins, sources untouched); every live context x every pool key after "
           "every mutation (GetValue, HasKey, IsRootSpan, GetSpan); a value object that only contexts own must "
           "exist while any existing context can reach a binding of it (visible or shadowed) and, when a context "
           "returns it, is dereferenced and must say what was put into it (use-after-free = ASan). rt_*: stack "
           "model - Attach pushes; presenting a token (Detach or its destructor) that never matched finds the "
           "most recent frame holding an equal context and removes it and everything above, or changes nothing "
           "when there is none (foreign / stale); a token whose Detach already succeeded changes nothing and "
           "Detach answers false; GetCurrent(), look-ups through the runtime context, Tracer::GetCurrentSpan() "
           "and GetSpan(GetCurrent()) compared after every step; after releasing everything the stack is empty. "
           "Threads: each thread against its own model, owner markers never cross threads, shared Context objects "
           "keep answering as built; data races are for ThreadSanitizer (threads-tsan, stack-tsan).",
    assumptions=[
        "keys are passed as non NUL-terminated views whose storage is overwritten and freed right after the call; "
        "the empty key is also passed as string_view{} (null data pointer)",
        "not specified, hence not asserted: HasKey for a key whose most recent binding is the empty alternative "
        "(GetValue must still return that empty binding); which of two equal keys inside ONE container wins "
        "(never generated); the return value of Detach for a token of the empty context on an empty stack, and "
        "whether that call uses the token up (nothing may change; such a token is released right away)",
        "Context::operator== is asserted only where the repository documents it (a copy equals its source, contexts "
        "that answer differently are unequal, GetCurrent() equals the attached context, an empty stack yields "
        "Context()); otherwise it is observed and fed into the stack model, so SetValues(empty) may or may not be "
        "identical to its receiver",
        "'matching Attach' is read per token: a token whose Detach succeeded has no matching Attach left, so "
        "presenting it again (second Detach, destructor) must change nothing and Detach answers false (the "
        "repository's test DetachWrongContext expects that false). The unchanged library pops another frame that "
        "holds an equal context instead: OPEN known finding C10-detach-twice (the repair in "
        "proposed_fixes/C10-detach-twice.diff adds a member to the API class Token - an ABI-v1 layout change, so it is "
        "recorded rather than applied; fixed witness target detach_twice_witness); while it is listed as open the generator never presents such a token as long as an equal "
        "context is on the stack (the step is skipped, the token is released later)",
        "a token that never matched anything - including one whose own frame was unwound by an out-of-order detach "
        "of a frame below it - is matched by the identity of its context, most recent frame first, as the "
        "quantifier says ('a context attached more than once is matched most-recent-first'); a context-only token "
        "cannot tell its own frame from another frame of an equal context",
        "tokens handed over from another thread belong to contexts that cannot be on the receiving thread's stack, "
        "so they are foreign under any reading of 'matching'",
        "values that only contexts own: asserted is that they exist and are intact as long as a context that can "
        "reach them exists (harness-held contexts, stack frames, and the context inside every live token / Scope); "
        "that they are released together with their last context is measured (tag owned-value-released-with-its-"
        "last-context vs owned-value-exists-without-any-context) but not asserted - the statement does not speak "
        "about releasing. Likewise not asserted: that releasing an arbitrarily long chain of bindings works (the "
        "binding list is released recursively; chains stay below a few thousand bindings)",
        "only the default ThreadLocalContextStorage is examined; RuntimeContext::SetRuntimeContextStorage / custom "
        "storages are outside 'the runtime context of a thread'",
        "rt_threads: the schedule is whatever the OS produces; each thread is checked against its own model after "
        "every step, so a failure is a real violation under some schedule but a replay may need several attempts; "
        "a data race on a shared Context object is visible to the ThreadSanitizer runs only",
        SC_NOTE,
    ],
    runs=[
        # fixed witness of the open known finding C10-detach-twice: replay only (known/C10/), no search budget
        run("detach-twice-witness", "c10_rc", "detach_twice_witness", "rc", None, None),
        run("map", "c10_rc", "ctx_map", "rc", dict(procs=5, cases=5000), dict(procs=16, cases=40000)),
        run("stack", "c10_rc", "rt_stack", "rc", dict(procs=6, cases=4000), dict(procs=16, cases=30000)),
        run("threads", "c10_rc", "rt_threads", "rc", dict(procs=4, cases=1500), dict(procs=8, cases=15000),
            deterministic=False),
        run("threads-tsan", "c10_rc_tsan", "rt_threads", "rc", dict(procs=2, cases=500), dict(procs=4, cases=3000),
            deterministic=False),
        run("stack-tsan", "c10_rc_tsan", "rt_stack", "rc", None, dict(procs=2, cases=3000)),
    ],
)

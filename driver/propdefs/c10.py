from props import *  # noqa: F401,F403

# ------------------------------------------------------------------------------------------------
rc_bin("c10_rc", ["harness/c10_context.cc"], lib=False)
# the thread programs once more under ThreadSanitizer (thorough tier only)
rc_bin("c10_rc_tsan", ["harness/c10_context.cc"], lib=False, san="tsan")
PROPS["C10"] = dict(
    level_text="Model-based property tests over generated operation histories (rapidcheck, ASan/UBSan; real threads "
               "for the isolation clause): every explored history agreed with a persistent-map model of the context "
               "family and a stack model of the runtime context.",
    technique="stateful model-based PBT (persistent map model, identity-matching stack model), real-thread runs with per-thread oracles",
    rule="Cases are choice streams decoded into context-family histories / attach-detach-scope programs.",
    assumptions=[SC_NOTE],
    runs=[
        run("map", "c10_rc", "ctx_map", "rc", dict(procs=5, cases=4000), dict(procs=16, cases=40000)),
        run("stack", "c10_rc", "rt_stack", "rc", dict(procs=6, cases=4000), dict(procs=16, cases=40000)),
        run("threads", "c10_rc", "rt_threads", "rc", dict(procs=4, cases=1500), dict(procs=8, cases=20000),
            deterministic=False),
        run("threads-tsan", "c10_rc_tsan", "rt_threads", "rc", None, dict(procs=4, cases=4000),
            deterministic=False),
        run("stack-tsan", "c10_rc_tsan", "rt_stack", "rc", None, dict(procs=2, cases=4000)),
    ],
)

from props import *  # noqa: F401,F403

# ------------------------------------------------------------------------------------------------
# header-only API: nothing of the SDK is linked
rc_bin("c10_rc", ["harness/c10_context.cc"], lib=False)
# the thread programs once more under ThreadSanitizer (thorough tier only)
rc_bin("c10_rc_tsan", ["harness/c10_context.cc"], lib=False, san="tsan")
PROPS["C10"] = dict(
    level_text="Model-based property tests over generated operation histories (rapidcheck, ASan/UBSan; real threads, "
               "and ThreadSanitizer in the thorough tier, for the isolation clause): every explored history agreed with "
               "a persistent-map model of the context family and an identity-matching stack model of the runtime "
               "context. Exploration is the right level: the domain (all histories of SetValue/SetValues/Attach/"
               "Detach/Scope, all detach orders and depths) is unbounded and the models are cheap, so breadth of "
               "generated histories is what finds shadowing, ownership and unwinding defects; the thread clause is "
               "checked with per-thread oracles that hold under every schedule, not by enumerating schedules.",
    technique="stateful model-based PBT (persistent map model; stack model with identity matching, most-recent-first, "
              "unwind-above on out-of-order detach); every live context re-queried after every mutation; real-thread "
              "runs with per-thread models (nondeterministic schedule, schedule-independent oracle)",
    rule="Cases are choice streams decoded into context-family histories / attach-detach-scope programs.",
    assumptions=[
        "keys are passed as non NUL-terminated views whose storage is overwritten and freed right after the call; "
        "the empty key is also passed as string_view{} (null data pointer)",
        "not specified, hence not asserted: HasKey for a key whose most recent binding is the empty alternative "
        "(GetValue must still return that empty binding); which of two equal keys inside ONE container wins "
        "(never generated); the return value of Detach for a token of the empty context on an empty stack "
        "(nothing may change)",
        "Context::operator== is asserted only where the repository documents it (a copy equals its source, contexts "
        "that answer differently are unequal, GetCurrent() equals the attached context, an empty stack yields "
        "Context()); otherwise it is observed and fed into the stack model, so SetValues(empty) may or may not be "
        "identical to its receiver",
        "tokens handed over from another thread belong to contexts that cannot be on the receiving thread's stack, "
        "so they are foreign under any reading of 'matching'",
        "rt_threads: the schedule is whatever the OS produces; each thread is checked against its own model after "
        "every step, so a failure is a real violation under some schedule but a replay may need several attempts",
        SC_NOTE,
    ],
    runs=[
        run("map", "c10_rc", "ctx_map", "rc", dict(procs=5, cases=5000), dict(procs=16, cases=40000)),
        run("stack", "c10_rc", "rt_stack", "rc", dict(procs=6, cases=4000), dict(procs=16, cases=30000)),
        run("threads", "c10_rc", "rt_threads", "rc", dict(procs=4, cases=1500), dict(procs=8, cases=15000),
            deterministic=False),
        run("threads-tsan", "c10_rc_tsan", "rt_threads", "rc", None, dict(procs=4, cases=3000),
            deterministic=False),
        run("stack-tsan", "c10_rc_tsan", "rt_stack", "rc", None, dict(procs=2, cases=3000)),
    ],
)

from props import *  # noqa: F401,F403

rc_bin("c02_sched", ["harness/c02_flush_shutdown.cc"], lib=False, shadow=BATCH_SHADOW + READER_SHADOW, shadow_srcs=BATCH_SHADOW_SRCS + READER_SHADOW_SRCS, repo_srcs=BATCH_PLAIN)
rc_bin("c02_provider", ["harness/c02_provider.cc"], lib=True)
# MeterProvider::ForceFlush / Shutdown with the whole metrics SDK under the scheduler shim
rc_bin("c02_psched", ["harness/c02_provider_sched.cc"], lib=False,
       shadow=["api/include/opentelemetry/common/spin_lock_mutex.h"], shadow_globs=METRICS_SHADOW_GLOBS,
       shadow_srcs_globs=METRICS_SHADOW_SRCS_GLOBS, repo_srcs_globs=METRICS_PLAIN_GLOBS)
PROPS["C02"] = dict(
    level_text="Same schedule-controlled engine as C01, biased to control operations (concurrent ForceFlush callers incl. producers that flush right after producing, Shutdown racing flushes, repeated/cross-thread Shutdown, destruction-only shutdown, operations after shutdown, zero/finite/max timeouts, exporters whose Export/ForceFlush/Shutdown are slow or report failure). Oracles over logical stamps: a ForceFlush that returned true implies every record produced before its call was exported (Export returned) before it returned and the exporter's ForceFlush ran inside the window; exporter Shutdown exactly once; no exporter call after the first Shutdown returned; post-shutdown calls are prompt and effect-free; termination = no scheduler-detected deadlock and no step-budget overrun.",
    technique="generated schedules (weighted/uniform/PCT/sparse) over a deterministic scheduler shim (rapidcheck choice streams) + history-invariant oracle over logical stamps; provider-level model-based programs on real threads; periodic-reader scenarios and MeterProvider::ForceFlush/Shutdown scenarios with the whole metrics SDK compiled against the shim (provider_sched)",
    rule="A case = (processor configuration, thread programs, exporter behaviour, schedule).",
    assumptions=SCHED_ASSUMPTIONS + [SC_NOTE],
    runs=[
        run("bsp", "c02_sched", "bsp_sched", "rc", dict(procs=6, cases=30000), dict(procs=10, cases=250000), asan_extra=SCHED_ASAN),
        run("blp", "c02_sched", "blp_sched", "rc", dict(procs=6, cases=30000), dict(procs=6, cases=250000), asan_extra=SCHED_ASAN),
        run("tracer-provider", "c02_provider", "tracer_provider", "rc", dict(procs=1, cases=3000), dict(procs=2, cases=15000)),
        run("logger-provider", "c02_provider", "logger_provider", "rc", dict(procs=1, cases=3000), dict(procs=2, cases=15000)),
        run("meter-provider", "c02_provider", "meter_provider", "rc", dict(procs=2, cases=2000), dict(procs=3, cases=12000), deterministic=False),
        run("reader", "c02_sched", "reader_sched", "rc", dict(procs=4, cases=10000), dict(procs=6, cases=200000), asan_extra=SCHED_ASAN),
        run("provider-sched", "c02_psched", "provider_sched", "rc", dict(procs=4, cases=6000), dict(procs=6, cases=120000), asan_extra=SCHED_ASAN),
    ],
)

from props import *  # noqa: F401,F403

# ------------------------------------------------------------------------------------------------
# Baggage, its propagator and the composite propagator are header-only API code: no SDK library.
rc_bin("c15_rc", ["harness/c15_baggage.cc"], lib=False)
fuzz_bin("c15_fuzz", ["harness/c15_baggage.cc"], lib=False)
PROPS["C15"] = dict(
    level_text="Model-based, round-trip and differential property tests over generated Set/Delete histories, generated "
               "baggages pushed against the 180-member / 4096-byte / 8192-byte limits, generated and fuzzed header "
               "bytes, and all ordered subsets of the five built-in propagators (rapidcheck + libFuzzer, ASan/UBSan): "
               "every explored case agreed with an ordered-list model, an independent reading of the written header, a "
               "two-sided reference extractor and the fold of the individual propagators. Exploration is the right "
               "level: histories and byte strings are unbounded domains with a cheap oracle; only the 326 ordered "
               "subsets of the composite are a finite space, and they are covered many times over.",
    technique="stateful model-based PBT (list model) + inject/extract round trip + differential reference extractor "
              "(two-sided) + composite-vs-parts differential with an order model; rapidcheck and libFuzzer",
    rule="Cases are choice streams decoded into Baggage operation histories / entry lists / header strings / "
         "(propagator order, contexts, carrier) triples.",
    assumptions=[
        "the size of a list member is read as bytes of key + bytes of value incl. metadata (the '=' not counted), "
        "as the anchored code measures it; blanks around a member / around '=' may or may not count (either verdict "
        "accepted inside that band), likewise blanks around the whole header for the 8192 bytes",
        "on extraction a literal printable character that a writer would have escaped (anything but ALNUM - _ . ~ "
        "+ %XX) may be passed through or may drop the member; a malformed escape, a non-printable decoded "
        "character or an empty key must drop it (repository unit tests)",
        "non-printable bytes inside ';metadata' (not decoded, carried verbatim) and repeated keys in a header are "
        "either-way regions; whether members dropped for their size count towards the 180 is an either-way region",
        "blanks are trimmed either as C isspace or as HTTP OWS (SP/HTAB): a result matching either rule is accepted",
        "Set puts the new/replaced entry first and refuses an invalid key/value by returning an equal copy "
        "(header comment and unit tests of the repository); the round-trip clause is asserted only for values "
        "whose metadata has no ',' and no trailing blank (the quantifier's restriction)",
        "composite Extract is compared through everything observable of a Context here (span context, baggage, "
        "an unrelated user value, identity with the caller's context), not node by node",
        SC_NOTE,
    ],
    runs=[
        run("ops", "c15_rc", "bg_ops", "rc", dict(procs=3, cases=5000), dict(procs=6, cases=50000)),
        run("roundtrip", "c15_rc", "bg_roundtrip", "rc", dict(procs=3, cases=2500), dict(procs=6, cases=20000)),
        run("header", "c15_rc", "bg_header", "rc", dict(procs=2, cases=6000), dict(procs=6, cases=50000)),
        run("edits", "c15_rc", "bg_edits", "rc", dict(procs=2, cases=20000), dict(procs=4, cases=150000)),
        run("bytes", "c15_rc", "bg_bytes", "rc", dict(procs=1, cases=2000), dict(procs=1, cases=20000)),
        run("composite", "c15_rc", "cp_composite", "rc", dict(procs=2, cases=10000), dict(procs=6, cases=80000)),
        run("bytes-fuzz", "c15_fuzz", "bg_bytes", "fuzz", dict(procs=2, cases=80000, max_len=384),
            dict(procs=6, cases=500000, max_len=512), replay_bin="c15_rc"),
        # headers up to and beyond the 8192-byte limit (the committed seeds sit on the three limits);
        # such inputs cost milliseconds each, hence the small budget
        run("bytes-fuzz-long", "c15_fuzz", "bg_bytes", "fuzz", None,
            dict(procs=2, cases=25000, max_len=9000), replay_bin="c15_rc"),
        run("header-fuzz", "c15_fuzz", "bg_header", "fuzz", dict(procs=1, cases=8000, max_len=400),
            dict(procs=4, cases=40000, max_len=800), replay_bin="c15_rc"),
    ],
)

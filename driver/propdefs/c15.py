from props import *  # noqa: F401,F403

# ------------------------------------------------------------------------------------------------
# Baggage, its propagator and the composite propagator are header-only API code: no SDK library.
rc_bin("c15_rc", ["harness/c15_baggage.cc"], lib=False)
fuzz_bin("c15_fuzz", ["harness/c15_baggage.cc"], lib=False)
PROPS["C15"] = dict(
    level_text="Model-based, round-trip and differential property tests over generated Set/Delete histories, generated "
               "baggages pushed against the 180-member / 4096-byte / 8192-byte limits, generated and fuzzed header "
               "bytes, and all ordered subsets of the five built-in propagators (rapidcheck + libFuzzer, ASan/UBSan): "
               "every explored case agreed with an ordered-list model, an independent reading of the written header, a "
               "two-sided reference extractor and the fold of the individual propagators. Exploration is the right "
               "level: histories and byte strings are unbounded domains with a cheap oracle; only the 326 ordered "
               "subsets of the composite are a finite space, and they are covered many times over.",
    technique="stateful model-based PBT (list model; receivers built through Set and receivers parsed from headers "
              "with repeated keys) + inject/extract round trip (fresh and reused carriers) + differential reference "
              "extractor (two-sided) + composite-vs-parts differential with a two-valued order model; rapidcheck and "
              "libFuzzer",
    rule="Cases are choice streams decoded into Baggage operation histories / entry lists / header strings / "
         "(propagator order, contexts, carrier) triples.",
    assumptions=[
        "the size of a list member is read as bytes of key + bytes of value incl. metadata (the '=' not counted), "
        "as the anchored code measures it; blanks around a member / around '=' may or may not count (either verdict "
        "accepted inside that band), likewise blanks around the whole header for the 8192 bytes",
        "on extraction a literal printable character that a writer would have escaped (anything but ALNUM - _ . ~ "
        "+ %XX) may be passed through or may drop the member; a malformed escape, a non-printable decoded "
        "character or an empty key must drop it (repository unit tests)",
        "non-printable bytes inside ';metadata' (not decoded, carried verbatim) and repeated keys in a header are "
        "either-way regions; whether members dropped for their size count towards the 180 is an either-way region",
        "blanks are trimmed either as C isspace or as HTTP OWS (SP/HTAB): a result matching either rule is accepted",
        "Set puts the new/replaced entry first and refuses an invalid key/value by returning an equal copy "
        "(header comment and unit tests of the repository); the round-trip clause is asserted only for values "
        "whose metadata has no ',' and no trailing blank (the quantifier's restriction)",
        "composite Extract is compared through everything observable of a Context here (span context, baggage, "
        "an unrelated user value, identity with the caller's context), not node by node",
        "order model of the composite: a valid b3 header decides alone for both B3 propagators (documented precedence); "
        "a b3 header that carries no usable ids ('zz-not-hex-!!', the sampling-only '0') next to usable X-B3-* headers "
        "is an open point - each configured B3 propagator may stop there or fall back to the multi headers (the same "
        "region is either-way in C16), every combination is accepted",
        "a baggage can hold a key more than once only when it came out of FromHeader (an either-way region of "
        "extraction): on such a receiver Set and Delete act on EVERY entry of the key ('replaces an existing key', "
        "'removes it' - no stale entry of the key survives), GetValue may answer with the value of any of its entries, "
        "and the exact round trip is not demanded of a baggage with a repeated key (it cannot be built through Set)",
        "'nothing valid remains' is decided by the reference reader: when both trimming rules leave no member that "
        "may be kept the context must be the caller's; when both find a member that must be kept among the first 180 "
        "the context must be new; in between the implementation's own FromHeader result decides",
        "a carrier answers a missing header with an empty string or with the null view (both are exercised); an "
        "empty baggage may be injected by writing nothing or by writing an empty header",
        "reused carrier: the baggage injected LAST is what extraction must rebuild, whatever the same propagator wrote "
        "into the carrier before; finding C15-stale-baggage ('reused carrier + empty baggage' left the old header in place) is fixed in "
        "/repo (c21e997) and the shape is generated",
        "NOT covered: baggages made with the unvalidated constructor Baggage(const T &keys_and_values) (arbitrary, "
        "possibly non-printable or empty keys that ToHeader then writes) - the statement speaks of baggage built "
        "through Set",
        "<cctype> calls with a negative argument other than EOF (header bytes >= 0x80 passed as plain char to "
        "isalnum / isdigit / isspace / toupper) are counted through a checked shim (tag ctype-negative-char-argument) but NOT "
        "reported: undefined by the C standard, defined by glibc (tables cover -128..-1), so on this platform the "
        "statement's outcome is unaffected - recorded as an observation, proposed_fixes/C15-ctype-negative-char.diff shows "
        "the portable form",
        SC_NOTE,
    ],
    runs=[
        run("ops", "c15_rc", "bg_ops", "rc", dict(procs=3, cases=5000), dict(procs=6, cases=50000)),
        run("roundtrip", "c15_rc", "bg_roundtrip", "rc", dict(procs=3, cases=2500), dict(procs=6, cases=20000)),
        run("header", "c15_rc", "bg_header", "rc", dict(procs=2, cases=6000), dict(procs=6, cases=50000)),
        run("edits", "c15_rc", "bg_edits", "rc", dict(procs=2, cases=20000), dict(procs=4, cases=150000)),
        run("bytes", "c15_rc", "bg_bytes", "rc", dict(procs=1, cases=2000), dict(procs=1, cases=20000)),
        run("composite", "c15_rc", "cp_composite", "rc", dict(procs=2, cases=10000), dict(procs=6, cases=80000)),
        run("bytes-fuzz", "c15_fuzz", "bg_bytes", "fuzz", dict(procs=2, cases=80000, max_len=384),
            dict(procs=6, cases=500000, max_len=512), replay_bin="c15_rc"),
        # headers up to and beyond the 8192-byte limit (the committed seeds sit on the three limits);
        # such inputs cost milliseconds each, hence the small budget
        run("bytes-fuzz-long", "c15_fuzz", "bg_bytes", "fuzz", None,
            dict(procs=2, cases=25000, max_len=9000), replay_bin="c15_rc"),
        run("header-fuzz", "c15_fuzz", "bg_header", "fuzz", dict(procs=1, cases=8000, max_len=400),
            dict(procs=4, cases=40000, max_len=800), replay_bin="c15_rc"),
    ],
)

from props import *  # noqa: F401,F403

rc_bin("c05_rc", ["harness/c05_span_identity.cc"], lib=True)
rc_bin("c05_tsan", ["harness/c05_span_identity.cc"], lib=True, san="tsan")
PROPS["C05"] = dict(
    level_text="Model-based property tests over generated trees of StartSpan/WithActiveSpan/End operations: a parent-resolution "
               "model (explicit SpanContext > explicit Context > active span; root marker cuts; an invalid explicit parent, an "
               "explicit Context holding a span WITHOUT a valid context, or an invalid / half-valid ACTIVE span give no parent and "
               "fall through) predicts trace id, parent span id, sampled flag, flag bits and trace state of every new span for "
               "every built-in sampler, a scripted sampler and a recognisable scripted id generator; the active span may be one "
               "of the tracer's own spans or a foreign one (DefaultSpan around a generated remote/local context with arbitrary "
               "flags and trace state, NoopTracer span, span of another provider); exporters confirm that dropped spans are never "
               "exported and that recorded parent id, trace id, trace flags and trace state are the modelled ones. "
               "Exploration is the right level for a property over programs/inputs.",
    technique="model-based PBT (parent-resolution and sampling-decision model) over generated span trees; rapidcheck; real threads for the per-thread stack clause; fork for id freshness",
    rule="A case = sampler/id-generator configuration + span tree program(s).",
    generators="tree_program/tree_threads: sampler (8 kinds x 6 ratios), id generator (random | counter-based custom generator, "
               "restarted per case); ops StartSpan / Activate (Scope ctor or Tracer::WithActiveSpan) / Deactivate (LIFO) / End / "
               "nest burst / unwind burst / activate a FOREIGN span (DefaultSpan(valid ctx) | invalid span: DefaultSpan(trace id "
               "zero | span id zero | all-zero ctx), NoopTracer span, GetSpan(Context{}) | live span of a second provider). "
               "Parent forms at StartSpan: none, valid SpanContext, invalid SpanContext, Context{own span | DefaultSpan(valid)}, "
               "Context{root}, Context{}, Context{root=false}, Context{invalid span [+ root marker true/false, either insertion "
               "order]}, snapshot of RuntimeContext::GetCurrent(). Scripted sampler answer per StartSpan: DROP / RECORD_ONLY / "
               "RECORD_AND_SAMPLE, trace state not given / given / given-but-empty.",
    oracle="per StartSpan: context valid and local; span id never handed out before and not the span id of any context that "
           "entered the program; with a valid modelled parent: parent's trace id, span id != parent's; without: trace id that "
           "did not appear in the program before (active span's, any explicit parent's, any foreign span's, earlier spans'); "
           "with the custom id generator every span id / new trace id carries the generator's signature; sampled flag == "
           "modelled decision; no flag bit beyond 0x01; IsRecording == decision != DROP; trace state == sampler's if given (even "
           "empty) else parent's else empty; scripted sampler consulted exactly once. At the exporter: every recorded span "
           "exactly once with the modelled parent span id (zero for a root, also under a half-valid active span), trace id, "
           "flags (SetTraceFlags and SetIdentity) and trace state; dropped spans never. Activation: GetCurrentSpan() is the "
           "activated span; release restores the previous one.",
    assumptions=[
        "id freshness is checked as distinctness within a case (and across a fork); the 2^-64 chance of a zero random id is not addressable by search",
        "a Context carrying both a VALID span and the root marker is not generated (the statement does not order the two); a Context "
        "holding an INVALID span plus the root marker is: it has no valid parent and is marked root, both clauses give a new trace",
        "'custom id generators': ids of new spans / new traces must be the ones the configured IdGenerator returned (TracerProvider "
        "constructor contract); the harness generator marks its ids so that this is decidable",
        "an active span whose context is invalid (all-zero or only one of the two ids non-zero, SpanContext::IsValid()) is 'no valid "
        "parent': the new span is a root and is exported with an all-zero parent span id",
        "scopes are released in LIFO order only (the statement says nothing about out-of-order release)",
        "the multi-thread target owns no schedule: it adds evidence only",
        SC_NOTE,
    ],
    runs=[
        run("tree", "c05_rc", "tree_program", "rc", dict(procs=8, cases=15000), dict(procs=16, cases=120000)),
        run("threads", "c05_rc", "tree_threads", "rc", dict(procs=3, cases=2500), dict(procs=6, cases=20000), deterministic=False),
        run("threads-tsan", "c05_tsan", "tree_threads", "rc", dict(procs=2, cases=250), dict(procs=4, cases=4000), deterministic=False, replay_bin="c05_tsan"),
        run("thread-lifetimes", "c05_rc", "thread_lifetimes", "rc", dict(procs=1, cases=300), dict(procs=2, cases=3000)),
        run("fork", "c05_rc", "fork_ids", "rc", dict(procs=1, cases=150), dict(procs=2, cases=1500)),
    ],
)

from props import *  # noqa: F401,F403

rc_bin("c05_rc", ["harness/c05_span_identity.cc"], lib=True)
rc_bin("c05_tsan", ["harness/c05_span_identity.cc"], lib=True, san="tsan")
PROPS["C05"] = dict(
    level_text="Model-based property tests over generated trees of StartSpan/WithActiveSpan/End operations: a parent-resolution "
               "model (explicit SpanContext > explicit Context > active span; root marker cuts; invalid explicit parent falls back) "
               "predicts trace id, parent span id, sampled flag, flag bits and trace state of every new span for every built-in "
               "sampler, a scripted sampler and scripted id generators; exporters confirm that dropped spans are never exported and "
               "that the recorded parent id is the modelled one. Exploration is the right level for a property over programs/inputs.",
    technique="model-based PBT (parent-resolution and sampling-decision model) over generated span trees; rapidcheck; real threads for the per-thread stack clause; fork for id freshness",
    rule="A case = sampler/id-generator configuration + span tree program(s).",
    assumptions=[
        "id freshness is checked as distinctness within a case (and across a fork); the 2^-64 chance of a zero random id is not addressable by search",
        "a Context carrying both a valid span and the root marker is not generated (the statement does not order the two)",
        "the multi-thread target owns no schedule: it adds evidence only",
        SC_NOTE,
    ],
    runs=[
        run("tree", "c05_rc", "tree_program", "rc", dict(procs=8, cases=15000), dict(procs=16, cases=120000)),
        run("threads", "c05_rc", "tree_threads", "rc", dict(procs=3, cases=2500), dict(procs=6, cases=20000), deterministic=False),
        run("threads-tsan", "c05_tsan", "tree_threads", "rc", dict(procs=2, cases=250), dict(procs=4, cases=4000), deterministic=False, replay_bin="c05_tsan"),
        run("thread-lifetimes", "c05_rc", "thread_lifetimes", "rc", dict(procs=1, cases=300), dict(procs=2, cases=3000)),
        run("fork", "c05_rc", "fork_ids", "rc", dict(procs=1, cases=150), dict(procs=2, cases=1500)),
    ],
)

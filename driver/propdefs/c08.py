from props import *  # noqa: F401,F403

# ------------------------------------------------------------------------------------------------
rc_bin("c08_rc", ["harness/c08_series_keys.cc"], lib=True)
rc_bin("c08_sched", ["harness/c06_sched.cc"], lib=False, defines=['VH_PROP_ID=\\"C08\\"'],
       shadow=["api/include/opentelemetry/common/spin_lock_mutex.h"], shadow_globs=METRICS_SHADOW_GLOBS,
       shadow_srcs_globs=METRICS_SHADOW_SRCS_GLOBS, repo_srcs_globs=METRICS_PLAIN_GLOBS)
PROPS["C08"] = dict(
    level_text="Metamorphic and reference-model property tests (rapidcheck, ASan/UBSan) at three levels: the attribute-set "
               "value (FilteredOrderedAttributeMap built through every constructor / AttributesProcessor::process from "
               "generated key-value lists over all 16 AttributeValue alternatives, re-spelled by stable permutations, "
               "shadowed duplicates, C-string/view spellings, keys handed over as non NUL-terminated views and by values "
               "that are equal but not bit-identical (0.0 / -0.0 as a scalar and as an array element); compared with a "
               "last-wins std::map model filtered by the allow-list, with mutated near-miss sets, and through "
               "AttributesHashMap), the instrument (MeterProvider, one instrument reached through one or two handles, "
               "zero, one or two views each with an attribute filter of its own, 1..2 delta/cumulative readers, Adds in "
               "many spellings over several collection cycles: the reported series of every stream are exactly the "
               "distinct model maps with exactly their sums) and the storage (SyncMetricStorage with explicit "
               "cardinality limits 0..10 and a MeterProvider with the default 2000: Records - signed ones for up-down "
               "counters - over attribute-set pools larger than the limit, allow-lists that merge several raw sets into "
               "one, a caller that records {otel.metrics.overflow=true} itself, 1..4 collection cycles, 1..2 collectors; "
               "next to it an AttributesHashMap of the same limit driven through each of its GetOrSetDefault / Set "
               "overloads). Every explored case agreed with the model. Exploration is the right level: the domain (all "
               "attribute lists x allow-lists x limits x collection histories) is unbounded, the oracle is cheap and "
               "exact, and the defects of this kind sit at key-view boundaries, type-only and bit-only differences, "
               "limit-1/limit/limit+1 and in the merge of several intervals, which generated search reaches directly.",
    technique="metamorphic relation (permutation / duplicates / spelling / sign of a zero of one attribute set) + reference "
              "model map (last wins, exact-key allow-list, set identity = the map with -0.0 read as 0.0) + hash equality "
              "demanded from the model relation (not from the operator== under test) + conservation through the "
              "overflow series per reader semantics (delta per interval, cumulative running total); rapidcheck",
    rule="Cases are choice streams decoded into (list A, re-spelling B, mutation C, key layouts, allow-list) or into "
         "(instrument/storage configuration, attribute-set pool, Record/Collect history).",
    assumptions=[
        "0.0 and -0.0 are equal values (operator== of the value type), so {k=0.0} and {k=-0.0} - and arrays that differ "
        "only in the sign of zero elements - are equal as key-to-value maps: they must compare equal, hash equally and "
        "share one series (the unchanged tree does all three: std::hash<double> maps both zeros to one value); which of "
        "the two zeros the shared series reports is not specified. NaN attribute values (not equal to themselves) are "
        "not generated",
        "the bool stored with an allow-list key is always true (the meaning of false is not documented)",
        "this SDK version accepts an explicit cardinality limit only as SyncMetricStorage's constructor argument, so "
        "explicit limits are exercised on SyncMetricStorage (and on AttributesHashMap) directly and the provider-level "
        "run uses the default 2000",
        "limit semantics: at most `limit` series per report including the overflow series; a report that covers at most "
        "limit-1 distinct (filtered) sets must be exact and must not contain an overflow series; exactly `limit` "
        "distinct sets may or may not use the overflow series; limit 1 therefore means: everything in the overflow "
        "series; limit 0 is an either-way region for the count (the overflow series itself is the one series that "
        "always exists: at most 1 series is accepted), conservation still holds",
        "a set with its own series may still have part of its measurements in the overflow series once several "
        "intervals were merged (asserted as <= for unsigned instruments, by record-number bit masks in the bit-valued "
        "runs); inside one interval a set is never split",
        "'the excess is folded': where the table of one interval is reported as it is (single delta collector, the "
        "directly driven AttributesHashMap) exactly limit-1 sets keep their own series and the rest shares the overflow "
        "series (which sets is not prescribed); for one-interval reports that went through the temporal merge "
        "(cumulative reader, several readers) the same is asserted (finding C08-merge-folds-one-more - the merge "
        "folded one set more than the excess - is fixed in /repo 57b5e59); reports that combine several intervals are only bounded and totalled",
        "measurement values are whole numbers below 2^51 in magnitude in the limit targets (floating sums are then "
        "exact in any order), negative ones only for up-down counters; the per-series upper bound is not asserted for "
        "signed instruments",
        "a caller that records the attribute set {otel.metrics.overflow=true} itself shares one series with the folded "
        "excess: that series is only checked through the totals, and exactly when the limit is not reached",
        "a delta reader may omit, or send an all-zero point for, a series without measurements in the interval; a "
        "cumulative reader may omit an unchanged series at the instrument level, but every delivered report of the "
        "limit targets must total everything recorded (statement, last sentence)",
        "two views on one instrument are two metric streams, each keyed by its own filtered sets; a second handle of an "
        "identical instrument is the same instrument; timestamps are not compared",
        SC_NOTE,
    ],
    runs=[
        # measurements racing collections under generated schedules (the metrics SDK under the scheduler shim, see harness/c06_sched.cc)
        run("meter-sched", "c08_sched", "meter_sched", "rc", dict(procs=3, cases=15000), dict(procs=6, cases=200000), asan_extra=SCHED_ASAN),
        run("value", "c08_rc", "attr_value", "rc", dict(procs=4, cases=18000), dict(procs=5, cases=200000)),
        run("series", "c08_rc", "instrument_series", "rc", dict(procs=4, cases=12000), dict(procs=4, cases=120000)),
        run("limits", "c08_rc", "storage_limits", "rc", dict(procs=4, cases=12000), dict(procs=4, cases=150000)),
        run("default-limit", "c08_rc", "provider_default_limit", "rc", dict(procs=3, cases=300, max_size=30),
            dict(procs=3, cases=2500, max_size=30)),
        # fixed regression cases of F9/F10/F11: only ever replayed (replays/C08/F*-fixed-case.json)
        run("f9-witness", "c08_rc", "f9_witness", "rc", None, None),
        run("f10-witness", "c08_rc", "f10_witness", "rc", None, None),
        run("f11-witness", "c08_rc", "f11_witness", "rc", None, None),
    ],
)

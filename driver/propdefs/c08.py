from props import *  # noqa: F401,F403

rc_bin("c08_rc", ["harness/c08_series_keys.cc"], lib=True)
PROPS["C08"] = dict(
    level_text="TBD",
    technique="TBD",
    rule="TBD",
    assumptions=[SC_NOTE],
    runs=[
        run("value", "c08_rc", "attr_value", "rc", dict(procs=4, cases=6000), dict(procs=8, cases=60000)),
        run("series", "c08_rc", "instrument_series", "rc", dict(procs=4, cases=4000), dict(procs=8, cases=40000)),
        run("limits", "c08_rc", "storage_limits", "rc", dict(procs=4, cases=4000), dict(procs=8, cases=40000)),
        run("default-limit", "c08_rc", "provider_default_limit", "rc", dict(procs=3, cases=100), dict(procs=6, cases=600), max_size=40),
        run("f9-witness", "c08_rc", "f9_witness", "rc", None, None),
        run("f10-witness", "c08_rc", "f10_witness", "rc", None, None),
        run("f11-witness", "c08_rc", "f11_witness", "rc", None, None),
    ],
)

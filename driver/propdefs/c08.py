from props import *  # noqa: F401,F403

rc_bin("c08_rc", ["harness/c08_series_keys.cc"], lib=True)
PROPS["C08"] = dict(
    level_text="TBD",
    technique="TBD",
    rule="TBD",
    assumptions=[SC_NOTE],
    runs=[
        run("value", "c08_rc", "attr_value", "rc", dict(procs=4, cases=6000), dict(procs=8, cases=60000)),
    ],
)

from props import *  # noqa: F401,F403

# ------------------------------------------------------------------------------------------------
rc_bin("c08_rc", ["harness/c08_series_keys.cc"], lib=True)
PROPS["C08"] = dict(
    level_text="Metamorphic and reference-model property tests (rapidcheck, ASan/UBSan) at three levels: the attribute-set "
               "value (FilteredOrderedAttributeMap built through every constructor / AttributesProcessor::process from "
               "generated key-value lists over all 16 AttributeValue alternatives, re-spelled by stable permutations, "
               "shadowed duplicates, C-string/view spellings and keys handed over as non NUL-terminated views; compared "
               "with a last-wins std::map model filtered by the allow-list, with mutated near-miss sets, and through "
               "AttributesHashMap), the instrument (MeterProvider, one instrument, at most one view with an attribute "
               "filter, 1..2 delta/cumulative readers, Adds in many spellings over several collection cycles: the "
               "reported series are exactly the distinct model maps with exactly their sums) and the storage "
               "(SyncMetricStorage with explicit cardinality limits 2..10 and a MeterProvider with the default 2000: "
               "Records over attribute-set pools larger than the limit, 1..4 collection cycles, 1..2 collectors). "
               "Every explored case agreed with the model. Exploration is the right level: the domain (all attribute "
               "lists x allow-lists x limits x collection histories) is unbounded, the oracle is cheap and exact, and "
               "the defects of this kind sit at key-view boundaries, type-only differences, limit-1/limit/limit+1 and in "
               "the merge of several intervals, which generated search reaches directly.",
    technique="metamorphic relation (permutation / duplicates / spelling of one attribute set) + reference model map "
              "(last wins, exact-key allow-list) + conservation through the overflow series per reader semantics "
              "(delta per interval, cumulative running total); rapidcheck",
    rule="Cases are choice streams decoded into (list A, re-spelling B, mutation C, key layouts, allow-list) or into "
         "(instrument/storage configuration, attribute-set pool, Record/Collect history).",
    assumptions=[
        "{k=0.0} versus {k=-0.0} is an either-way pair at the value level (the statement does not say whether they are "
        "equal maps); the series levels do not generate -0.0; NaN attribute values are not generated",
        "the bool stored with an allow-list key is always true (the meaning of false is not documented)",
        "this SDK version accepts an explicit cardinality limit only as SyncMetricStorage's constructor argument, so "
        "explicit limits are exercised on SyncMetricStorage directly and the provider-level run uses the default 2000",
        "limit semantics: at most `limit` series per report including the overflow series; a report that covers at most "
        "limit-1 distinct sets must be exact and must not contain an overflow series; exactly `limit` distinct sets may "
        "or may not use the overflow series",
        "a set with its own series may still have part of its measurements in the overflow series once several "
        "intervals were merged (asserted as <=); inside one interval a set is never split",
        "measurement values are non-negative whole numbers below 2^51 in the limit targets (floating sums are then "
        "exact in any order); attribute sets equal to {otel.metrics.overflow=true} are not recorded by the caller",
        "a delta reader may omit, or send an all-zero point for, a series without measurements in the interval; a "
        "cumulative reader may omit an unchanged series at the instrument level, but every delivered report of the "
        "limit targets must total everything recorded (statement, last sentence)",
        "one instrument per meter and at most one view per instrument (the C06 findings F7/F8 are not in play); "
        "timestamps are not compared",
        SC_NOTE,
    ],
    runs=[
        run("value", "c08_rc", "attr_value", "rc", dict(procs=4, cases=18000), dict(procs=5, cases=200000)),
        run("series", "c08_rc", "instrument_series", "rc", dict(procs=4, cases=12000), dict(procs=4, cases=120000)),
        run("limits", "c08_rc", "storage_limits", "rc", dict(procs=4, cases=12000), dict(procs=4, cases=150000)),
        run("default-limit", "c08_rc", "provider_default_limit", "rc", dict(procs=3, cases=300, max_size=30),
            dict(procs=3, cases=2500, max_size=30)),
        # fixed regression cases of F9/F10/F11: only ever replayed (replays/C08/F*-fixed-case.json)
        run("f9-witness", "c08_rc", "f9_witness", "rc", None, None),
        run("f10-witness", "c08_rc", "f10_witness", "rc", None, None),
        run("f11-witness", "c08_rc", "f11_witness", "rc", None, None),
    ],
)

from props import *  # noqa: F401,F403

# ------------------------------------------------------------------------------------------------
# The propagator, its helpers, TraceState and Context are header-only (api/include): no SDK library.
rc_bin("c09_rc", ["harness/c09_w3c.cc"], lib=False)
fuzz_bin("c09_fuzz", ["harness/c09_w3c.cc"], lib=False)
PROPS["C09"] = dict(
    level_text="Round-trip and differential property tests over generated span contexts and header bytes "
               "(rapidcheck + libFuzzer, ASan/UBSan): every explored case agreed with a reference encoder and a "
               "three-valued reference parser written from the property statement. Exploration is the right level: "
               "the domain (2^200 contexts x trace states, all byte strings) is far beyond enumeration, the oracle is "
               "cheap and exact, and the defects of such code are single-character grammar/encoding slips that "
               "boundary-biased generation and coverage-guided mutation reach quickly.",
    technique="round trip (Inject->Extract, Extract->Inject; into fresh carriers and into carriers that already hold the "
              "headers of an earlier injection by the same propagator) + reference encoder + differential three-valued "
              "reference parser + an independent reading of every tracestate header the W3C grammar fixes beyond doubt "
              "(OWS around members, empty members), with a harness TextMapCarrier; the public FromHex helpers called "
              "directly; rapidcheck and libFuzzer",
    rule="Cases are choice streams decoded into span contexts (plus the shape of the carrier: fresh or reused after an "
         "earlier injection with an empty / foreign-key / same-key / full trace state) / a valid header plus an edit "
         "script and a tracestate (exact, OWS-padded with empty members, over the limit, garbage, raw) / raw header "
         "bytes / helper calls.",
    assumptions=[
        "a header that is well-formed apart from surrounding SP/HTAB (HTTP optional whitespace) must be extracted "
        "(http_trace_context.h documents the trimming); other surrounding C-locale blanks, upper-case hex digits and "
        "a higher-version tail holding bytes outside 0x21..0x7e are either-accept-or-refuse regions (when accepted, "
        "ids and flags must still be exactly the encoded ones)",
        "'returns the caller's context unchanged' is decided by Context::operator== (same list head) plus identity "
        "of the stored span object",
        "the tracestate grammar itself is C14's subject: here a header that the W3C level-1 grammar reads beyond doubt "
        "(strictly valid members, optionally surrounded by SP/HTAB, empty members in between; no repeated key; members "
        "plus empty members <= 32) must come back as exactly its members in order; any other tracestate bytes must give "
        "what TraceState::FromHeader gives and be well-formed",
        "'injecting ... and extracting those headers' includes a carrier that already holds the headers of an earlier "
        "injection by the same propagator (a reused header map, as C16 does for B3/Jaeger): the context injected LAST "
        "must come back. For an empty trace state on such a carrier the propagator may write no tracestate or overwrite "
        "it with a member-less list (a TextMapCarrier has no erase; W3C: empty tracestate headers MUST be accepted); on a "
        "fresh carrier it must write none. Headers put there by anything but this propagator are not generated",
        "finding C09-stale-tracestate (reused carrier whose earlier injection left a tracestate, new trace state empty: the "
        "old tracestate survived and was extracted with the new ids) is fixed in /repo (70415bd); the shape is generated",
        "TraceIdFromHex / SpanIdFromHex / TraceFlagsFromHex are called directly with hex digits only: every caller in the "
        "repository validates with IsValidHex first, so non-hex bytes are outside their contract (HexToBinary would shift "
        "HexToInt's -1; not reachable through Extract). Over-long input must give the invalid (all-zero) value or a "
        "truncation of the input, never bytes that are not in the input",
        "the reference blank set is isspace() of the C locale (checked at run time: LC_CTYPE must be C/POSIX); passing "
        "header bytes >= 0x80 to isspace as plain char (StringUtil::Trim) is defined by glibc and therefore not observable "
        "here - a portability remark, not decided by this check",
        SC_NOTE,
    ],
    runs=[
        run("inject", "c09_rc", "w3c_inject", "rc", dict(procs=4, cases=15000), dict(procs=4, cases=600000)),
        run("edits", "c09_rc", "w3c_edits", "rc", dict(procs=5, cases=40000), dict(procs=4, cases=2000000)),
        run("helpers", "c09_rc", "w3c_helpers", "rc", dict(procs=1, cases=30000), dict(procs=1, cases=1000000)),
        run("bytes-fuzz", "c09_fuzz", "w3c_bytes", "fuzz", dict(procs=4, cases=200000, max_len=300),
            dict(procs=5, cases=2000000, max_len=600), replay_bin="c09_rc"),
        run("edits-fuzz", "c09_fuzz", "w3c_edits", "fuzz", dict(procs=2, cases=100000, max_len=200),
            dict(procs=2, cases=1000000, max_len=300), replay_bin="c09_rc"),
    ],
)

from props import *  # noqa: F401,F403

# ------------------------------------------------------------------------------------------------
# The propagator, its helpers, TraceState and Context are header-only (api/include): no SDK library.
rc_bin("c09_rc", ["harness/c09_w3c.cc"], lib=False)
fuzz_bin("c09_fuzz", ["harness/c09_w3c.cc"], lib=False)
PROPS["C09"] = dict(
    level_text="Round-trip and differential property tests over generated span contexts and header bytes "
               "(rapidcheck + libFuzzer, ASan/UBSan): every explored case agreed with a reference encoder and a "
               "three-valued reference parser written from the property statement. Exploration is the right level: "
               "the domain (2^200 contexts x trace states, all byte strings) is far beyond enumeration, the oracle is "
               "cheap and exact, and the defects of such code are single-character grammar/encoding slips that "
               "boundary-biased generation and coverage-guided mutation reach quickly.",
    technique="round trip (Inject->Extract, Extract->Inject) + reference encoder + differential three-valued reference "
              "parser with a harness TextMapCarrier; rapidcheck and libFuzzer",
    rule="Cases are choice streams decoded into span contexts / a valid header plus an edit script / raw header bytes.",
    assumptions=[
        "a header that is well-formed apart from surrounding SP/HTAB (HTTP optional whitespace) must be extracted "
        "(http_trace_context.h documents the trimming); other surrounding C-locale blanks, upper-case hex digits and "
        "a higher-version tail holding bytes outside 0x21..0x7e are either-accept-or-refuse regions (when accepted, "
        "ids and flags must still be exactly the encoded ones)",
        "'returns the caller's context unchanged' is decided by Context::operator== (same list head) plus identity "
        "of the stored span object",
        "the tracestate grammar itself is C14's subject: here a strictly valid list must survive verbatim and in "
        "order, any other tracestate bytes must give what TraceState::FromHeader gives and be well-formed",
        SC_NOTE,
    ],
    runs=[
        run("inject", "c09_rc", "w3c_inject", "rc", dict(procs=4, cases=15000), dict(procs=4, cases=600000)),
        run("edits", "c09_rc", "w3c_edits", "rc", dict(procs=5, cases=40000), dict(procs=4, cases=2000000)),
        run("helpers", "c09_rc", "w3c_helpers", "rc", dict(procs=1, cases=30000), dict(procs=1, cases=1000000)),
        run("bytes-fuzz", "c09_fuzz", "w3c_bytes", "fuzz", dict(procs=4, cases=200000, max_len=300),
            dict(procs=5, cases=2000000, max_len=600), replay_bin="c09_rc"),
        run("edits-fuzz", "c09_fuzz", "w3c_edits", "fuzz", dict(procs=2, cases=100000, max_len=200),
            dict(procs=2, cases=1000000, max_len=300), replay_bin="c09_rc"),
    ],
)

from props import *  # noqa: F401,F403

# ------------------------------------------------------------------------------------------------
rc_bin("c06_rc", ["harness/c06_counter_conservation.cc"], lib=True)
# the recorder/collector race once more under ThreadSanitizer (thorough tier only)
rc_bin("c06_sched", ["harness/c06_sched.cc"], lib=False,
       shadow=["api/include/opentelemetry/common/spin_lock_mutex.h"], shadow_globs=METRICS_SHADOW_GLOBS,
       shadow_srcs_globs=METRICS_SHADOW_SRCS_GLOBS, repo_srcs_globs=METRICS_PLAIN_GLOBS)
rc_bin("c06_rc_tsan", ["harness/c06_counter_conservation.cc"], lib=True, san="tsan")
PROPS["C06"] = dict(
    level_text="Stateful model-based property tests (rapidcheck, ASan/UBSan): generated histories of instrument creation "
               "(repeated names give further handles), Add calls with pooled/permuted/repeated-key attribute sets and "
               "Collect calls by 1..3 in-harness readers of generated temporality, over 0..2 views per instrument, are "
               "compared collection by collection with exact per-(stream, attribute set) running totals and with the "
               "interval rules for start/end timestamps; a real-thread variant races recorder threads against collector "
               "threads (ThreadSanitizer build in the thorough tier). Exploration is the right level: histories, reader "
               "configurations and interleavings are unbounded, the model is exact and cheap, and the defects of this "
               "area (fast path vs. multi-reader path, registry keyed by name, lost updates) live in particular "
               "history shapes that breadth of generation reaches.",
    technique="stateful model-based PBT (per-reader conservation model in exact integer units, interval model for "
              "timestamps); rapidcheck; real-thread runs with schedule-independent oracles (sum of deltas == recorded, "
              "final cumulative == recorded, monotonic cumulative never decreases), ThreadSanitizer in the thorough tier",
    rule="A case = provider configuration (readers, temporalities, meters, instruments, views) + a program of "
         "Create/Add/Collect/Destroy operations (or thread programs).",
    assumptions=[
        "values are bounded (|v| <= 2^40 for long, multiples of 2^-10 below 2^30 for double) so that no sum overflows or "
        "rounds; negative values are only given to up-down counters (the API documents counters as non-negative)",
        "either-regions: a series whose running total is 0 may be reported as 0 or be absent; a delta collection "
        "without new data may deliver nothing, a MetricData without points, or zero-valued points; a delta interval may "
        "start at the end of the previous delivered interval or inside one of the reader's own Collect calls since "
        "then that delivered nothing for the stream; several MetricData of one stream in one collection are summed",
        "timestamp order against the harness's own stamps (interval contains its measurements, end >= start) is skipped "
        "for a case in which the system clock was observed stepping backwards; equalities (cumulative start == SDK "
        "start, delta start == previous end) are always checked",
        "the two views of one instrument always produce differently named streams, and a name is always re-created "
        "with the same kind/unit/description (identical instrument): conflicting registrations are not part of the "
        "statement",
        "not asserted here (owned by C08/C19): which of two different values of a repeated key wins (a repeated key "
        "carries the same value), non NUL-terminated keys against an allow-list (keys are NUL terminated), name "
        "validation",
        "counter_threads: the schedule is whatever the OS produces; the oracles hold under every schedule, so a "
        "failure is a real violation under some schedule but a replay may need several attempts",
        SC_NOTE,
    ],
    runs=[
        run("history", "c06_rc", "counter_history", "rc", dict(procs=8, cases=20000), dict(procs=16, cases=120000)),
        run("threads", "c06_rc", "counter_threads", "rc", dict(procs=4, cases=3000), dict(procs=6, cases=25000),
            deterministic=False),
        run("threads-tsan", "c06_rc_tsan", "counter_threads", "rc", None, dict(procs=4, cases=12000),
            deterministic=False),
        run("meter-sched", "c06_sched", "meter_sched", "rc", dict(procs=4, cases=30000), dict(procs=8, cases=400000), asan_extra=SCHED_ASAN),
        # fixed cases: only ever replayed (replays/C06/*.json, known/C06/*.json); no search budget
        run("f7-witness", "c06_rc", "f7_witness", "rc", None, None),
        run("f8-handle-witness", "c06_rc", "f8_handle_witness", "rc", None, None),
        run("f8-views-witness", "c06_rc", "f8_views_witness", "rc", None, None),
        run("f8-witness", "c06_rc", "f8_witness", "rc", None, None),
    ],
)

from props import *  # noqa: F401,F403

# ------------------------------------------------------------------------------------------------
rc_bin("c06_rc", ["harness/c06_counter_conservation.cc"], lib=True)
# the recorder/collector race once more under ThreadSanitizer (thorough tier only)
rc_bin("c06_sched", ["harness/c06_sched.cc"], lib=False,
       shadow=["api/include/opentelemetry/common/spin_lock_mutex.h"], shadow_globs=METRICS_SHADOW_GLOBS,
       shadow_srcs_globs=METRICS_SHADOW_SRCS_GLOBS, repo_srcs_globs=METRICS_PLAIN_GLOBS)
rc_bin("c06_rc_tsan", ["harness/c06_counter_conservation.cc"], lib=True, san="tsan")
PROPS["C06"] = dict(
    level_text="Stateful model-based property tests (rapidcheck, ASan/UBSan): generated histories of instrument creation "
               "(repeated names give further handles), Add calls (all eight overloads of the API header) with "
               "pooled/permuted/repeated-key attribute sets, Collect calls by 1..4 in-harness readers of generated "
               "temporality - readers may be registered late, after instruments, measurements and collections exist - "
               "and handle destruction, over 0..3 views per instrument (for all meters or one meter) plus type-wide "
               "wildcard views, are compared collection by collection with exact per-(stream, attribute set) running "
               "totals and with the interval rules for start/end timestamps; a real-thread variant races recorder "
               "threads (which also create instruments/meters and release handles) against collector threads "
               "(ThreadSanitizer build in the thorough tier); a schedule-controlled variant (the metrics SDK compiled "
               "against the scheduler shim) generates the interleaving itself. Exploration is the right level: "
               "histories, reader configurations and interleavings are unbounded, the model is exact and cheap, and the "
               "defects of this area (fast path vs. multi-reader path, registry keyed by name, lost updates) live in "
               "particular history shapes that breadth of generation reaches.",
    technique="stateful model-based PBT (per-reader conservation model in exact integer units, interval model for "
              "timestamps); rapidcheck; real-thread runs with schedule-independent oracles (sum of deltas == recorded, "
              "final cumulative == recorded, monotonic cumulative never decreases), ThreadSanitizer in the thorough tier; "
              "schedule-controlled runs (E-SCHED) whose oracle uses logical stamps to decide what a collection must / "
              "may contain",
    rule="A case = provider configuration (readers, temporalities, meters, instruments, views) + a program of "
         "Create/Add/Collect/Destroy/AddReader operations (or thread programs, or thread programs + a schedule).",
    generators="counter_history: 1..3 initial readers (D/C/mixed), 1..2 meters, 1..3 instruments x 4 kinds (twins: same "
               "name, other value type / unit), 0..3 own views (rename, allow-list {k0}/{k0,k1}/{}, Sum/Default, "
               "all meters / m0 / m1) + optional '*' view per instrument type; ops Add 50% (8 overload forms, value "
               "classes 1..9 / 0 / <60000 / 2^40 / 2^40-1 / 40 random bits, negative for up-down), Collect 29%, Create "
               "12%, Destroy 6%, AddReader 4% (up to 4 readers). counter_threads: same configuration; 25% of the "
               "instruments and 40% of the second meters are first created by the recorder threads; 20% of the steps "
               "use a thread-own handle, 40% of those release it right after the step. meter_sched: see harness/c06_sched.cc "
               "(late reader 40%, view with empty allow-list 20%, second meter obtained by a recorder 20%, handle "
               "renewal 25% per Add of an own handle).",
    oracle="reference model written from the statement: exact running totals per (stream, attribute set after the "
           "view's allow-list); delta == total now - total at the reader's previous collection; cumulative == total; "
           "stream set == views whose selectors match (else the default stream), at most one MetricData per stream and "
           "collection; cumulative start == SDK start, delta start == previous end (first: SDK start), interval end "
           "inside the Collect call, interval contains its measurements. Late readers: two-sided (one admissible "
           "starting point must explain the first collection, exact afterwards).",
    assumptions=[
        "a Counter<uint64_t> increment above INT64_MAX cannot be represented in the int64 sum point: the SDK refuses it with a warning; such increments are generated through every Add overload and the model ignores them - whatever the SDK does with one, the totals of the representable measurements must stay exact; readers may be registered with a MetricFilter that accepts everything (kAccept, or kAcceptPartial + every attribute set accepted for all-cumulative readers), which must be invisible; "
        "the representable values are bounded (|v| <= 2^40 for long, multiples of 2^-10 below 2^30 for double) so that no sum overflows or "
        "rounds; negative values are only given to up-down counters (the API documents counters as non-negative)",
        "either-regions: a series whose running total is 0 may be reported as 0 or be absent; a delta collection "
        "without new data may deliver nothing, a MetricData without points, or zero-valued points; a delta interval starts "
        "exactly at the end of the previous interval delivered to that reader (the first at SDK start): a Collect call "
        "that delivered nothing for the stream does not move the start (an earlier either-region here hid seeded C06-m8)",
        "the streams of a configuration differ pairwise in scope / name / value type / unit, so one stream is at most one "
        "MetricData per collection: more than one is reported as a violation (two interval chains for one stream "
        "cannot both abut)",
        "a reader registered with AddMetricReader after a stream had measurements 'may not receive any in-flight meter "
        "data' (meter_provider.h): what it counts from is SDK start, or a collection of any reader before the "
        "registration, or the registration - one such point for all attribute sets of the stream, fixed by its first "
        "collection; its first delta interval may start anywhere in [SDK start, its end]; cumulative points of a late "
        "reader still start at SDK start (statement). AddMetricReader is documented as not thread safe: it is never "
        "called while a Collect call is in progress (meter_sched calls it while recorder threads run, which involves "
        "no shared state)",
        "the interval end lies inside the Collect call [stamp before, stamp after] (derived from 'each measurement falls "
        "in exactly one interval' + 'each starts where the previous one ended' for measurements recorded right before "
        "and right after the call)",
        "timestamp order against the harness's own stamps (interval contains its measurements, end >= start, end inside "
        "the call) is skipped for a case in which the system clock was observed stepping backwards; equalities "
        "(cumulative start == SDK start, delta start == previous end) are always checked",
        "the views of one instrument always produce differently named streams (a '*' view keeps the instrument name, "
        "the own views of the instruments it matches then all rename), and a name is always re-created with the same "
        "kind/unit/description (identical instrument): conflicting registrations are not part of the statement",
        "not asserted here (owned by C08/C19): which of two different values of a repeated key wins (a repeated key "
        "carries the same value), name validation, the selection semantics of view patterns beyond exact name / '*' / "
        "exact meter name",
        "counter_threads: the schedule is whatever the OS produces; the oracles hold under every schedule, so a "
        "failure is a real violation under some schedule but a replay may need several attempts",
        SC_NOTE,
    ],
    runs=[
        run("history", "c06_rc", "counter_history", "rc", dict(procs=8, cases=20000), dict(procs=16, cases=120000)),
        run("threads", "c06_rc", "counter_threads", "rc", dict(procs=4, cases=3000), dict(procs=6, cases=25000),
            deterministic=False),
        run("threads-tsan", "c06_rc_tsan", "counter_threads", "rc", None, dict(procs=4, cases=12000),
            deterministic=False),
        run("meter-sched", "c06_sched", "meter_sched", "rc", dict(procs=4, cases=30000), dict(procs=8, cases=400000), asan_extra=SCHED_ASAN),
        # fixed cases: only ever replayed (replays/C06/*.json, known/C06/*.json); no search budget
        run("sum-limits", "c06_rc", "sum_limits", "rc", dict(procs=2, cases=8000), dict(procs=2, cases=300000)),
        run("f7-witness", "c06_rc", "f7_witness", "rc", None, None),
        run("f8-handle-witness", "c06_rc", "f8_handle_witness", "rc", None, None),
        run("f8-views-witness", "c06_rc", "f8_views_witness", "rc", None, None),
        run("f8-witness", "c06_rc", "f8_witness", "rc", None, None),
    ],
)

from props import *  # noqa: F401,F403

# ------------------------------------------------------------------------------------------------
# Baseline configuration (ABI v1, what /repo/_build uses): observable instruments end to end, the
# synchronous-gauge clause at the storage level (Meter::Create*Gauge is compiled out in ABI v1).
rc_bin("c17_rc", ["harness/c17_observables_gauges.cc"], lib=True)
rc_bin("c17_race", ["harness/c17_race.cc"], lib=True)
rc_bin("c17_race_tsan", ["harness/c17_race.cc"], lib=True, san="tsan")
# Thorough tier only: the same harness and a second sanitizer build of the SDK compiled with
# -DOPENTELEMETRY_ABI_VERSION_NO=2, which adds the end-to-end synchronous-gauge target.
rc_bin("c17_rc_abi2", ["harness/c17_observables_gauges.cc"], lib=True, abi=2)
PROPS["C17"] = dict(
    level_text="Stateful model-based property tests (rapidcheck, ASan/UBSan): generated histories of AddCallback / "
               "RemoveCallback (also of near-miss triples that are not registered) / instrument destruction and creation / "
               "edits of the totals a (callback,state) pair reports (sets appearing, disappearing, reappearing; monotone "
               "and non-monotone) / Collect(reader i) over a MeterProvider with 1..3 in-harness readers of mixed "
               "temporality and 1..2 meters are compared with invocation counters and a per-(reader, instrument, "
               "attribute set) reference model. The synchronous-gauge clause is decided on SyncMetricStorage(kGauge, "
               "last value) behind the MetricCollectors of a MeterContext in the baseline ABI v1 build and, in the "
               "thorough tier, end to end through Meter::Create*Gauge with a second SDK build at ABI v2; the evidence "
               "classes 'sync-gauge:storage-level' / 'sync-gauge:end-to-end(abi2)' and 'build:abi1' / 'build:abi2' say "
               "which ran. Exploration is the right level: histories and reader configurations are unbounded.",
    technique="stateful model-based PBT (invocation counters + per-reader total model) over generated callback/collect "
              "histories; rapidcheck",
    rule="A case = reader/meter configuration + operation history.",
    assumptions=[
        "callbacks of one instrument report disjoint attribute sets at every observation and a (callback,state) pair is "
        "registered at most once at a time on one instrument (the code documents no merge rule for overlaps)",
        "a point for an attribute set that is not part of the current observation may be omitted; when it is delivered it "
        "must carry the last reported total (cumulative), the difference to what that reader was given (delta) or the "
        "latest value (gauge); a zero delta may be omitted",
        "totals of monotonic observable counters are non-negative; sum totals are bounded by 2^41 and doubles are "
        "multiples of 1/8, so model arithmetic is exact",
        "two samples with the same system_clock timestamp are not generated (the SDK reads the clock itself); a case in "
        "which the clock does not strictly advance between two steps is abandoned without a verdict (class clock-anomaly)",
        "synchronous gauge: a reader configured cumulative is expected to receive every attribute set ever recorded, a "
        "reader configured delta at least the sets recorded since its previous Collect",
        SC_NOTE,
    ],
    runs=[
        run("remove-race", "c17_race", "obs_remove_race", "rc", dict(procs=2, cases=150), dict(procs=4, cases=3000), deterministic=False),
        run("remove-race-tsan", "c17_race_tsan", "obs_remove_race", "rc", dict(procs=2, cases=100), dict(procs=4, cases=2000), deterministic=False, replay_bin="c17_race_tsan"),
        run("observables", "c17_rc", "obs_model", "rc", dict(procs=10, cases=12000), dict(procs=16, cases=120000)),
        run("sync-gauge-storage", "c17_rc", "sync_gauge_storage", "rc", dict(procs=4, cases=15000),
            dict(procs=8, cases=120000)),
        run("sync-gauge-e2e-abi2", "c17_rc_abi2", "sync_gauge_e2e", "rc", None, dict(procs=8, cases=100000)),
        run("observables-abi2", "c17_rc_abi2", "obs_model", "rc", None, dict(procs=6, cases=60000)),
    ],
)

from props import *  # noqa: F401,F403

# ------------------------------------------------------------------------------------------------
# Baseline configuration (ABI v1, what /repo/_build uses): observable instruments end to end, the
# synchronous-gauge clause at the storage level (Meter::Create*Gauge is compiled out in ABI v1).
rc_bin("c17_rc", ["harness/c17_observables_gauges.cc"], lib=True)
rc_bin("c17_race", ["harness/c17_race.cc"], lib=True)
rc_bin("c17_sched", ["harness/c17_sched.cc"], lib=False,
       shadow=["api/include/opentelemetry/common/spin_lock_mutex.h"], shadow_globs=METRICS_SHADOW_GLOBS,
       shadow_srcs_globs=METRICS_SHADOW_SRCS_GLOBS, repo_srcs_globs=METRICS_PLAIN_GLOBS)
rc_bin("c17_race_tsan", ["harness/c17_race.cc"], lib=True, san="tsan")
# Thorough tier only: the same harness and a second sanitizer build of the SDK compiled with
# -DOPENTELEMETRY_ABI_VERSION_NO=2, which adds the end-to-end synchronous-gauge target.
rc_bin("c17_rc_abi2", ["harness/c17_observables_gauges.cc"], lib=True, abi=2)
# ASan without quarantine (see driver/propdefs/c13.py): a freed block is handed out again at once
NOQUARANTINE = dict(ASAN_OPTIONS="detect_leaks=1:abort_on_error=0:allocator_may_return_null=1:"
                    "detect_stack_use_after_return=1:symbolize=1:handle_abort=0:malloc_context_size=6:exitcode=99:"
                    "strict_string_checks=1:quarantine_size_mb=0:thread_local_quarantine_size_kb=0")
PROPS["C17"] = dict(
    level_text="Stateful model-based property tests (rapidcheck, ASan/UBSan): generated histories of AddCallback / "
               "RemoveCallback (also of near-miss triples that are not registered) / instrument destruction and creation "
               "(plain, behind a view that renames the stream or names the aggregation, behind two views = two streams, or "
               "as a further handle for an instrument name used before - second live handle / re-creation after destruction) / "
               "edits of the totals a (callback,state) pair reports (sets appearing, disappearing, reappearing; monotone "
               "and non-monotone) / Collect(reader i) over a MeterProvider with 1..3 in-harness readers of mixed "
               "temporality and 1..2 meters are compared with invocation counters and a per-(reader, stream, handle, "
               "attribute set) reference model. The synchronous-gauge clause is decided on SyncMetricStorage(kGauge, "
               "last value, optionally behind an attribute allow-list that collapses recorded sets) behind the "
               "MetricCollectors of a MeterContext or behind collector handles that keep the configured temporality (the "
               "SDK's MetricCollector collects synchronous gauges cumulatively; class 'collectors:*' says which ran) in the "
               "baseline ABI v1 build and, in the thorough tier, end to end through Meter::Create*Gauge with a second SDK "
               "build at ABI v2; the evidence classes 'sync-gauge:storage-level' / 'sync-gauge:end-to-end(abi2)' and "
               "'build:abi1' / 'build:abi2' say which ran. Two real-thread targets (ASan and TSan builds) race "
               "RemoveCallback / instrument destruction against a collection, and let 2..3 readers collect concurrently. "
               "Exploration is the right level: histories and reader configurations are unbounded.",
    technique="stateful model-based PBT (invocation counters + per-reader total model) over generated callback/collect "
              "histories; rapidcheck; real threads for the two race targets",
    rule="A case = reader/meter configuration + operation history.",
    generators="observables-reuse: the obs_model histories once more with ASan's quarantine off (a destroyed instrument's address is reused at once). obs_model: 1..3 readers (all cumulative | all delta | delta except up-down | cumulative counters only), 1..2 "
               "meters, up to 5 instrument handles: kind counter/up-down/gauge x long/double, shape plain | view renames the "
               "stream | view names the default aggregation explicitly | two views (two streams) | further handle for an "
               "earlier name (names whose handles are all destroyed 3x as likely). 2 callback functions x 3 state indices; "
               "state index 2 uses a state object per (state, instrument) so an invocation identifies its registration, "
               "indices 0/1 share one object so the same (callback,state) pair can sit on two instruments. Ops: Collect(reader), "
               "edit script (bump all / set or replace one set's total / drop a set / clear), AddCallback, RemoveCallback, "
               "RemoveCallback of a near-miss triple (other function / other state / other instrument), destroy, create. "
               "Values: small, +-increments, 2^40 region, negatives (not for counters), gauge extremes and a decoy value observed "
               "first. AddCallback of a triple that is registered already is generated (finding C17-double-registration, fixed in /repo "
               "682a6ea). "
               "sync_gauge_*: 1..3 readers, 1..2 gauges long/double, aggregation default | last value, allow-list none | {k} | {n}, "
               "MetricCollectors | handles-as-configured (storage level), Record forms with/without attributes and context. "
               "obs_concurrent_collect: 2..3 readers C/D, 1..2 callbacks whose total grows by one per invocation, 2..5 rounds of "
               "10..59 Collects per reader thread.",
    oracle="per Collect: every shared-state (callback,state) pair invoked exactly as often as it is registered on long / double "
           "instruments, every own-state registration exactly once for its instrument and with its value type (a triple added k "
           "times: 1..k), nothing that is not registered; per stream and handle: cumulative reader / gauge: a point for every "
           "set observed now, every delivered point == last reported total / latest value, a value observed during another "
           "reader's collection is still owed; delta reader: point == total - what that reader was given (zero may be omitted), "
           "owed differences likewise; at most one MetricData per handle and stream name, no point for a set no handle of the "
           "name reported, no set twice, right scope / point type / value type, last-value points flagged valid; two streams of "
           "one instrument each follow the model on their own. Sync gauge: every (filtered) set recorded since the reader's "
           "previous Collect is delivered (cumulative: every set ever), each delivered point == latest Record of all spellings of "
           "that set. Race targets: no invocation after RemoveCallback / destruction returned; concurrent collections: number of "
           "invocations == number of Collects, the total a reader holds after a Collect (value / sum of its deltas) lies between "
           "the total before the call + 1 and the total at return, and equals the reported total in a sequential closing round.",
    assumptions=[
        "callbacks of one instrument - of all handles created for one instrument name, over the whole history - report "
        "disjoint attribute sets at every observation (the code documents no merge rule for overlaps), and one (callback,state) "
        "pair is not registered on two handles of one name",
        "AddCallback of a (callback, state, instrument) triple that is registered already (finding C17-double-registration, "
        "fixed in /repo 682a6ea): 1..k invocations are accepted for k AddCalls and RemoveCallback is repeated k times, the "
        "delivered values are decided exactly",
        "views on observable instruments only rename the stream or name the aggregation the instrument kind has by default "
        "(sum / last value); attribute allow-lists on observable instruments are not generated (open finding "
        "C19-ASYNC-VIEW-FILTER of property C19); several handles of one name may deliver up to one MetricData each",
        "a point for an attribute set that is not part of the current observation may be omitted; when it is delivered it "
        "must carry the last reported total (cumulative), the difference to what that reader was given (delta) or the "
        "latest value (gauge); a zero delta may be omitted",
        "totals of monotonic observable counters are non-negative; sum totals are bounded by 2^41 and doubles are "
        "multiples of 1/8, so model arithmetic is exact",
        "two samples with the same system_clock timestamp are not generated (the SDK reads the clock itself); a case in "
        "which the clock does not strictly advance between two steps is abandoned without a verdict (class clock-anomaly); "
        "a backward step of the system clock that falls exactly between a harness clock read and the SDK's own read is "
        "assumed not to happen",
        "synchronous gauge: a reader configured cumulative is expected to receive every attribute set ever recorded, a "
        "reader configured delta at least the sets recorded since its previous Collect - whether it really collects delta "
        "(class check-syncgauge-true-delta-reader) or the SDK's MetricCollector made it cumulative (class "
        "check-syncgauge-delta-configured-reader(sdk-collects-cumulative)); behind an allow-list the attribute set of a "
        "Record is the filtered one",
        "concurrent collections (obs_concurrent_collect) lie outside the property's quantifier (histories, configurations); "
        "only schedule-independent consequences of the statement are asserted there",
        SC_NOTE,
    ],
    runs=[
        run("obs-sched", "c17_sched", "obs_sched", "rc", dict(procs=4, cases=20000), dict(procs=8, cases=300000), asan_extra=SCHED_ASAN),
        run("remove-race", "c17_race", "obs_remove_race", "rc", dict(procs=2, cases=150), dict(procs=4, cases=3000), deterministic=False),
        run("remove-race-tsan", "c17_race_tsan", "obs_remove_race", "rc", dict(procs=2, cases=100), dict(procs=4, cases=2000), deterministic=False, replay_bin="c17_race_tsan"),
        run("concurrent-collect", "c17_race", "obs_concurrent_collect", "rc", dict(procs=2, cases=80), dict(procs=4, cases=2000), deterministic=False),
        run("concurrent-collect-tsan", "c17_race_tsan", "obs_concurrent_collect", "rc", dict(procs=2, cases=80), dict(procs=4, cases=2000), deterministic=False, replay_bin="c17_race_tsan"),
        run("observables", "c17_rc", "obs_model", "rc", dict(procs=10, cases=12000), dict(procs=16, cases=120000)),
        # the same histories with ASan's quarantine switched off: a destroyed instrument's address is handed out again by
        # the next allocation of its size class, so "instrument A destroyed, instrument B created" puts B at A's address
        # and anything the registry keys on an instrument address goes stale (seeded C17-m11)
        run("observables-reuse", "c17_rc", "obs_model", "rc", dict(procs=3, cases=12000), dict(procs=4, cases=60000),
            env=NOQUARANTINE),
        run("sync-gauge-storage", "c17_rc", "sync_gauge_storage", "rc", dict(procs=4, cases=15000),
            dict(procs=8, cases=120000)),
        run("sync-gauge-e2e-abi2", "c17_rc_abi2", "sync_gauge_e2e", "rc", None, dict(procs=8, cases=100000)),
        run("observables-abi2", "c17_rc_abi2", "obs_model", "rc", None, dict(procs=6, cases=60000)),
    ],
)

from props import *  # noqa: F401,F403

# ------------------------------------------------------------------------------------------------
rc_bin("c20_rc", ["harness/c20_nostd.cc"], lib=False)
PROPS["C20"] = dict(
    level_text="Lock-step differential property tests (rapidcheck, ASan/UBSan, asserts on): one generated program of "
               "operations from the shared interface is applied to the nostd type and to its std counterpart (slice "
               "model for span, directly invoked twin for function_ref) and every observable result is compared after "
               "every step; pointees are instance counted. Exploration is the right level: the domain (all operation "
               "sequences over all byte strings / ownership graphs) is unbounded and the oracle is the std library itself.",
    technique="lock-step differential PBT against std:: (string_view, unique_ptr, shared_ptr, variant), slice model "
              "(span) and direct invocation (function_ref); instance counting; rapidcheck",
    rule="Cases are choice streams decoded into operation programs that are run on both sides.",
    assumptions=[
        "configuration under test is WITH_STL=OFF (nostd internal implementations; variant = absl-internal copy); "
        "the harness refuses to build otherwise",
        "only what this version of the headers offers is compared; operations std leaves undefined (out-of-range "
        "index, reset(get()), dereferencing null, self-move of a variant, static-extent size mismatch) are never generated",
        "operator<< is compared on streams in their default formatting state",
        "variant converting construction/assignment is compared only for argument types on which the C++17 rule "
        "and the later P0608 rule select the same alternative",
        "reference-side workaround: libstdc++ 12's variant::swap with exactly one valueless operand leaves both "
        "operands holding the value (contrary to [variant.swap]); for that shape only, the std side performs the "
        "exchange with three moves",
        "after a throwing emplace std may keep the old value for never-valueless alternatives; the throwing "
        "alternative used here is not one of them, so both sides must become valueless",
        SC_NOTE,
    ],
    runs=[
        run("sv", "c20_rc", "sv_ops", "rc", dict(procs=3, cases=30000), dict(procs=3, cases=300000)),
        run("span", "c20_rc", "span_ops", "rc", dict(procs=2, cases=20000), dict(procs=2, cases=200000)),
        run("uptr", "c20_rc", "uptr_ops", "rc", dict(procs=2, cases=25000), dict(procs=2, cases=200000)),
        run("sptr", "c20_rc", "sptr_ops", "rc", dict(procs=4, cases=20000), dict(procs=4, cases=200000)),
        run("fref", "c20_rc", "fref_ops", "rc", dict(procs=1, cases=15000), dict(procs=1, cases=150000)),
        run("variant", "c20_rc", "var_ops", "rc", dict(procs=4, cases=20000), dict(procs=4, cases=100000)),
    ],
)

from props import *  # noqa: F401,F403

# ------------------------------------------------------------------------------------------------
rc_bin("c20_rc", ["harness/c20_nostd.cc"], lib=False)
PROPS["C20"] = dict(
    level_text="Lock-step differential property tests (rapidcheck, ASan/UBSan, asserts on): one generated program of "
               "operations from the shared interface is applied to the nostd type and to its std counterpart (slice "
               "model for span, directly invoked twin for function_ref) and every observable result is compared after "
               "every step; pointees are instance counted. Exploration is the right level: the domain (all operation "
               "sequences over all byte strings / ownership graphs) is unbounded and the oracle is the std library itself.",
    technique="lock-step differential PBT against std:: (string_view, unique_ptr, shared_ptr, variant), slice model "
              "(span) and direct invocation (function_ref); instance counting; rapidcheck",
    rule="Cases are choice streams decoded into operation programs that are run on both sides.",
    generators="sv: 1-3 exact-size buffers over a 10-byte alphabet (NUL, 0x7f/0x80/0xff), 4 view slots, 1-16 operations "
               "(slice, from std::string / C string, compare 5 overloads, relational incl. mixed operands, find, substr, hash, "
               "operator<<) with positions/counts at, around and far beyond the end. span: 3 backing regions, 3 dynamic slots, "
               "constructors from (ptr,count) (first,last) vector C-array std::array, copy, read/write, static extents 0-4 "
               "(incl. span<const T>(span<T,N>)), slices rebuilt from data()+offset (this header version has no "
               "first/last/subspan). uptr: 4 base slots, 2+1 derived slots (single base at offset 0 / second polymorphic "
               "base at a non-zero offset), array slot, a std::unique_ptr, 2 owning chains of nodes, 1-24 operations: make, "
               "reset, =nullptr, move (incl. self), swap (incl. self), release, derived-to-base conversions, from/to "
               "std::unique_ptr, array forms, list push/pop/pop-second/splice, ownership cycles (object owning itself, two "
               "objects owning each other, closed chain) opened by release() or "
               "destroyed through one of their own links, and pointees that look at / reset their owner from their "
               "destructor. sptr: 4 slots + derived slots (offset 0 / non-zero offset) + const slot + "
               "2 std::shared_ptr co-owners, copy/move/swap (incl. self), =nullptr, conversions, from unique_ptr, link / "
               "advance (copy, move, through =nullptr) / unlink, ownership cycles destroyed through one of their own links "
               "(=nullptr, =move(empty), swap(empty), =move(new), link moved out). fref: 12 callables (function, pointer, "
               "functors, lambdas, functions of convertible-but-different signature, noexcept pointer, another function_ref "
               "of a different signature), bind / copy / call / pass by value. variant: 3 x variant<monostate,int,string,"
               "Tracked,double>, 2 x variant<int,string,int>, 2 x a 16-alternative variant with AttributeValue's arithmetic / "
               "pointer / view alternatives and comparable placeholders at the span positions, 1 x exactly AttributeValue's "
               "alternative list; emplace / converting construction and assignment from 20 (+21 for the AttributeValue list: "
               "containers -> span alternatives) argument types, copy / move / swap, get / get_if by index and type over all "
               "16 indices, unary and binary visit (6x4 through the unrolled switch, 17x4 and 6x6 through the matrix), "
               "relational operators, throwing construction / copy (valueless state).",
    oracle="the std type run in lock-step on the same program (string_view, unique_ptr, shared_ptr, variant), an "
           "index-checked (pointer,length) slice model (span), a directly invoked twin of every callable (function_ref); the "
           "complete observable state of both sides is rendered to text after every step and must be identical; pointees "
           "are instance counted (live set, constructions, destructions, double destruction, destructor re-entered for the "
           "same object) and every managed object must be destroyed exactly once by the end of the case. Hashing: equal "
           "views hash equal, unordered_set insertion parity, and two views hash alike exactly when they do with "
           "std::hash<std::string_view> (pairs of slots and close neighbours: one byte shorter, one NUL longer, last byte / "
           "first byte behind an embedded NUL changed). For the 16-alternative variants the alternative the reference "
           "selects is additionally checked against a table (harness self-check of the 'both rules agree' assumption).",
    assumptions=[
        "configuration under test is WITH_STL=OFF (nostd internal implementations; variant = absl-internal copy); "
        "the harness refuses to build otherwise",
        "only what this version of the headers offers is compared; operations std leaves undefined (out-of-range "
        "index, reset(get()), dereferencing null, self-move of a variant, static-extent size mismatch) are never generated",
        "operator<< is compared on streams in their default formatting state",
        "span: this version of nostd/span.h offers no first()/last()/subspan() (detection idiom, tag "
        "subviews-not-offered:*), so the 'subspans' clause is decided on slices rebuilt from the span's own "
        "data()/begin()/end()/size(); constructors the header does not offer (span<const T> from std::array<T,N>, "
        "static extent from a container of another size) are not compared",
        "string_view hash: the hash VALUES are not compared with std's; compared is the collision pattern (two views hash "
        "alike iff they do with std::hash<std::string_view>) on pairs of slots and on close neighbours of a view - with a "
        "64-bit size_t an accidental collision of a sound hash is not expected within any feasible budget",
        "unique_ptr/shared_ptr ownership cycles: only forms that are well defined for the reference are generated - a "
        "link of a cycle is given up by reset()/=nullptr/move assignment/swap/release, never by COPY assignment of a "
        "shared_ptr (libstdc++'s copy assignment releases the old control block before it stores the new one); pointees "
        "observe their owner only during reset / assignment, never during the owner's destructor",
        "finding C20-uptr-reset-order (nostd::unique_ptr::reset deleted before it stored the new pointer) is fixed in /repo "
        "(73d00ce); its shapes - an ownership cycle destroyed through a nostd::unique_ptr member of one of its objects, pointees "
        "whose destructor looks at or resets the unique_ptr that manages them - are generated",
        "function_ref: a noexcept FUNCTION (not pointer) cannot be bound in C++17 at all (does not compile), so only the "
        "noexcept function pointer is exercised; a function_ref bound to a temporary function_ref is not generated "
        "(dangling by design: function_ref does not own)",
        "variant converting construction/assignment is compared only for argument types on which the C++17 rule "
        "and the later P0608/P1957 rule select the same alternative (bool, char, short, int, unsigned, long, unsigned "
        "long, float, double, char array, const char*, string_view, std::string, exact alternative types, std::vector<T> / "
        "span<T> for the span alternatives; NOT: long long, raw arrays of non-char (decay to pointer -> bool under the "
        "C++17 rule), const char* into a variant without a pointer alternative)",
        "reference-side workaround: libstdc++ 12's variant::swap with exactly one valueless operand leaves both "
        "operands holding the value (contrary to [variant.swap]); for that shape only, the std side performs the "
        "exchange with three moves",
        "after a throwing emplace std may keep the old value for never-valueless alternatives; the throwing "
        "alternative used here is not one of them, so both sides must become valueless",
        SC_NOTE,
    ],
    runs=[
        run("sv", "c20_rc", "sv_ops", "rc", dict(procs=3, cases=30000), dict(procs=3, cases=300000)),
        run("span", "c20_rc", "span_ops", "rc", dict(procs=2, cases=20000), dict(procs=2, cases=200000)),
        run("uptr", "c20_rc", "uptr_ops", "rc", dict(procs=2, cases=25000), dict(procs=2, cases=200000)),
        run("sptr", "c20_rc", "sptr_ops", "rc", dict(procs=4, cases=20000), dict(procs=4, cases=200000)),
        run("fref", "c20_rc", "fref_ops", "rc", dict(procs=1, cases=15000), dict(procs=1, cases=150000)),
        run("variant", "c20_rc", "var_ops", "rc", dict(procs=4, cases=20000), dict(procs=4, cases=100000)),
    ],
)

from props import *  # noqa: F401,F403

# ------------------------------------------------------------------------------------------------
# C16  B3 (single / multi header) and Jaeger propagation.  The propagators are header-only API code:
# no SDK library is linked; in the fuzz binary the headers are coverage-instrumented with the harness.
rc_bin("c16_rc", ["harness/c16_b3_jaeger.cc"], lib=False)
fuzz_bin("c16_fuzz", ["harness/c16_b3_jaeger.cc"], lib=False)
PROPS["C16"] = dict(
    level_text="Round-trip and differential property tests (rapidcheck + libFuzzer, ASan/UBSan): every generated span "
               "context x flags byte was injected and extracted through the three propagators, and every generated / "
               "mutated header was compared with reference extractors written from the B3 and Jaeger documents. "
               "Exploration is the right level: ids x flags x header byte strings is unbounded, the oracle is cheap, and "
               "the defects of this kind sit in particular flag bytes and malformed spellings that breadth reaches.",
    technique="inject->extract round trip + strict reference reader on the injected carrier + two-sided differential "
              "reference extractors on structured and raw header bytes (headers present / empty / absent, blank-padded "
              "values, X-B3-Flags next to the multi headers) + direct calls of the public FromHex helpers against the "
              "same reference; rapidcheck and libFuzzer",
    rule="Cases are choice streams decoded into (span context, flags byte, carrier state) or header strings; the raw "
         "targets take the stream as the header bytes.",
    assumptions=[
        "B3 reference: openzipkin/b3-propagation (ids 16/32 resp. 16 lower-hex, sampling 0/1/d, optional parent id); "
        "Jaeger reference: the client-library 'Propagation format' (variable-length ids 0-padded on the left, flags one "
        "byte as 1-2 hex digits) plus the repository's own jaeger test (upper-case ids accepted)",
        "spellings those documents do not oblige a reader to accept (short / odd-length / upper-case B3 ids, over-long "
        "ids that only add leading zeros, sampling values other than 0/1/d, empty or extra fields, 3-field Jaeger "
        "values, Jaeger debug-without-sampled, non-hex or 3+ digit Jaeger flags) may either install the context the "
        "reference derives or return the caller's context",
        "a malformed or gray b3 header next to usable X-B3-* headers may be rejected, or fall back to the multi headers; "
        "a documented b3 header always wins",
        "blanks (the C isspace set) at the ends of an id field - which is where a header value begins and ends - are "
        "an either-way region: the statement and both documents are silent, the W3C propagator of the same repository "
        "trims its header, so a reader may install the ids that are left after trimming or return the caller's "
        "context; a blank between the digits leaves no id and must not install anything",
        "an installed context carries nothing but the sampling decision in its flags byte (value 0x00 or 0x01) and a "
        "non-null empty trace state: neither header format has a field for another W3C flag or for trace state, and "
        "Jaeger's debug / firehose bits are not W3C flags (the statement itself only promises the decision; the "
        "repository's comment in b3_propagator.h 'other flag bits must not leak' is the ground for the byte)",
        "a X-B3-Flags header (named by the B3 document, not by the statement) never changes the ids; with the value "
        "'1' (debug, implies accept) a reader may report an otherwise unsampled context as sampled",
        "an absent header (null view from the carrier) and a header with an empty value are both 'missing'",
        "the public static helpers TraceIdFromHex / SpanIdFromHex / TraceFlagsFromHex called directly: documented "
        "spellings give exactly the value, other hex spellings the value or the zero id, an over-long value that does "
        "not fit is left to the sanitizers; arguments holding a non-hex byte are NOT generated: Extract validates with IsValidHex "
        "before it calls the helpers and the statement speaks of Inject/Extract, so non-hex arguments are outside the "
        "helpers' contract as far as this property goes (observation C16-fromhex-nonhex: HexToBinary shifts -1; "
        "proposed_fixes/C16-fromhex-nonhex.diff shows a repair)",
        "Inject must write a canonical header of its own format (what a strict reader of the documents accepts and "
        "decodes to the same ids and sampling decision); X-B3-Sampled is '0' or '1'",
        "returning the caller's context unchanged is observed as Context::operator== plus an untouched span slot",
        SC_NOTE,
    ],
    # rapidcheck processes under ASan grow in memory and slow down with the case count (allocation-stack
    # depot + quarantine): the thorough tier scales the rc runs OUT (more processes), not up.
    runs=[
        run("roundtrip", "c16_rc", "rt_inject_extract", "rc", dict(procs=3, cases=4000), dict(procs=8, cases=12000)),
        run("struct", "c16_rc", "ex_struct", "rc", dict(procs=3, cases=40000), dict(procs=10, cases=60000)),
        run("b3-single-bytes", "c16_rc", "b3_single_bytes", "rc", dict(procs=1, cases=10000), dict(procs=1, cases=60000)),
        run("b3-multi-bytes", "c16_rc", "b3_multi_bytes", "rc", dict(procs=1, cases=10000), dict(procs=1, cases=60000)),
        run("jaeger-bytes", "c16_rc", "jaeger_bytes", "rc", dict(procs=1, cases=10000), dict(procs=1, cases=60000)),
        run("helpers", "c16_rc", "b3_helpers", "rc", dict(procs=1, cases=10000), dict(procs=1, cases=60000)),
        run("b3-single-fuzz", "c16_fuzz", "b3_single_bytes", "fuzz", dict(procs=2, cases=160000, max_len=160),
            dict(procs=3, cases=1500000, max_len=300), replay_bin="c16_rc"),
        run("b3-multi-fuzz", "c16_fuzz", "b3_multi_bytes", "fuzz", dict(procs=2, cases=150000, max_len=220),
            dict(procs=3, cases=1500000, max_len=400), replay_bin="c16_rc"),
        run("jaeger-fuzz", "c16_fuzz", "jaeger_bytes", "fuzz", dict(procs=2, cases=180000, max_len=160),
            dict(procs=3, cases=1500000, max_len=300), replay_bin="c16_rc"),
        run("struct-fuzz", "c16_fuzz", "ex_struct", "fuzz", dict(procs=1, cases=100000, max_len=100),
            dict(procs=2, cases=800000, max_len=100), replay_bin="c16_rc"),
    ],
)

from props import *  # noqa: F401,F403

C11_SHADOW = [
    "sdk/include/opentelemetry/sdk/common/circular_buffer.h",
    "sdk/include/opentelemetry/sdk/common/atomic_unique_ptr.h",
    "api/include/opentelemetry/common/spin_lock_mutex.h",
]
rc_bin("c11_sched", ["harness/c11_lockfree.cc"], lib=False, shadow=C11_SHADOW)
PROPS["C11"] = dict(
    level_text="Schedule-controlled execution of the unmodified queue and spin-lock sources (token-renamed copies compiled "
               "against a scheduler shim): the interleaving is a generated input. Small configurations are enumerated "
               "exhaustively up to a preemption bound (2 quick / 3 thorough, plus one spurious weak-CAS failure); larger "
               "ones are explored with rapidcheck-generated and shrunk schedules. Every explored history satisfied the "
               "exactly-once / order / legit-failure / occupancy invariants. Exploration (bounded) is the right level: "
               "the property quantifies over interleavings, which example tests cannot control at all.",
    technique="generated schedules (rapidcheck choice streams) + bounded-exhaustive DFS by preemption bound over a "
              "deterministic scheduler shim; history-invariant oracle",
    rule="A case = (configuration, schedule). ",
    assumptions=[
        "interleavings are explored under sequential consistency: reorderings allowed only by the relaxed/acquire/release "
        "annotations are not explored",
        "liveness is bounded: no deadlock and completion within a step budget under a fairness quantum",
        "the shim renames std::atomic/std::this_thread tokens in copies of the headers; everything else is the repository's code",
        SC_NOTE,
    ],
    runs=[
        run("cb", "c11_sched", "cb_sched", "rc", dict(procs=5, cases=20000), dict(procs=10, cases=300000), asan_extra=SCHED_ASAN),
        run("spin", "c11_sched", "spin_sched", "rc", dict(procs=3, cases=12000), dict(procs=4, cases=150000), asan_extra=SCHED_ASAN),
        run("exhaustive", "c11_sched", "cb_sched", "exh", dict(procs=1, arg="quick"), dict(procs=1, arg="thorough", timeout=7200), asan_extra=SCHED_ASAN),
    ],
)

from props import *  # noqa: F401,F403

# ------------------------------------------------------------------------------------------------
# part 1: names and units (validator variants, byte-level fuzzing, Meter::Create* end to end)
_NAMES = ["harness/c19_names.cc", "harness/c19_noregex_validator.cc"]
rc_bin("c19n_rc", _NAMES, lib=True)
fuzz_bin("c19n_fuzz", _NAMES, lib=True, repo_srcs=["sdk/src/metrics/instrument_metadata_validator.cc"])

PROPS["C19"] = dict(
    level_text="x",
    technique="x",
    rule="x",
    assumptions=[SC_NOTE],
    runs=[
        run("validator", "c19n_rc", "validator", "rc", dict(procs=2, cases=20000), dict(procs=4, cases=200000)),
        run("validator-noregex", "c19n_rc", "validator_noregex", "rc", dict(procs=1, cases=20000),
            dict(procs=2, cases=200000)),
        run("bytes", "c19n_rc", "validator_bytes", "rc", dict(procs=1, cases=5000), dict(procs=2, cases=50000)),
        run("bytes-fuzz", "c19n_fuzz", "validator_bytes", "fuzz", dict(procs=2, cases=100000, max_len=700),
            dict(procs=4, cases=2000000, max_len=700), replay_bin="c19n_rc"),
        run("create-e2e", "c19n_rc", "create_e2e", "rc", dict(procs=3, cases=6000), dict(procs=8, cases=60000)),
    ],
)

from props import *  # noqa: F401,F403

# ------------------------------------------------------------------------------------------------
# part 1: names and units (both validator variants, byte-level fuzzing, Meter::Create* end to end).
# c19_noregex_validator.cc compiles the UNMODIFIED sdk/src/metrics/instrument_metadata_validator.cc a
# second time with OPENTELEMETRY_HAVE_WORKING_REGEX forced to 0 (class renamed), so that the
# hand-written #else variants - dead code in the pinned configuration - are checked as well.
_NAMES = ["harness/c19_names.cc", "harness/c19_noregex_validator.cc"]
rc_bin("c19n_rc", _NAMES, lib=True)
fuzz_bin("c19n_fuzz", _NAMES, lib=True, repo_srcs=["sdk/src/metrics/instrument_metadata_validator.cc"])

# part 2: views, scope-configurator rules, provider identity
rc_bin("c19v_rc", ["harness/c19_views_scopes.cc"], lib=True)

rc_bin("c19_race", ["harness/c19_identity_race.cc"], lib=True)
rc_bin("c19_race_tsan", ["harness/c19_identity_race.cc"], lib=True, san="tsan")
PROPS["C19"] = dict(
    level_text="Differential and model-based property tests over generated inputs and configurations (rapidcheck, "
               "plus libFuzzer for the (name, unit) bytes; ASan/UBSan): every explored case agreed with a reference "
               "validator written from the statement, a direct matcher for the view-selector grammar, a first-match "
               "model of the scope rules and an identity model of the providers, observed through in-harness "
               "readers/exporters. Exploration is the right level: the domain (all byte strings up to 300, all view / "
               "rule / request lists) is unbounded, the oracles are cheap and exact, and the defects of this area "
               "(length and alphabet boundaries, C-string handling, selector combinations, rule order, identity "
               "components) are boundary/combination defects that breadth of generated cases finds.",
    technique="differential reference validator + direct pattern matcher and regular-expression tree matcher + "
              "expected-stream-set model (incl. histogram boundaries and bucket counts) + first-match rule model over "
              "every provider construction path + identity model; rapidcheck choice streams, libFuzzer on the "
              "byte-level validator target",
    rule="Cases are choice streams decoded into (name, unit, storage layout) triples, Create* call lists, "
         "(meters, instruments, views) configurations, (rule list, scope list with logger scope attributes, provider "
         "construction path) configurations and Get* request lists (with construction path, GetLogger overload and "
         "\"\" / null-view presentation of empty components).",
    generators="names/units: boundary-length, offending-byte, embedded-NUL and random-byte classes in five storage layouts; "
               "create_e2e: 1..3 Create* calls (all 12), 1..2 collections. predicate/views name selectors: pool names, '*', "
               "the small grammar (literal, '.', '.*') and generated regular-expression TREES printed as text (atoms: "
               "literal words, '\\.', '.', classes [a-c] [^x] [._/-] [0-9] [qQ] [^.] [a-z.], groups (req|resp) (a|ab) ...; "
               "quantifiers + ? * {2} {1,2} {0,}; optional ^ / $) - well-formed by construction, ill-formed patterns are "
               "outside the domain. views: 1..3 meters, 1..4 instruments of the 6 ABI-v1 types (int/double, unit siblings), "
               "0..4 views (type/name/unit/meter selectors near an instrument or off by one component; rename, "
               "description, 5 aggregations, 6 attribute allow-lists, custom histogram boundaries drawn in 55% of the "
               "views whose stream is a histogram); every value is an integer < 2^53, so sums are exact in doubles. "
               "scope_rules: 0..5 rules of 10 kinds (name-equals, scripted predicates over name, version, schema, "
               "prefix, constant, name length, 'has attribute k', 'attribute k == int64 1'), 3 defaults, 1..4 scopes "
               "with emission counts and (loggers) one of 14 typed attribute sets; the tracer / meter / logger provider "
               "is built through one of 8 / 6 / 8 public constructor and factory overloads (context-taking and "
               "vector-taking ones included; the overloads without a configurator are modelled as 'no rules, enabled'). "
               "identity: 2..7 requests (fresh / exact repeat / one-component variation incl. blanking), empty "
               "components handed over as \"\" or as a null string_view, loggers through 5 GetLogger overloads with 15 "
               "attribute sets (int64, int32, bool, double, string_view, const char*, int64 and string arrays, set "
               "order, a key named twice).",
    oracle="validators: reference written from the statement (two-sided, NUL in a unit either). create_e2e: the set of "
           "streams at the reader == the set of valid instruments; the callback added to an observable instrument runs "
           "at every collection when the instrument is valid and NEVER when it is invalid (inert). predicate: direct "
           "matcher for the small grammar; for tree patterns the verdict is decided where the regular-expression reading "
           "(tree matcher) and the exact reading agree, either elsewhere; Match is a function of the text (asked twice "
           "from different storage). views: FindViews == reference relation in registration order / one neutral "
           "default view; every stream is attributed to its instrument by value markers and must fit one applied view "
           "(perfect matching): scope, name, description, unit, type, value type, attribute sets after the allow-list, "
           "point kind, monotonicity, sum / count / last value, and for histograms the boundary list (the view's own "
           "list, else the default 15 boundaries - also for the default view and for views without boundaries) and "
           "the bucket counts. scope_rules: first-match model per signal and construction path; exporter / reader "
           "contents per scope == model. identity: same identity => same pointer, scope reported == scope requested "
           "(null view == \"\"), attribute count == distinct keys; different identity => different pointer (assumption "
           "below); pairs whose attributes are in an either-relation are not judged.",
    assumptions=[
        "a NUL byte inside a unit is an either-region ('ASCII character' can be read both ways); a NUL inside a name "
        "is invalid",
        "name selectors are patterns: '*' alone, '.*' = any sequence, other characters literal; a '.' not followed by "
        "'*' is an either-region wherever 'any character' and 'literal dot' disagree",
        "a meter selector version/schema against a meter without version/schema is an either-region (the registry "
        "skips the filter there on purpose)",
        "Drop aggregation: either no stream or a stream with only drop points",
        "LastValue over several measurements of one series: any recorded value is accepted (clock ties)",
        "one instrument per (meter, name) and attribute keys handed over NUL-terminated: re-registration and "
        "attribute-key storage are the subject of C06/C08 (findings F8 first shape, F11)",
        "two view selectors matching one instrument are generated only while finding F8 is not excluded; "
        "attribute allow-lists on observable instruments only while C19-ASYNC-VIEW-FILTER is not excluded",
        "name selectors with regular-expression metacharacters other than '.' and '*': only well-formed patterns are "
        "in the domain (an ill-formed one makes InstrumentSelector's constructor throw std::regex_error; nothing "
        "documents selector behaviour there); where the pattern describes the name the verdict is an either-region "
        "(the statement names no pattern language), a name it does not describe must not be selected",
        "identity is also checked in the converse direction (different name / version / schema / attributes / logger "
        "name => different object): the statement only demands 'same request => same object'; the converse is what "
        "keeps the scope reported by the object equal to the scope requested, and the logger name is read as part of "
        "'name' for a logger",
        "scope attributes that differ only in integer width ({k: int32 1} vs {k: int64 1}), and a list naming a key "
        "twice against the list with the last value only, are either-regions of 'the same attributes'",
        "the scope configurator may be consulted about scopes nobody requested (only counted as a tag); what a disabled "
        "meter does with observable callbacks is not judged ('produces no telemetry' is checked at the reader)",
        "findings C19-async-hist-bounds (a Histogram view with its own boundaries on an observable instrument) and "
        "C19-logger-dup-attr-key (a logger attribute list that names a key twice) are fixed in /repo (8a98069, 23198eb); "
        "both shapes are generated by views / identity and each has a fixed witness target kept as a regression replay",
        "validator_locale runs both validator variants under the global locale C.utf8, the only non-\"C\" locale "
        "installed on this image (no single-byte ISO-8859 locale is available to make isalpha accept 0xC0..0xFF)",
        "ABI v1: no synchronous gauge, no tracer/meter scope attributes (logger scope attributes are covered)",
        "the non-regex validator variants are compiled from the unmodified source with the macro forced to 0; a "
        "platform-specific std::regex defect is out of scope",
        SC_NOTE,
    ],
    runs=[
        run("identity-threads", "c19_race", "identity_threads", "rc", dict(procs=2, cases=80), dict(procs=4, cases=3000), deterministic=False),
        run("identity-threads-tsan", "c19_race_tsan", "identity_threads", "rc", dict(procs=2, cases=50), dict(procs=4, cases=2000), deterministic=False, replay_bin="c19_race_tsan"),
        run("validator", "c19n_rc", "validator", "rc", dict(procs=2, cases=130000), dict(procs=4, cases=800000)),
        run("validator-noregex", "c19n_rc", "validator_noregex", "rc", dict(procs=1, cases=130000),
            dict(procs=2, cases=800000)),
        run("validator-locale", "c19n_rc", "validator_locale", "rc", dict(procs=1, cases=20000),
            dict(procs=1, cases=200000)),
        run("bytes", "c19n_rc", "validator_bytes", "rc", dict(procs=1, cases=20000), dict(procs=1, cases=200000)),
        run("bytes-fuzz", "c19n_fuzz", "validator_bytes", "fuzz", dict(procs=2, cases=320000, max_len=700),
            dict(procs=4, cases=2500000, max_len=700), replay_bin="c19n_rc"),
        run("create-e2e", "c19n_rc", "create_e2e", "rc", dict(procs=2, cases=45000), dict(procs=6, cases=160000)),
        run("predicate", "c19v_rc", "predicate", "rc", dict(procs=1, cases=130000), dict(procs=2, cases=600000)),
        run("views", "c19v_rc", "views", "rc", dict(procs=4, cases=32000), dict(procs=8, cases=160000)),
        run("scope-rules", "c19v_rc", "scope_rules", "rc", dict(procs=2, cases=26000), dict(procs=4, cases=120000)),
        run("identity", "c19v_rc", "identity", "rc", dict(procs=1, cases=65000), dict(procs=3, cases=300000)),
        # fixed cases, only ever replayed (known/C19/*.json, proposed_fixes/C19-*.replay.json): no search budget
        run("async-view-filter-witness", "c19v_rc", "async_view_filter_witness", "rc", None, None),
        run("async-hist-bounds-witness", "c19v_rc", "async_hist_bounds_witness", "rc", None, None),
        run("logger-dup-attr-key-witness", "c19v_rc", "logger_dup_attr_key_witness", "rc", None, None),
    ],
)

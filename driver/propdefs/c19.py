from props import *  # noqa: F401,F403

# ------------------------------------------------------------------------------------------------
# part 1: names and units (both validator variants, byte-level fuzzing, Meter::Create* end to end).
# c19_noregex_validator.cc compiles the UNMODIFIED sdk/src/metrics/instrument_metadata_validator.cc a
# second time with OPENTELEMETRY_HAVE_WORKING_REGEX forced to 0 (class renamed), so that the
# hand-written #else variants - dead code in the pinned configuration - are checked as well.
_NAMES = ["harness/c19_names.cc", "harness/c19_noregex_validator.cc"]
rc_bin("c19n_rc", _NAMES, lib=True)
fuzz_bin("c19n_fuzz", _NAMES, lib=True, repo_srcs=["sdk/src/metrics/instrument_metadata_validator.cc"])

# part 2: views, scope-configurator rules, provider identity
rc_bin("c19v_rc", ["harness/c19_views_scopes.cc"], lib=True)

rc_bin("c19_race", ["harness/c19_identity_race.cc"], lib=True)
rc_bin("c19_race_tsan", ["harness/c19_identity_race.cc"], lib=True, san="tsan")
PROPS["C19"] = dict(
    level_text="Differential and model-based property tests over generated inputs and configurations (rapidcheck, "
               "plus libFuzzer for the (name, unit) bytes; ASan/UBSan): every explored case agreed with a reference "
               "validator written from the statement, a direct matcher for the view-selector grammar, a first-match "
               "model of the scope rules and an identity model of the providers, observed through in-harness "
               "readers/exporters. Exploration is the right level: the domain (all byte strings up to 300, all view / "
               "rule / request lists) is unbounded, the oracles are cheap and exact, and the defects of this area "
               "(length and alphabet boundaries, C-string handling, selector combinations, rule order, identity "
               "components) are boundary/combination defects that breadth of generated cases finds.",
    technique="differential reference validator + direct pattern matcher + expected-stream-set model + first-match rule "
              "model + identity model; rapidcheck choice streams, libFuzzer on the byte-level validator target",
    rule="Cases are choice streams decoded into (name, unit, storage layout) triples, Create* call lists, "
         "(meters, instruments, views) configurations, (rule list, scope list) configurations and Get* request lists.",
    assumptions=[
        "a NUL byte inside a unit is an either-region ('ASCII character' can be read both ways); a NUL inside a name "
        "is invalid",
        "name selectors are patterns: '*' alone, '.*' = any sequence, other characters literal; a '.' not followed by "
        "'*' is an either-region wherever 'any character' and 'literal dot' disagree",
        "a meter selector version/schema against a meter without version/schema is an either-region (the registry "
        "skips the filter there on purpose)",
        "Drop aggregation: either no stream or a stream with only drop points",
        "LastValue over several measurements of one series: any recorded value is accepted (clock ties)",
        "one instrument per (meter, name) and attribute keys handed over NUL-terminated: re-registration and "
        "attribute-key storage are the subject of C06/C08 (findings F8 first shape, F11)",
        "two view selectors matching one instrument are generated only while finding F8 is not excluded; "
        "attribute allow-lists on observable instruments only while C19-ASYNC-VIEW-FILTER is not excluded",
        "ABI v1: no synchronous gauge, no tracer/meter scope attributes (logger scope attributes are covered)",
        "the non-regex validator variants are compiled from the unmodified source with the macro forced to 0; a "
        "platform-specific std::regex defect is out of scope",
        SC_NOTE,
    ],
    runs=[
        run("identity-threads", "c19_race", "identity_threads", "rc", dict(procs=2, cases=80), dict(procs=4, cases=3000), deterministic=False),
        run("identity-threads-tsan", "c19_race_tsan", "identity_threads", "rc", dict(procs=2, cases=50), dict(procs=4, cases=2000), deterministic=False, replay_bin="c19_race_tsan"),
        run("validator", "c19n_rc", "validator", "rc", dict(procs=2, cases=130000), dict(procs=4, cases=800000)),
        run("validator-noregex", "c19n_rc", "validator_noregex", "rc", dict(procs=1, cases=130000),
            dict(procs=2, cases=800000)),
        run("bytes", "c19n_rc", "validator_bytes", "rc", dict(procs=1, cases=20000), dict(procs=1, cases=200000)),
        run("bytes-fuzz", "c19n_fuzz", "validator_bytes", "fuzz", dict(procs=2, cases=320000, max_len=700),
            dict(procs=4, cases=2500000, max_len=700), replay_bin="c19n_rc"),
        run("create-e2e", "c19n_rc", "create_e2e", "rc", dict(procs=2, cases=45000), dict(procs=6, cases=160000)),
        run("predicate", "c19v_rc", "predicate", "rc", dict(procs=1, cases=130000), dict(procs=2, cases=600000)),
        run("views", "c19v_rc", "views", "rc", dict(procs=4, cases=32000), dict(procs=8, cases=160000)),
        run("scope-rules", "c19v_rc", "scope_rules", "rc", dict(procs=2, cases=26000), dict(procs=4, cases=120000)),
        run("identity", "c19v_rc", "identity", "rc", dict(procs=1, cases=65000), dict(procs=3, cases=300000)),
    ],
)

from props import *  # noqa: F401,F403

rc_bin("c01_sched", ["harness/c01_batch_delivery.cc"], lib=False, shadow=BATCH_SHADOW, shadow_srcs=BATCH_SHADOW_SRCS, repo_srcs=BATCH_PLAIN)
PROPS["C01"] = dict(
    level_text="TODO",
    technique="generated schedules over a deterministic scheduler shim (rapidcheck choice streams) + history-invariant oracle",
    rule="A case = (processor configuration, thread programs, exporter behaviour, schedule).",
    assumptions=SCHED_ASSUMPTIONS + [SC_NOTE],
    runs=[
        run("bsp", "c01_sched", "bsp_sched", "rc", dict(procs=6, cases=1500), dict(procs=10, cases=20000), asan_extra=SCHED_ASAN),
        run("blp", "c01_sched", "blp_sched", "rc", dict(procs=6, cases=1500), dict(procs=6, cases=20000), asan_extra=SCHED_ASAN),
    ],
)

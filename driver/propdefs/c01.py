from props import *  # noqa: F401,F403

rc_bin("c01_sched", ["harness/c01_batch_delivery.cc"], lib=False, shadow=BATCH_SHADOW, shadow_srcs=BATCH_SHADOW_SRCS, repo_srcs=BATCH_PLAIN)
rc_bin("c01_thr", ["harness/batch_thr.cc"], lib=True, defines=['VH_PROP_ID=\\"C01\\"'])
rc_bin("c01_thr_tsan", ["harness/batch_thr.cc"], lib=True, san="tsan", defines=['VH_PROP_ID=\\"C01\\"'])
PROPS["C01"] = dict(
    level_text="Schedule-controlled execution of the unmodified batch span/log processors (token-renamed copies of batch_*_processor.{h,cc}, circular_buffer.h, atomic_unique_ptr.h compiled against a scheduler shim that owns every atomic/mutex/condition-variable/thread/clock operation, virtual time): configuration, producer/flusher/shutdown programs, exporter latency AND the interleaving are generated (weighted, uniform and PCT priority schedules), shrunk and replayed. Every explored history satisfied: exactly-once delivery, per-producer order, losses only under the legit-drop rule (queue could have been full by call/return stamps, or the produce call raced Shutdown), producers never wait for a slow exporter. Bounded exploration is the right level for a property quantified over interleavings.",
    technique="generated schedules (weighted/uniform/PCT) over a deterministic scheduler shim (rapidcheck choice streams) + history-invariant oracle + real-thread stress under ASan and TSan",
    rule="A case = (processor configuration, thread programs, exporter behaviour, schedule).",
    assumptions=SCHED_ASSUMPTIONS + [SC_NOTE],
    runs=[
        run("bsp", "c01_sched", "bsp_sched", "rc", dict(procs=6, cases=30000), dict(procs=10, cases=250000), asan_extra=SCHED_ASAN),
        run("blp", "c01_sched", "blp_sched", "rc", dict(procs=6, cases=30000), dict(procs=6, cases=250000), asan_extra=SCHED_ASAN),
        run("bsp-threads-tsan", "c01_thr_tsan", "bsp_threads", "rc", dict(procs=1, cases=150), dict(procs=3, cases=3000), deterministic=False, replay_bin="c01_thr_tsan"),
        run("blp-threads-tsan", "c01_thr_tsan", "blp_threads", "rc", dict(procs=1, cases=150), dict(procs=3, cases=3000), deterministic=False, replay_bin="c01_thr_tsan"),
        run("bsp-threads", "c01_thr", "bsp_threads", "rc", dict(procs=1, cases=150), dict(procs=3, cases=3000), deterministic=False),
        run("blp-threads", "c01_thr", "blp_threads", "rc", dict(procs=1, cases=150), dict(procs=3, cases=3000), deterministic=False),
    ],
)

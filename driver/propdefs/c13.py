from props import *  # noqa: F401,F403

rc_bin("c13_rc", ["harness/c13_log_content.cc"], lib=True)
# the same harness built with g++ (the compiler the repository itself is built with): behaviour that depends on
# unspecified evaluation order (variadic EmitLogRecord argument application) differs between the two compilers
rc_bin("c13_gxx", ["harness/c13_log_content.cc"], lib=True, cxx="g++")
rc_bin("c13_tsan", ["harness/c13_log_content.cc"], lib=True, san="tsan")
PROPS["C13"] = dict(
    level_text="Model-based property tests: generated emit programs (57 precompiled call forms: argument orders of the variadic "
               "EmitLogRecord and the severity helper templates incl. overlapping arguments; body passed as AttributeValue / "
               "string_view / const char* / literal / std::string / bare scalar; timestamp as SystemTimestamp / time_point; "
               "attributes as KeyValueIterable / MakeAttributes(span | initializer_list | container) / std::map<string,AttributeValue> / "
               "map<string,int> / vector<pair> / string-owning containers; EventId with and without a name; whole and partial "
               "explicit trace identity; the NON-template virtual Log(...) overloads and the 24 Trace..Fatal wrappers built on them; "
               "CreateLogRecord + setters in generated order + EmitLogRecord(record) or EmitLogRecord(record, args...); "
               "every body/attribute value alternative; nested context frames: DefaultSpan with a valid or an invalid context, "
               "a SpanContext stored under the span key, a null pointer / non-span value under the span key, an unrelated key on "
               "top, real SDK spans (recording, ended, dropped by the sampler); enabled/disabled loggers, null records, 1..3 "
               "simple/batch processors) are compared inside each exporter's Export with a reference record model; caller storage "
               "is scribbled and freed as soon as Emit returns so ASan and the content comparison expose retained pointers.",
    technique="model-based PBT (reference log-record model) over generated emit programs with short-lived caller storage; rapidcheck; real threads for the per-thread active span clause",
    rule="A case = provider configuration + emit program(s).",
    assumptions=[
        "a timestamp / body / event that is not supplied is not compared; a severity that is not supplied is expected to stay "
        "Severity::kInvalid (the API's 'unspecified' value)",
        "EventId names are C strings by API design (no embedded NUL generated)",
        "a SpanContext stored under the span key of the current context counts as the active span (logger.cc handles that "
        "alternative explicitly); a null pointer or a non-span value under the span key counts as 'no active span' (all-zero ids)",
        "an ACTIVE span whose context is invalid but not all-zero is two-sided: the record may carry that context verbatim or "
        "all-zero ids; explicitly supplied identity fields win in both readings",
        "identity supplied only in part (TraceId / SpanId / TraceFlags alone): the supplied field wins, the other fields stay what "
        "CreateLogRecord copied from the active span (or zero)",
        "an int64_t first argument followed by a string LITERAL (logger->Info(7, \"fmt\", attrs)) resolves to the variadic "
        "template, where an int64 is a body that the literal then overwrites; such calls are not generated as 'event id' forms - "
        "the non-template overloads are reached with arguments of exactly the parameter types",
        "the values seen by the exporter are copied out of the record's AttributeValue views by the harness' own visitor "
        "(a const char* alternative is read up to its NUL inside Export)",
        "the multi-thread target owns no schedule: it adds evidence only",
        SC_NOTE,
    ],
    runs=[
        run("program", "c13_rc", "log_program", "rc", dict(procs=8, cases=9000), dict(procs=16, cases=80000)),
        # f5_witness is only ever replayed (known/C13/F5.json); it has no search budget
        run("f5-witness", "c13_rc", "f5_witness", "rc", None, None),
        # fixed witness of finding C13-eventid-noname (fixed; regression replay replays/C13/C13-eventid-noname.json);
        # replay only, no search budget
        run("eventid-noname-witness", "c13_rc", "eventid_noname_witness", "rc", None, None),
        run("threads", "c13_rc", "log_threads", "rc", dict(procs=3, cases=600), dict(procs=6, cases=6000), deterministic=False),
        # the same sequential programs under the TSan build: no quarantine, so freed spans/records are reused at once
        run("program-g++", "c13_gxx", "log_program", "rc", dict(procs=2, cases=2500), dict(procs=4, cases=30000), replay_bin="c13_gxx"),
        run("program-tsan", "c13_tsan", "log_program", "rc", dict(procs=2, cases=500), dict(procs=4, cases=8000), replay_bin="c13_tsan"),
        run("threads-tsan", "c13_tsan", "log_threads", "rc", dict(procs=2, cases=250), dict(procs=4, cases=4000), deterministic=False, replay_bin="c13_tsan"),
    ],
)

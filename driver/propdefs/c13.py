from props import *  # noqa: F401,F403

rc_bin("c13_rc", ["harness/c13_log_content.cc"], lib=True)
# the same harness built with g++ (the compiler the repository itself is built with): behaviour that depends on
# unspecified evaluation order (variadic EmitLogRecord argument application) differs between the two compilers
rc_bin("c13_gxx", ["harness/c13_log_content.cc"], lib=True, cxx="g++")
rc_bin("c13_tsan", ["harness/c13_log_content.cc"], lib=True, san="tsan")
# ASan without quarantine.  Given as a complete ASAN_OPTIONS value through env= (not asan_extra=) because the
# driver passes a run's env - but not its asan_extra - to the confirmation replays of a failure as well; the
# other settings are the ones ./check uses for every run (asan_env).
NOQUARANTINE = dict(ASAN_OPTIONS="detect_leaks=1:abort_on_error=0:allocator_may_return_null=1:"
                    "detect_stack_use_after_return=1:symbolize=1:handle_abort=0:malloc_context_size=6:exitcode=99:"
                    "strict_string_checks=1:quarantine_size_mb=0:thread_local_quarantine_size_kb=0")
PROPS["C13"] = dict(
    level_text="Model-based property tests: generated emit programs (57 precompiled call forms: argument orders of the variadic "
               "EmitLogRecord and the severity helper templates incl. overlapping arguments; body passed as AttributeValue / "
               "string_view / const char* / literal / std::string / bare scalar; timestamp as SystemTimestamp / time_point; "
               "attributes as KeyValueIterable / MakeAttributes(span | initializer_list | container) / std::map<string,AttributeValue> / "
               "map<string,int> / vector<pair> / string-owning containers; EventId with and without a name; whole and partial "
               "explicit trace identity; the NON-template virtual Log(...) overloads and the 24 Trace..Fatal wrappers built on them; "
               "CreateLogRecord + setters in generated order + EmitLogRecord(record) or EmitLogRecord(record, args...); "
               "every body/attribute value alternative; nested context frames: DefaultSpan with a valid or an invalid context, "
               "a SpanContext stored under the span key, a null pointer / non-span value under the span key, an unrelated key on "
               "top, real SDK spans (recording, ended, dropped by the sampler); span churn bursts (emit under span A, A released, span B "
               "started at A's address, emit under B); enabled/disabled loggers under a deny-list or an allow-list scope "
               "configurator, records created by one logger and emitted through another one (enabled or disabled) of the same "
               "provider, null records, 0..3 simple/batch processors of which some join later through "
               "LoggerProvider::AddProcessor - also between CreateLogRecord and EmitLogRecord) are compared inside each "
               "exporter's Export with a reference record model; caller storage "
               "is scribbled and freed as soon as Emit returns so ASan and the content comparison expose retained pointers; "
               "two runs switch ASan's quarantine off so that freed blocks (spans, records, caller buffers) are reused at once.",
    technique="model-based PBT (reference log-record model) over generated emit programs with short-lived caller storage; rapidcheck; real threads for the per-thread active span clause",
    rule="A case = provider configuration + emit program(s); logger_lifetime: a program of emits through loggers whose handles are released while the record waits in a batch processor, with further GetLogger calls for known and new scopes.",
    assumptions=[
        "a timestamp / body / event that is not supplied is not compared; a severity that is not supplied is expected to stay "
        "Severity::kInvalid (the API's 'unspecified' value)",
        "EventId names are C strings by API design (no embedded NUL generated)",
        "a SpanContext stored under the span key of the current context counts as the active span (logger.cc handles that "
        "alternative explicitly); a null pointer or a non-span value under the span key counts as 'no active span' (all-zero ids)",
        "an ACTIVE span whose context is invalid but not all-zero is two-sided: the record may carry that context verbatim or "
        "all-zero ids; explicitly supplied identity fields win in both readings",
        "identity supplied only in part (TraceId / SpanId / TraceFlags alone): the supplied field wins, the other fields stay what "
        "CreateLogRecord copied from the active span (or zero)",
        "an int64_t first argument followed by a string LITERAL (logger->Info(7, \"fmt\", attrs)) resolves to the variadic "
        "template, where an int64 is a body that the literal then overwrites; such calls are not generated as 'event id' forms - "
        "the non-template overloads are reached with arguments of exactly the parameter types",
        "the values seen by the exporter are copied out of the record's AttributeValue views by the harness' own visitor "
        "(a const char* alternative is read up to its NUL inside Export)",
        "the multi-thread target owns no schedule: it adds evidence only",
        "a record created by one enabled logger and emitted through another enabled logger of the same provider is exported "
        "exactly once; the statement does not say whose instrumentation scope it carries: the emitting logger's (what the "
        "code does) and the creating logger's are both accepted.  Emitted through a DISABLED logger nothing may be exported, "
        "whoever created the record",
        "a disabled logger's record (the API's NoopLogRecord) emitted through an ENABLED logger is not generated: "
        "sdk Logger::EmitLogRecord static_casts it to sdk::logs::Recordable, which is undefined behaviour on the unchanged tree "
        "(UBSan downcast report at logger.cc:119, SIGSEGV in the plain build); the statement speaks about records that carry "
        "supplied content, so this is recorded as an observation outside it (tag 'cross-logger:disabled->enabled (not generated...)')",
        "LoggerProvider::AddProcessor between CreateLogRecord and EmitLogRecord(record): 'every configured processor' is read "
        "as every processor that was configured when the record was CREATED (must get it exactly once, full content); a "
        "processor added after the creation may or may not get the record, and if it does the content must be complete; "
        "AddProcessor is documented as not thread safe, so the multi-thread targets add the held back processors before the "
        "threads start",
        "every exporter must only be handed recordables of the type its own MakeRecordable() returns (all in-tree exporters "
        "static_cast what they get); the harness exporter checks that with a dynamic_cast before reading anything",
        "every case starts with one record created under a process-lifetime sentinel span through a separate provider without "
        "processors, so that per-thread state the library might keep about 'the last span seen' cannot leak from the previous "
        "case: a failing case is self-contained and its replay fails in a fresh process",
        "span churn with a DefaultSpan places span B in the storage span A occupied (harness-owned slot, placement new): the "
        "address reuse a production allocator shows for back-to-back spans does not depend on the sanitizer's quarantine then; "
        "for SDK spans (allocated inside the tracer) the runs 'program-reuse' / 'threads-reuse' (ASan, quarantine off) and the "
        "TSan runs (no quarantine) provide the reuse",
        SC_NOTE,
    ],
    runs=[
        run("program", "c13_rc", "log_program", "rc", dict(procs=8, cases=12000), dict(procs=16, cases=80000)),
        # the same programs with ASan's quarantine switched off: a freed block is handed out again by the very next
        # allocation of its size class, so "span A ends, span B starts" puts B at A's address (anything keyed on an
        # object address goes stale) and a retained view reads the NEXT owner's bytes (content comparison)
        run("program-reuse", "c13_rc", "log_program", "rc", dict(procs=3, cases=12000), dict(procs=4, cases=60000),
            env=NOQUARANTINE),
        run("threads-reuse", "c13_rc", "log_threads", "rc", dict(procs=1, cases=600), dict(procs=2, cases=6000),
            deterministic=False, env=NOQUARANTINE),
        # f5_witness is only ever replayed (known/C13/F5.json); it has no search budget
        run("logger-lifetime", "c13_rc", "logger_lifetime", "rc", dict(procs=3, cases=400), dict(procs=6, cases=4000)),
        run("f5-witness", "c13_rc", "f5_witness", "rc", None, None),
        # fixed witness of finding C13-eventid-noname (fixed; regression replay replays/C13/C13-eventid-noname.json);
        # replay only, no search budget
        run("eventid-noname-witness", "c13_rc", "eventid_noname_witness", "rc", None, None),
        run("threads", "c13_rc", "log_threads", "rc", dict(procs=3, cases=600), dict(procs=6, cases=6000), deterministic=False),
        run("program-g++", "c13_gxx", "log_program", "rc", dict(procs=2, cases=6000), dict(procs=4, cases=30000), replay_bin="c13_gxx"),
        # the same sequential programs under the TSan build: no quarantine, so freed spans/records are reused at once
        run("program-tsan", "c13_tsan", "log_program", "rc", dict(procs=2, cases=5000), dict(procs=4, cases=40000), replay_bin="c13_tsan"),
        run("threads-tsan", "c13_tsan", "log_threads", "rc", dict(procs=2, cases=1500), dict(procs=4, cases=8000), deterministic=False, replay_bin="c13_tsan"),
    ],
)

from props import *  # noqa: F401,F403

rc_bin("c13_rc", ["harness/c13_log_content.cc"], lib=True)
# the same harness built with g++ (the compiler the repository itself is built with): behaviour that depends on
# unspecified evaluation order (variadic EmitLogRecord argument application) differs between the two compilers
rc_bin("c13_gxx", ["harness/c13_log_content.cc"], lib=True, cxx="g++")
rc_bin("c13_tsan", ["harness/c13_log_content.cc"], lib=True, san="tsan")
PROPS["C13"] = dict(
    level_text="Model-based property tests: generated emit programs (17 precompiled argument orders of the variadic EmitLogRecord "
               "and the severity helpers, CreateLogRecord + setters in generated order, every body/attribute value alternative, "
               "nested active spans, explicit trace identity, enabled/disabled loggers, null records, 1..3 simple/batch processors) "
               "are compared inside each exporter's Export with a reference record model; caller storage is scribbled and freed "
               "as soon as Emit returns so ASan and the content comparison expose retained pointers.",
    technique="model-based PBT (reference log-record model) over generated emit programs with short-lived caller storage; rapidcheck; real threads for the per-thread active span clause",
    rule="A case = provider configuration + emit program(s).",
    assumptions=[
        "timestamps/severity that are not supplied are not compared",
        "EventId names are C strings by API design (no embedded NUL generated)",
        "the multi-thread target owns no schedule: it adds evidence only",
        SC_NOTE,
    ],
    runs=[
        run("program", "c13_rc", "log_program", "rc", dict(procs=8, cases=9000), dict(procs=16, cases=80000)),
        # f5_witness is only ever replayed (known/C13/F5.json); it has no search budget
        run("f5-witness", "c13_rc", "f5_witness", "rc", None, None),
        run("threads", "c13_rc", "log_threads", "rc", dict(procs=3, cases=600), dict(procs=6, cases=6000), deterministic=False),
        # the same sequential programs under the TSan build: no quarantine, so freed spans/records are reused at once
        run("program-g++", "c13_gxx", "log_program", "rc", dict(procs=2, cases=2500), dict(procs=4, cases=30000), replay_bin="c13_gxx"),
        run("program-tsan", "c13_tsan", "log_program", "rc", dict(procs=2, cases=500), dict(procs=4, cases=8000), replay_bin="c13_tsan"),
        run("threads-tsan", "c13_tsan", "log_threads", "rc", dict(procs=2, cases=250), dict(procs=4, cases=4000), deterministic=False, replay_bin="c13_tsan"),
    ],
)

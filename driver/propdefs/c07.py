from props import *  # noqa: F401,F403

# ------------------------------------------------------------------------------------------------
rc_bin("c07_rc", ["harness/c07_histogram.cc"], lib=True)
rc_bin("c07_rc_abi2", ["harness/c07_histogram.cc"], lib=True, abi=2)
rc_bin("c07_sched", ["harness/c06_sched.cc"], lib=False, defines=["VH_SCHED_HIST", 'VH_PROP_ID=\\"C07\\"'],
       shadow=["api/include/opentelemetry/common/spin_lock_mutex.h"], shadow_globs=METRICS_SHADOW_GLOBS,
       shadow_srcs_globs=METRICS_SHADOW_SRCS_GLOBS, repo_srcs_globs=METRICS_PLAIN_GLOBS)
PROPS["C07"] = dict(
    level_text="Reference-model property tests (rapidcheck, ASan/UBSan) at two levels: the Long/Double histogram "
               "aggregation classes directly (Aggregate, Merge in generated binary-tree orders, Diff, ToPoint, clones "
               "made from points and merged back) and end to end through MeterProvider/Meter histogram instruments "
               "with default boundaries, one view or two views with different boundary lists on one instrument, "
               "several handles per instrument, read by delta and cumulative readers over several collection cycles "
               "(ABI v1 build and, for the context-less Record overloads, ABI v2 build). Every explored case agreed "
               "with a linear-scan reference written from the statement. Exploration is the right level: the "
               "domain (all boundary lists x all value multisets x all splits over cycles and readers) is unbounded, "
               "the oracle is cheap and exact, and the defects of this kind live at boundary-equal values, zeros, "
               "sentinels and merge paths that generated search reaches directly.",
    technique="differential reference model (linear-scan bucketing, exact min/max/count, exact-or-toleranced sum) + "
              "merge homomorphism (metamorphic) + per-reader, per-stream conservation over collection cycles; rapidcheck",
    rule="Cases are choice streams decoded into (boundaries, min/max flag, values split into chunks, merge tree) "
         "or into (instruments with 0..2 views each, readers, Record/Collect/new-handle history).",
    generators="boundary lists: the default list, empty, single, ladders (2..10 and 26..200 entries), mixed lists of "
               "2..24 entries drawn from small ints, default boundaries, dyadic and decimal fractions, huge (1e300, "
               "DBL_MAX, 2^53, 2^63), subnormal, negative, next-to-integer, random bit patterns, -0.0 and +inf; "
               "values: 0, equal to / next above / next below a boundary (of ANY stream of the instrument), small "
               "ints, dyadic, subnormal, huge, non-dyadic, random bits, -0.0, mid-bucket, above-top; int64: boundary "
               "floor/+1/-1, 2^53+-1, 2^62, INT64_MAX, random 63-bit; repeats up to 40x; end to end: 1..3 "
               "instruments (long/double), per instrument no view / one view (kHistogram or kDefault type, named or "
               "not) / two views (first named or not, second named; boundary lists and min/max flags independent, "
               "12% equal lists), 1..3 readers of either temporality, 1..60 operations (Record through any live "
               "handle with one of five attribute shapes, Collect by one reader, create or replace a handle), then "
               "a final Collect by every reader.",
    oracle="check_point: boundaries echo the configured list; bucket vector == linear-scan reference (int64 "
           "compared with the double boundary exactly); sum of bucket counts == count == number of values; sum "
           "exact or 1e-9 relative; min/max exact when carried, and carried when enabled. Applied to: every chunk, "
           "every Merge result, the merge of all chunks vs the single histogram, clones (copied/moved point) after "
           "one more value and merged with recorded histograms / each other / an empty clone; end to end to every "
           "reported point of every stream (delta: the interval's values; cumulative: everything so far), to the "
           "sum of all delta points and the last cumulative point at the end; a stream with values recorded since "
           "the reader's last Collect must be reported, no metric or attribute set may appear twice or unrecorded.",
    assumptions=[
        "values are non-negative and finite (Histogram::Record documents 'MUST be non-negative'); NaN/inf are not generated",
        "the sum of one series stays representable: <= INT64_MAX for integer instruments (signed overflow of the "
        "int64 sum is outside the domain), finite for floating instruments",
        "sum is compared exactly when every value is a multiple of 2^-10 below 2^30 (every association order is "
        "then exact) and within 1e-9 relative otherwise, because merged intervals add in a different order",
        "finding C07-int64-boundary-rounding (an int64 value above 2^53 whose double image rounds DOWN onto a boundary) is "
        "fixed in /repo (4238e2f); the shape is generated and the reference places it by exact comparison",
        "finding C07-u64-above-int64-max (Histogram<uint64_t>::Record with a value above INT64_MAX was recorded as a negative "
        "number) is fixed in /repo (ca8a659: the value is refused with a warning, as DoubleHistogram::Record refuses a negative "
        "one); the shape is generated and the oracle accepts exactly one outcome: the value is not recorded (HistogramPointData "
        "holds int64 sum/min/max and cannot contain it). A repair that saturates instead of dropping would need this oracle revisited.",
        "min/max are asserted when the point carries record_min_max_ and count > 0; with min/max enabled by the "
        "configuration the point must carry them (also on a fresh, empty aggregation: configuration echo)",
        "Diff is asserted for bucket counts and count only (documented as next - current); the property text does "
        "not cover Diff's sum (HistogramDiff never sets it) - reported as an observation, not a violation",
        "a cumulative reader may or may not re-send an unchanged series in a cycle without new data; a delta reader "
        "may omit or send an all-zero point for an empty interval (both accepted)",
        "two views on one instrument have different output names (at most one keeps the instrument name); every "
        "handle of an instrument is created with identical name, description and unit; one meter; < 2000 attribute "
        "sets per stream (the cardinality limit and its overflow series belong to C08)",
        "-0.0 and 0.0 are the same boundary (a list holds at most one of them); an infinite top boundary is a "
        "boundary like any other (v <= +inf holds for every value)",
        SC_NOTE,
    ],
    runs=[
        # measurements racing collections under generated schedules (the metrics SDK under the scheduler shim, see harness/c06_sched.cc)
        run("hist-sched", "c07_sched", "hist_sched", "rc", dict(procs=3, cases=15000), dict(procs=6, cases=200000), asan_extra=SCHED_ASAN),
        run("agg-double", "c07_rc", "agg_double", "rc", dict(procs=4, cases=30000), dict(procs=5, cases=500000)),
        run("agg-long", "c07_rc", "agg_long", "rc", dict(procs=4, cases=30000), dict(procs=5, cases=500000)),
        # fixed case of the repaired finding C07-u64-above-int64-max: replay only (replays/C07/), no search budget
        run("u64-wrap-witness", "c07_rc", "u64_wrap_witness", "rc", None, None),
        run("meter-cycles", "c07_rc", "meter_cycles", "rc", dict(procs=6, cases=10000), dict(procs=6, cases=200000)),
        run("meter-cycles-abi2", "c07_rc_abi2", "meter_cycles_abi2", "rc", dict(procs=2, cases=6000),
            dict(procs=2, cases=100000)),
    ],
)

from props import *  # noqa: F401,F403

# ------------------------------------------------------------------------------------------------
rc_bin("c07_rc", ["harness/c07_histogram.cc"], lib=True)
PROPS["C07"] = dict(
    level_text="Reference-model property tests (rapidcheck, ASan/UBSan) at two levels: the Long/Double histogram "
               "aggregation classes directly (Aggregate, Merge in generated binary-tree orders, Diff, ToPoint, clones) "
               "and end to end through MeterProvider/Meter histogram instruments with default and view-configured "
               "boundaries read by delta and cumulative readers over several collection cycles. Every explored case "
               "agreed with a linear-scan reference written from the statement. Exploration is the right level: the "
               "domain (all boundary lists x all value multisets x all splits over cycles and readers) is unbounded, "
               "the oracle is cheap and exact, and the defects of this kind live at boundary-equal values, zeros, "
               "sentinels and merge paths that generated search reaches directly.",
    technique="differential reference model (linear-scan bucketing, exact min/max/count, exact-or-toleranced sum) + "
              "merge homomorphism (metamorphic) + per-reader conservation over collection cycles; rapidcheck",
    rule="Cases are choice streams decoded into (boundaries, min/max flag, values split into chunks, merge tree) "
         "or into (instruments with views, readers, Record/Collect history).",
    assumptions=[
        "values are non-negative and finite (Histogram::Record documents 'MUST be non-negative'); NaN/inf are not generated",
        "the sum of one series stays representable: <= INT64_MAX for integer instruments (signed overflow of the "
        "int64 sum is outside the domain), finite for floating instruments; unsigned values above INT64_MAX are not "
        "generated (the SDK stores int64)",
        "sum is compared exactly when every value is a multiple of 2^-10 below 2^30 (every association order is "
        "then exact) and within 1e-9 relative otherwise, because merged intervals add in a different order",
        "an int64 value above 2^53 that is not representable as a double is never placed so that its rounded-down "
        "double image equals a boundary (the SDK's bucket search compares in double; that one-ulp shape is not asserted)",
        "min/max are asserted when the point carries record_min_max_ and count > 0; with min/max enabled by the "
        "configuration the point must carry them",
        "Diff is asserted for bucket counts and count only (documented as next - current); the property text does "
        "not cover Diff's sum (HistogramDiff never sets it) - reported as an observation, not a violation",
        "a cumulative reader may or may not re-send an unchanged series in a cycle without new data; a delta reader "
        "may omit or send an all-zero point for an empty interval (both accepted)",
        "one instrument handle per name, one view per instrument and < 2000 attribute sets, so the C06/C08 "
        "findings F8/F9/F10 are not in play",
        SC_NOTE,
    ],
    runs=[
        run("agg-double", "c07_rc", "agg_double", "rc", dict(procs=4, cases=30000), dict(procs=5, cases=500000)),
        run("agg-long", "c07_rc", "agg_long", "rc", dict(procs=4, cases=30000), dict(procs=5, cases=500000)),
        run("meter-cycles", "c07_rc", "meter_cycles", "rc", dict(procs=8, cases=8000), dict(procs=6, cases=200000)),
    ],
)

from props import *  # noqa: F401,F403

rc_bin("c03_sched", ["harness/c03_export_bounds.cc"], lib=False, shadow=BATCH_SHADOW + READER_SHADOW + SIMPLE_SHADOW, shadow_srcs=BATCH_SHADOW_SRCS + READER_SHADOW_SRCS + SIMPLE_SHADOW_SRCS, repo_srcs=BATCH_PLAIN)
rc_bin("c03_thr", ["harness/batch_thr.cc"], lib=True, defines=['VH_PROP_ID=\\"C03\\"'])
rc_bin("c03_thr_tsan", ["harness/batch_thr.cc"], lib=True, san="tsan", defines=['VH_PROP_ID=\\"C03\\"'])
rc_bin("c03_simple_thr", ["harness/c03_simple_thr.cc"], lib=True)
rc_bin("c03_simple_thr_tsan", ["harness/c03_simple_thr.cc"], lib=True, san="tsan")
PROPS["C03"] = dict(
    level_text="Same schedule-controlled engine: the exporter keeps an in-flight counter (never above 1 per exporter instance, with a yield/virtual sleep inside Export to invite overlap) and every delivered batch must hold 1..max_export_batch_size records, including histories with a ForceFlush before later production and the shutdown drain path.",
    technique="generated schedules (weighted/uniform/PCT) over a deterministic scheduler shim (rapidcheck choice streams) + history-invariant oracle + simple processors and periodic reader under the same shim + real-thread stress under ASan and TSan",
    rule="A case = (processor configuration, thread programs, exporter behaviour, schedule).",
    assumptions=SCHED_ASSUMPTIONS + [SC_NOTE],
    runs=[
        run("bsp", "c03_sched", "bsp_sched", "rc", dict(procs=6, cases=30000), dict(procs=10, cases=250000), asan_extra=SCHED_ASAN),
        run("blp", "c03_sched", "blp_sched", "rc", dict(procs=6, cases=30000), dict(procs=6, cases=250000), asan_extra=SCHED_ASAN),
        run("bsp-threads-tsan", "c03_thr_tsan", "bsp_threads", "rc", dict(procs=1, cases=150), dict(procs=3, cases=3000), deterministic=False, replay_bin="c03_thr_tsan"),
        run("blp-threads-tsan", "c03_thr_tsan", "blp_threads", "rc", dict(procs=1, cases=150), dict(procs=3, cases=3000), deterministic=False, replay_bin="c03_thr_tsan"),
        run("bsp-threads", "c03_thr", "bsp_threads", "rc", dict(procs=1, cases=150), dict(procs=3, cases=3000), deterministic=False),
        run("blp-threads", "c03_thr", "blp_threads", "rc", dict(procs=1, cases=150), dict(procs=3, cases=3000), deterministic=False),
        run("simple", "c03_sched", "simple_sched", "rc", dict(procs=3, cases=12000), dict(procs=4, cases=250000), asan_extra=SCHED_ASAN),
        run("reader", "c03_sched", "reader_sched", "rc", dict(procs=4, cases=10000), dict(procs=6, cases=200000), asan_extra=SCHED_ASAN),
        run("simple-span-threads-tsan", "c03_simple_thr_tsan", "simple_span_threads", "rc", dict(procs=1, cases=60), dict(procs=2, cases=1500), deterministic=False, replay_bin="c03_simple_thr_tsan"),
        run("simple-log-threads-tsan", "c03_simple_thr_tsan", "simple_log_threads", "rc", dict(procs=1, cases=60), dict(procs=2, cases=1500), deterministic=False, replay_bin="c03_simple_thr_tsan"),
        run("simple-span-threads", "c03_simple_thr", "simple_span_threads", "rc", dict(procs=1, cases=60), dict(procs=2, cases=1500), deterministic=False),
        run("simple-log-threads", "c03_simple_thr", "simple_log_threads", "rc", dict(procs=1, cases=60), dict(procs=2, cases=1500), deterministic=False),
    ],
)

from props import *  # noqa: F401,F403

# ------------------------------------------------------------------------------------------------
rc_bin("c14_rc", ["harness/c14_tracestate.cc"], lib=False)
fuzz_bin("c14_fuzz", ["harness/c14_tracestate.cc"], lib=False)
PROPS["C14"] = dict(
    level_text="Model-based and differential property tests over generated operation histories and header strings "
               "(rapidcheck + libFuzzer, ASan/UBSan): every explored case agreed with an ordered-list model and a "
               "two-sided reference parser. Exploration is the right level: the domain (all histories, all byte strings) "
               "is unbounded and the oracle is cheap, so breadth of generated cases is what finds grammar/ordering defects.",
    technique="stateful model-based PBT (list model) + differential reference parser + round trip; rapidcheck and libFuzzer",
    rule="Cases are choice streams decoded into TraceState operation histories / header strings.",
    assumptions=[
        "W3C trace-context level 1 grammar is the reference; digit-initial simple keys/system ids, "
        "whether empty members count towards 32, and repeated keys in a parsed header are treated as "
        "either-accept-or-reject regions",
        "Delete(invalid key) may return the unchanged list or the empty state",
        SC_NOTE,
    ],
    runs=[
        run("ops", "c14_rc", "ts_ops", "rc", dict(procs=4, cases=6000), dict(procs=16, cases=60000)),
        run("header", "c14_rc", "ts_header", "rc", dict(procs=3, cases=6000), dict(procs=8, cases=60000)),
        run("bytes", "c14_rc", "ts_bytes", "rc", dict(procs=1, cases=4000), dict(procs=4, cases=40000)),
        run("bytes-fuzz", "c14_fuzz", "ts_bytes", "fuzz", dict(procs=2, cases=150000, max_len=400),
            dict(procs=8, cases=3000000, max_len=1200), replay_bin="c14_rc"),
        run("header-fuzz", "c14_fuzz", "ts_header", "fuzz", dict(procs=2, cases=60000, max_len=600),
            dict(procs=4, cases=1000000, max_len=1200), replay_bin="c14_rc"),
    ],
)

from props import *  # noqa: F401,F403

# ------------------------------------------------------------------------------------------------
rc_bin("c14_rc", ["harness/c14_tracestate.cc"], lib=False)
fuzz_bin("c14_fuzz", ["harness/c14_tracestate.cc"], lib=False)
# c14_noregex.cc forces OPENTELEMETRY_HAVE_WORKING_REGEX to 0 and then includes c14_tracestate.cc: the
# UNMODIFIED trace_state.h with its hand-written IsValidKeyNonRegEx / IsValidValueNonRegEx (dead code in
# the pinned configuration, anchored by the property) behind the same generators and oracles.  TraceState
# is header-only, so the variant gets binaries of its own (one definition of every inline function per
# program); its targets are called ts_ops_noregex / ts_header_noregex / ts_bytes_noregex.
rc_bin("c14nr_rc", ["harness/c14_noregex.cc"], lib=False)
fuzz_bin("c14nr_fuzz", ["harness/c14_noregex.cc"], lib=False)
PROPS["C14"] = dict(
    level_text="Model-based and differential property tests over generated operation histories and header strings "
               "(rapidcheck + libFuzzer, ASan/UBSan): every explored case agreed with an ordered-list model and a "
               "two-sided reference parser, for the regex validators of the pinned configuration and for the "
               "hand-written non-regex validators (compiled from the unmodified header in binaries of their own). "
               "Exploration is the right level: the domain (all histories, all byte strings) "
               "is unbounded and the oracle is cheap, so breadth of generated cases is what finds grammar/ordering defects.",
    technique="stateful model-based PBT (list model) + differential reference parser + round trip; rapidcheck and libFuzzer; "
              "both validator variants",
    rule="Cases are choice streams decoded into TraceState operation histories / header strings.",
    assumptions=[
        "W3C trace-context level 1 grammar is the reference; digit-initial simple keys/system ids and "
        "whether empty members count towards 32 are treated as either-accept-or-reject regions",
        "repeated keys in a parsed header: the parser may refuse the header (empty state) or keep every member, the "
        "first or the last member of each key, or update the first member in place; it may not lose a key, reorder "
        "or truncate. 33+ members that fold to 32 or fewer keys may also be refused",
        "a receiver that holds a repeated key (only obtainable by parsing) is operated on with the literal reading of "
        "the statement - Set: given key first and once, Delete: no member with the given key left, Get: one of the "
        "values of the key - while the members of ANOTHER repeated key may be kept, folded as above or (Set only, "
        "documented 'result violates the specification') answered with the empty state",
        "Delete(invalid key) may return the unchanged list or the empty state",
        "Get's out-parameter after a miss is not asserted (the statement only speaks of the value of a present key)",
        "the non-regex validator variants are compiled from the unmodified header with the macro forced to 0 in a "
        "separate program; a platform-specific std::regex defect is out of scope",
        "non-regex variant: the findings C14-noregex-key and C14-noregex-value are fixed in /repo (cd0d86a, de5422e); their "
        "shapes are generated for both variants (were one listed as open again, the non-regex generators would re-shape "
        "exactly these keys/values and count them under excluded_for_known_findings)",
        SC_NOTE,
    ],
    runs=[
        run("ops", "c14_rc", "ts_ops", "rc", dict(procs=4, cases=6000), dict(procs=16, cases=60000)),
        run("header", "c14_rc", "ts_header", "rc", dict(procs=3, cases=6000), dict(procs=8, cases=60000)),
        run("bytes", "c14_rc", "ts_bytes", "rc", dict(procs=1, cases=4000), dict(procs=4, cases=40000)),
        run("bytes-fuzz", "c14_fuzz", "ts_bytes", "fuzz", dict(procs=2, cases=150000, max_len=400),
            dict(procs=8, cases=3000000, max_len=1200), replay_bin="c14_rc"),
        run("header-fuzz", "c14_fuzz", "ts_header", "fuzz", dict(procs=2, cases=60000, max_len=600),
            dict(procs=4, cases=1000000, max_len=1200), replay_bin="c14_rc"),
        # the same targets on the non-regex validators (much cheaper per case: no std::regex)
        run("ops-noregex", "c14nr_rc", "ts_ops_noregex", "rc", dict(procs=1, cases=24000), dict(procs=4, cases=240000)),
        run("header-noregex", "c14nr_rc", "ts_header_noregex", "rc", dict(procs=1, cases=18000),
            dict(procs=2, cases=240000)),
        run("bytes-noregex", "c14nr_rc", "ts_bytes_noregex", "rc", dict(procs=1, cases=4000),
            dict(procs=1, cases=160000)),
        run("bytes-fuzz-noregex", "c14nr_fuzz", "ts_bytes_noregex", "fuzz", dict(procs=1, cases=200000, max_len=400),
            dict(procs=2, cases=2000000, max_len=1200), replay_bin="c14nr_rc"),
    ],
)

from props import *  # noqa: F401,F403

# ------------------------------------------------------------------------------------------------
rc_bin("c12_rc", ["harness/c12_sampling.cc"], lib=True)
rc_bin("c12_tsan", ["harness/c12_sampling.cc"], lib=True, san="tsan")
PROPS["C12"] = dict(
    level_text="Metamorphic and reference-checked property tests (rapidcheck, ASan/UBSan) over generated (ratio pair, "
               "trace id set) cases whose ids are CONSTRUCTED around ratio*2^64 (+-40, +-4096, +-2^k, 65-point sweeps, "
               "top/bottom of the id space) and asked twice with different last 8 bytes, over generated parent contexts "
               "with a call-counting delegate, through a real sdk Tracer with a planned id generator (explicit, Context "
               "and active-span parents), and from 2..3 real threads on one shared sampler (ASan and TSan builds): every "
               "explored case satisfied the constants, monotonicity in ratio and in the id, independence, the ParentBased "
               "rules and 'span flag == sampler decision' for every parent. Exploration is the right level: the domain "
               "(2^64 ids x all doubles x all parents) cannot be enumerated, the risk sits at constructible floating-point "
               "boundaries, and the oracles are cheap.",
    technique="metamorphic PBT (monotone in ratio / in id, independence of name, kind, attributes, links, parent, instance, "
              "call history, last 8 id bytes, asking thread) + exact integer reference threshold with a tolerance band + "
              "call-counting delegate model that records every argument it is shown + end-to-end Tracer check; rapidcheck; "
              "real-thread smoke under ASan and TSan",
    rule="Cases are choice streams decoded into ratio pairs with boundary-constructed trace ids (sets and sweeps, each id "
         "with two tails), ParentBased call sequences, constant-sampler call sequences, Tracer span sequences (roots and "
         "children under plain and ParentBased samplers) and shared-sampler thread plans.",
    generators="gen_ratio (eighths, uniform, 2^-k, 1-2^-k, decimals, m*2^-k, tiny/subnormal, below 0, above 1, near 1, near 0, "
               "+-3 ulps) -> pairs (adjacent / independent / equal / delta / threshold+d); ids around floor(ratio*2^64) of "
               "either ratio (+-40, +-4096, +-2^k, uniform, edges, between, top) with 6 tail shapes and a second tail "
               "(all bits / one bit / one byte / random mask); sweeps of 65 ids with step 2^0..2^14, every point with two "
               "tails; gen_parent (valid: local/remote x any flags byte x trace state of 0/1/2..5/32 members, ids with a zero "
               "half; invalid: default, sampled flag, zero trace id, zero span id, all zero with flags ff); gen_extras (7 "
               "names incl. empty / 300 bytes / non-UTF8, 5 kinds, 0..3 attributes, 0..2 links); scripted delegates "
               "(3 decisions x trace state x attributes, or AlwaysOn / AlwaysOff / ratio inside); Tracer spans: roots named 5 "
               "ways, children named 3 ways (SpanContext, Context{span}, active span of the thread), root ids at the "
               "threshold; thread plans: 2..3 threads x 1..8 rounds x start offset x direction over 2..16 questions",
    oracle="(1) constants of the statement: ratio <= 0 never samples, ratio >= 1 always; (2) exact integer reference "
           "floor(ratio*2^64) with a two-sided tolerance band; (3) metamorphic: sampled at r => sampled at every r' >= r; "
           "sampled ids are a prefix of the id order; same decision with another name / kind / attributes / links / parent / "
           "instance / repetition / last 8 id bytes / asking thread; (4) ParentBased: valid parent => decision == parent's "
           "sampled bit, trace state == parent's, delegate not consulted; no valid parent => delegate consulted exactly once "
           "about exactly this span (id, name, kind, attribute and link contents) and its answer (decision, trace state, "
           "attributes) returned; (5) AlwaysOn / AlwaysOff: the constant decision for every input; (6) Tracer: sampled flag "
           "of the started span (context and exported data) == decision of an independently built sampler for EVERY parent "
           "(no exemption: a plain sampler's DROP under a sampled parent must clear the flag), IsRecording / OnStart / OnEnd "
           "follow the decision, a counting sampler is consulted once per span (never for a child under ParentBased) and is "
           "shown the span's own trace id / name / kind / attributes / links and the parent context exactly as the caller "
           "named it (ids, flags byte, remote, trace state), the span's trace state is the sampler's explicit answer, else "
           "the parent's; (7) threads: every answer of the shared instance equals the single-threaded answer fixed before "
           "the threads start (verdict independent of the interleaving), TSan reports races",
    assumptions=[
        "STRONGER THAN THE TEXT (byte order): the statement only says 'monotone function of the trace id'; the oracle pins "
        "the map the pinned tree implements - the FIRST 8 bytes of the trace id, read in HOST byte order (anchor: memcpy "
        "into a uint64), onto [0,2^64), the last 8 bytes being irrelevant. The reference, the monotone-in-id relation and "
        "the 'same leading 8 bytes, other tail => same decision' relation all use this map. An implementation that read "
        "the id big-endian or used the last 7/8 bytes (the direction of the current OpenTelemetry specification) could "
        "satisfy the statement and would still be reported; such a change needs the map in harness/c12_sampling.cc "
        "(make_trace_id / first8) changed with it",
        "the reference demands 'sampled' only when the mapped id is more than 8 + 2^-50*max(x,T) below floor(ratio*2^64) "
        "and 'dropped' only when it is as far above; inside the band only the metamorphic relations decide (so '<=' vs '<' "
        "and +-1 changes of the threshold are, consistently with the statement, not judged)",
        "NaN ratios are outside the stated domain and never generated",
        "a constructor that rejects an out-of-range ratio with the documented std::invalid_argument would be accepted "
        "(the pinned tree clamps instead)",
        "GetDescription strings are NOT part of the statement: their form (TraceIdRatioBasedSampler{<ratio>}, "
        "ParentBased{<delegate>}, AlwaysOnSampler / AlwaysOffSampler, equal between instances, stable across calls) is "
        "only classified in the tags desc-documented-form / desc-other-form / desc-differs-between-instances / "
        "desc-changed-after-calls and never produces a violation; the strings are still read in full under ASan",
        "STRONGER THAN THE TEXT (trace state of the constant samplers): 'always-on and always-off are constant' speaks of "
        "the decision only; the oracle additionally requires that a non-null trace state returned by AlwaysOn / AlwaysOff "
        "is the parent's (for an invalid parent: the parent's or the empty one), because the Tracer uses a returned trace "
        "state verbatim and a trace's participants would otherwise lose it",
        "a null trace state returned by ParentBased/AlwaysOn/AlwaysOff for a valid parent is accepted at sampler level "
        "(the Tracer falls back to the parent's trace state); at Tracer level the child's trace state must equal the "
        "parent's unless the configured (scripted) sampler explicitly answered another one (sampler.h: 'The tracestate used "
        "by the span'); for a root span without such an answer both the empty trace state and that of an explicitly named "
        "invalid parent context are accepted",
        "through the Tracer the sampled flag must equal the sampler's decision for every combination of sampler and "
        "parent, including an unsampled decision of a non-ParentBased sampler under a SAMPLED parent (finding F2, fixed "
        "in ff6b67a: the flag used to be inherited; the former exemption of that combination is removed)",
        "the arguments a sampler is shown by the Tracer are judged against sampler.h (anchor): the new span's trace id, "
        "name, kind, attributes, links, and the parent's SpanContext for a child; for a root span only 'an invalid "
        "SpanContext' is required, not which one",
        "of the ways to name a parent, explicit SpanContext, Context{span} and the thread's active span are generated; "
        "Context{valid span + root marker} and nested active spans are the business of property C05. Whether the id "
        "generator declares its ids random has no observable effect on the sampled flag and is generated only as noise",
        "the multi-thread target owns no schedule: its verdict is interleaving-independent, it adds evidence only",
        SC_NOTE,
    ],
    runs=[
        run("ratio", "c12_rc", "ratio_decision", "rc", dict(procs=5, cases=120000), dict(procs=16, cases=1500000)),
        run("sweep", "c12_rc", "ratio_sweep", "rc", dict(procs=2, cases=100000), dict(procs=6, cases=1000000)),
        run("parent", "c12_rc", "parent_based", "rc", dict(procs=3, cases=60000), dict(procs=8, cases=600000)),
        run("constant", "c12_rc", "constant", "rc", dict(procs=1, cases=30000), dict(procs=2, cases=400000)),
        run("tracer", "c12_rc", "tracer_flag", "rc", dict(procs=4, cases=50000), dict(procs=8, cases=500000)),
        run("threads", "c12_rc", "shared_threads", "rc", dict(procs=1, cases=1500), dict(procs=2, cases=15000), deterministic=False),
        run("threads-tsan", "c12_tsan", "shared_threads", "rc", dict(procs=1, cases=300), dict(procs=2, cases=4000), deterministic=False,
            replay_bin="c12_tsan"),
    ],
)

from props import *  # noqa: F401,F403

# ------------------------------------------------------------------------------------------------
rc_bin("c12_rc", ["harness/c12_sampling.cc"], lib=True)
PROPS["C12"] = dict(
    level_text="Metamorphic and reference-checked property tests (rapidcheck, ASan/UBSan) over generated (ratio pair, "
               "trace id set) cases whose ids are CONSTRUCTED around ratio*2^64 (+-40, +-4096, +-2^k, 65-point sweeps, "
               "top/bottom of the id space), over generated parent contexts with a call-counting delegate, and through a "
               "real sdk Tracer with a planned id generator: every explored case satisfied the constants, monotonicity in "
               "ratio and in the id, independence, and the ParentBased rules. Exploration is the right level: the domain "
               "(2^64 ids x all doubles x all parents) cannot be enumerated, the risk sits at constructible floating-point "
               "boundaries, and the oracles are cheap.",
    technique="metamorphic PBT (monotone in ratio / in id, independence of name, kind, attributes, links, parent, instance, "
              "call history) + exact integer reference threshold with a tolerance band + call-counting delegate model + "
              "end-to-end Tracer check; rapidcheck",
    rule="Cases are choice streams decoded into ratio pairs with boundary-constructed trace ids (sets and sweeps), "
         "ParentBased call sequences, constant-sampler call sequences and Tracer span sequences.",
    assumptions=[
        "the ratio sampler maps the FIRST 8 bytes of the trace id, read in host byte order, onto [0,2^64) (anchor: "
        "memcpy into a uint64); the reference demands 'sampled' only when that value is more than 8 + 2^-50*max(x,T) "
        "below floor(ratio*2^64) and 'dropped' only when it is as far above; inside the band only the metamorphic "
        "relations decide",
        "NaN ratios are outside the stated domain and never generated",
        "a constructor that rejects an out-of-range ratio with the documented std::invalid_argument would be accepted "
        "(the pinned tree clamps instead)",
        "a null trace state returned by ParentBased/AlwaysOn/AlwaysOff for a valid parent is accepted at sampler level "
        "(the Tracer falls back to the parent's trace state); at Tracer level the child's trace state must equal the "
        "parent's",
        "through the Tracer, an unsampled decision of a non-ParentBased sampler under a SAMPLED parent is not judged "
        "here (that is property C05); all other combinations are",
        SC_NOTE,
    ],
    runs=[
        run("ratio", "c12_rc", "ratio_decision", "rc", dict(procs=5, cases=120000), dict(procs=16, cases=1500000)),
        run("sweep", "c12_rc", "ratio_sweep", "rc", dict(procs=2, cases=100000), dict(procs=6, cases=1000000)),
        run("parent", "c12_rc", "parent_based", "rc", dict(procs=3, cases=60000), dict(procs=8, cases=600000)),
        run("constant", "c12_rc", "constant", "rc", dict(procs=1, cases=30000), dict(procs=2, cases=400000)),
        run("tracer", "c12_rc", "tracer_flag", "rc", dict(procs=4, cases=50000), dict(procs=8, cases=500000)),
    ],
)

from props import *  # noqa: F401,F403

rc_bin("c04_rc", ["harness/c04_span_content.cc"], lib=True)
rc_bin("c04_tsan", ["harness/c04_span_content.cc"], lib=True, san="tsan")
PROPS["C04"] = dict(
    level_text="Model-based property tests: generated span programs (all attribute value alternatives, duplicate keys, "
               "events/links/status/name/options, operations after End, 1..3 mixed processors, short-lived non NUL-terminated "
               "caller storage scribbled after every call) are compared field by field with what each processor's exporter "
               "copied inside Export. Exploration is the right level: the property quantifies over programs and inputs; the "
               "oracle is an independent reference span model and ASan turns retained caller pointers into reports.",
    technique="model-based PBT (reference span model) over generated span programs with short-lived caller storage; rapidcheck; real threads for the multi-thread clause",
    rule="A case = provider configuration + one span program.",
    assumptions=[
        "start/event timestamps that are not supplied are checked against the wall-clock window of the API call only",
        "duration is checked exactly only when both steady timestamps are supplied",
        "the multi-thread target owns no schedule (real threads): it adds sanitizer and invariant evidence only",
        SC_NOTE,
    ],
    runs=[
        run("program", "c04_rc", "span_program", "rc", dict(procs=8, cases=2500), dict(procs=16, cases=30000)),
        run("threads", "c04_rc", "span_threads", "rc", dict(procs=3, cases=600), dict(procs=8, cases=6000), deterministic=False),
        run("end-race", "c04_rc", "span_end_race", "rc", dict(procs=2, cases=400), dict(procs=4, cases=6000), deterministic=False),
        run("end-race-tsan", "c04_tsan", "span_end_race", "rc", dict(procs=2, cases=200), dict(procs=4, cases=3000), deterministic=False, replay_bin="c04_tsan"),
        run("threads-tsan", "c04_tsan", "span_threads", "rc", dict(procs=2, cases=250), dict(procs=4, cases=4000), deterministic=False, replay_bin="c04_tsan"),
    ],
)

from props import *  # noqa: F401,F403

# Baseline configuration (ABI v1, what /repo/_build uses).
rc_bin("c04_rc", ["harness/c04_span_content.cc"], lib=True)
rc_bin("c04_tsan", ["harness/c04_span_content.cc"], lib=True, san="tsan")
# The same harness against a second sanitizer build of the SDK compiled with -DOPENTELEMETRY_ABI_VERSION_NO=2:
# Span::AddLink / Span::AddLinks (links recorded after StartSpan) and instrumentation scope attributes exist only there.
rc_bin("c04_abi2", ["harness/c04_span_content.cc"], lib=True, abi=2)
PROPS["C04"] = dict(
    level_text="Model-based property tests: generated span programs (all attribute value alternatives incl. strings at the "
               "small-string boundary lengths and arrays of 200..4200 elements, duplicate keys, events with explicit "
               "timestamps incl. 0 / 1 / -1 ns and the int64 extremes, links at StartSpan and - in the ABI v2 build - "
               "through AddLink/AddLinks, status/name/start and end options, the virtual entry points and the container "
               "templates of the API, operations after End, a second End, a span that is only dropped, 1..3 processors "
               "of mixed kinds {simple, batch, own probe SpanProcessor} given to the provider or attached with "
               "AddProcessor, AlwaysOn / RECORD_ONLY / attribute-supplying samplers, short-lived non NUL-terminated "
               "caller storage scribbled after every call) are compared field by field with what each processor "
               "received: once as copied at delivery time (inside Export / OnEnd) and once more by reading the delivered "
               "recordable again after the whole program has run. The probe processor counts OnStart/OnEnd. "
               "Exploration is the right level: the property quantifies over programs and inputs; the oracle is an "
               "independent reference span model and ASan turns retained caller pointers into reports. The evidence "
               "classes 'build:abi1' / 'build:abi2' say which build ran.",
    technique="model-based PBT (reference span model) over generated span programs with short-lived caller storage; rapidcheck; real threads for the multi-thread clause",
    rule="A case = provider configuration + one span program.",
    generators="provider: 1..3 processors, kind of each from {simple 45, batch 35 (delay 1 ms | 5 s), probe 20}, last one "
               "optionally attached by TracerProvider::AddProcessor after GetTracer (25%); sampler {AlwaysOn 70, "
               "RECORD_AND_SAMPLE+attributes 15, RECORD_ONLY 15}; scope name/version/schema (+ attributes, ABI v2). "
               "StartSpan: name, 0..9 attributes from a 6-key pool + odd keys, 0..3 links (15% invalid contexts), kind, "
               "start_system_time (40%: ordinary | 1 | -1 | small), start_steady_time (40%), explicit parent (30%), "
               "KeyValueIterable or container overload (20%). Then 0..9 operations: SetAttribute 6, AddEvent 4 (4 forms x "
               "container overload; explicit timestamp: ordinary 12, 0 ns 3, 1, -1, u32, int64 min/max), SetStatus 2, "
               "UpdateName 2, End 2 (end_steady_time 40%), ABI v2: AddLink 2, AddLinks(0..3) 1. A span not ended by "
               "the program is ended by End() (65%) or only by dropping the last reference (35%, half of them after "
               "the tracer handle was released).",
    oracle="reference span model written from the property statement: name = last UpdateName before End; attributes = "
           "last write per key (type and value) + the configured sampler's attributes (disjoint keys); events and links "
           "in call order with their own last-write-wins attributes, an explicit event timestamp is kept bit-exact "
           "(0 ns included), a missing one lies in the system-clock window of the call; status = last SetStatus pair; "
           "kind, parent id, identity and trace flags equal span->GetContext(); scope and resource are the "
           "provider's; start time exact when given; duration exact when both steady times are given, otherwise "
           "bracketed by steady_clock readings taken around StartSpan and around the call that ended the span; "
           "nothing after the first End (also not by the destructor) changes the delivered recordable; every "
           "processor holds exactly one span after ForceFlush and after Shutdown; a probe processor saw OnStart once "
           "(with the parent span id of the program) and OnEnd once, for the same recordable.",
    assumptions=[
        "start/event timestamps that are not supplied are checked against the system-clock window of the API call only; the "
        "window is widened by the amount the system clock fell behind the steady clock during the call, so a backward "
        "wall-clock step (NTP) cannot fail correct code (a forward and a backward step inside one call are not anticipated)",
        "a start_system_time / start_steady_time / end_steady_time of exactly 0 means 'not given' by API design "
        "(default-constructed option fields) and is therefore not generated as an explicit value; event timestamps have "
        "no such convention: 0 ns is generated and must be kept",
        "duration is exact only when both steady timestamps are supplied; otherwise it is bracketed by steady_clock "
        "readings of the harness around the two SDK calls (same monotonic clock as the SDK uses)",
        "sampler-supplied attributes use keys that no generated application key can equal: the order between start "
        "attributes and sampler attributes for an equal key is not part of the statement",
        "a processor is attached with AddProcessor only before the span starts (the header documents that in-flight "
        "spans may not reach a processor added later); MakeRecordable never returns null (documented: 'a newly "
        "initialized recordable')",
        "the multi-thread targets own no schedule (real threads): they add sanitizer and invariant evidence only; events "
        "are compared in call order per thread, links/name/status come from one thread",
        SC_NOTE,
    ],
    runs=[
        run("program", "c04_rc", "span_program", "rc", dict(procs=6, cases=2500), dict(procs=12, cases=30000)),
        run("program-abi2", "c04_abi2", "span_program", "rc", dict(procs=4, cases=2500), dict(procs=8, cases=25000), replay_bin="c04_abi2"),
        run("threads", "c04_rc", "span_threads", "rc", dict(procs=2, cases=600), dict(procs=6, cases=6000), deterministic=False),
        run("threads-abi2", "c04_abi2", "span_threads", "rc", dict(procs=1, cases=600), dict(procs=3, cases=6000), deterministic=False, replay_bin="c04_abi2"),
        run("end-race", "c04_rc", "span_end_race", "rc", dict(procs=2, cases=400), dict(procs=4, cases=6000), deterministic=False),
        run("end-race-tsan", "c04_tsan", "span_end_race", "rc", dict(procs=2, cases=200), dict(procs=4, cases=3000), deterministic=False, replay_bin="c04_tsan"),
        run("threads-tsan", "c04_tsan", "span_threads", "rc", dict(procs=2, cases=250), dict(procs=4, cases=4000), deterministic=False, replay_bin="c04_tsan"),
    ],
)

from props import *  # noqa: F401,F403

# ------------------------------------------------------------------------------------------------
_SRC = ["harness/c18_resource_env.cc"]
rc_bin("c18_rc", _SRC, lib=True)
# the readers and the detector are compiled with coverage instrumentation into the fuzz binary
fuzz_bin("c18_fuzz", _SRC, lib=True,
         repo_srcs=["sdk/src/common/env_variables.cc", "sdk/src/resource/resource_detector.cc"])
PROPS["C18"] = dict(
    level_text="Differential and algebraic property tests (rapidcheck + libFuzzer, ASan/UBSan): every explored "
               "setting string agreed with a two-sided reference grammar for the five environment readers under "
               "every ambient errno, every generated pair of attribute maps merged as the union with the "
               "argument winning, and Resource::Create / OTEL_SDK_DISABLED were checked in a fresh process per "
               "case. Exploration is the right level: the domain (all strings, all maps) is unbounded and the "
               "oracle is cheap, so breadth of generated boundary cases is what finds parsing and precedence defects.",
    technique="differential reference grammar (two-sided) + algebraic laws + fork-per-case precedence model; "
              "rapidcheck and libFuzzer",
    rule="Cases are choice streams decoded into environment settings, attribute maps and schema URLs.",
    assumptions=[
        "readers: blank padding, a leading sign (non-negative value), a zero duration and float spellings "
        "beyond plain decimals (exponent, hex, inf/nan, underflow) are either-regions: reject, or accept "
        "with exactly the denoted value; a rejected duration may leave the out-parameter untouched",
        "a bare number is a duration in seconds (documented in env_variables.cc)",
        "OTEL_RESOURCE_ATTRIBUTES: blank trimming, percent-decoding, first/last of a repeated key, "
        "empty keys/tokens and skip-token vs discard-all on a malformed token are either-regions "
        "(specification vs implementation); the value splits at the first '='",
        "the C library's strtof is the trusted grammar for float spellings beyond plain decimals",
        SC_NOTE,
    ],
    runs=[
        run("readers", "c18_rc", "env_readers", "rc", dict(procs=3, cases=100000), dict(procs=8, cases=400000)),
        run("bytes", "c18_rc", "env_bytes", "rc", dict(procs=1, cases=30000, max_size=40),
            dict(procs=2, cases=300000, max_size=60)),
        run("merge", "c18_rc", "res_merge", "rc", dict(procs=1, cases=20000), dict(procs=4, cases=150000)),
        run("detect", "c18_rc", "res_detect", "rc", dict(procs=2, cases=15000), dict(procs=4, cases=100000)),
        run("detect-bytes", "c18_rc", "res_detect_bytes", "rc", dict(procs=1, cases=10000, max_size=40),
            dict(procs=2, cases=200000, max_size=60)),
        # fork per case (about 6 ms / 14 ms each): modest counts, every child does several checks
        run("create", "c18_rc", "res_create", "rc", dict(procs=3, cases=1500), dict(procs=6, cases=12000)),
        run("disabled", "c18_rc", "sdk_disabled", "rc", dict(procs=2, cases=1000), dict(procs=6, cases=7000)),
        run("bytes-fuzz", "c18_fuzz", "env_bytes", "fuzz", dict(procs=2, cases=300000, max_len=64),
            dict(procs=6, cases=2500000, max_len=96), replay_bin="c18_rc"),
        run("detect-fuzz", "c18_fuzz", "res_detect_bytes", "fuzz", dict(procs=1, cases=40000, max_len=48),
            dict(procs=4, cases=400000, max_len=96), replay_bin="c18_rc"),
    ],
)
